#!/bin/bash
# runs every mutants/<ID>-*.patch (or those matching $1) against its check in parallel; prints a table
cd "$(dirname "$0")/.."
pat="${1:-C}"
ls mutants/${pat}*.patch | xargs -P 3 -I{} bash -c 'p={}; id=$(basename $p | cut -d- -f1); out=$(tools/mutant_run.sh $p $id 2>&1); rc=$?; v=$(echo "$out" | grep -c "^VIOLATION"); echo "$(basename $p) rc=$rc violations_lines=$v $(echo "$out" | grep -m1 "^violation-mechanism" | cut -c1-160)"'
