#!/bin/bash
# tools/mutant_run.sh <patch-file> <Cxx> [more check args]   -- run a check against a patched scratch copy of /repo
# exit code = the check's exit code (1 expected for a killing check). Evidence/replays go to a scratch dir.
patch="$(realpath "$1")"; shift
id="$1"; shift
here="$(cd "$(dirname "$0")/.." && pwd)"
copy=$(mktemp -d /var/tmp/verif-mut-XXXXXX)
trap 'rm -rf "$copy"' EXIT
rsync -a --exclude .git --exclude '*.pyc' --exclude __pycache__ /repo/ "$copy/repo/"
( cd "$copy/repo" && patch -p1 -s < "$patch" ) || { echo "patch failed"; exit 3; }
mkdir -p "$copy/ev" "$copy/rp"
cd "$here" && VERIF_REPO="$copy/repo" VERIF_EVIDENCE_DIR="$copy/ev" VERIF_REPLAY_DIR="$copy/rp" ./check "$id" "$@"
rc=$?
echo "mutant $(basename "$patch") on $id -> exit $rc"
exit $rc
