#!/bin/bash
# tools/seed_eval.sh <dir-with-patch.diff+demo.py+notes.md> <Cxx> <seed-name> [tier]
# verifies a seeded change in a scratch copy: demo passes on clean tree, fails with the patch, runs our check against
# the patched copy, then (serialised by a lock, suite uses fixed ports) the repository's test suite on the patched copy.
src="$(realpath "$1")"; id="$2"; name="$3"; tier="${4:-quick}"; prop="${5:-$2}"
here="$(cd "$(dirname "$0")/.." && pwd)"
out="$here/seeded/$name"; mkdir -p "$out"
cp "$src/patch.diff" "$out/patch.diff"; cp "$src"/demo*.py "$out/" 2>/dev/null; cp "$src"/test_demo.py "$out/" 2>/dev/null; cp "$src/notes.md" "$out/notes.md" 2>/dev/null
demo=$(ls "$out"/demo*.py "$out"/test_demo.py 2>/dev/null | head -1)
copy=$(mktemp -d /var/tmp/verif-seed-XXXXXX)
trap 'rm -rf "$copy"' EXIT
rsync -a --exclude .git --exclude '*.pyc' --exclude __pycache__ --exclude out /repo/ "$copy/repo/"
run_demo() { ( cd "$copy/repo" && mkdir -p out/x && cp "$demo" out/x/ && PYTHONPATH="$copy/repo" timeout 600 /venv/bin/python out/x/$(basename "$demo") "$copy/repo" >"$copy/demo.log" 2>&1; echo $? ); }
clean_rc=$(run_demo)
( cd "$copy/repo" && git apply --unsafe-paths -p1 "$out/patch.diff" 2>/dev/null || patch -p1 -s < "$out/patch.diff" ) || { echo "patch failed"; exit 3; }
patched_rc=$(run_demo)
tail -5 "$copy/demo.log" > "$out/demo_patched_tail.txt"
mkdir -p "$copy/ev" "$copy/rp"
( cd "$here" && VERIF_REPO="$copy/repo" VERIF_EVIDENCE_DIR="$copy/ev" VERIF_REPLAY_DIR="$copy/rp" ./check "$id" --tier "$tier" > "$copy/check.log" 2>&1 ); check_rc=$?
grep -m3 "^violation-mechanism" "$copy/check.log" > "$out/check_mechanisms.txt"
# the repository's own suite on the patched copy (serialised)
suite="skipped"
if [ -z "$SEED_NO_SUITE" ]; then
  exec 9>/var/tmp/verif-suite.lock; flock 9
  ( cd "$copy/repo" && timeout 1500 /venv/bin/python -m pytest -q -p no:cacheprovider --timeout=900 --continue-on-collection-errors --junitxml="$copy/suite.xml" > "$copy/suite.log" 2>&1 )
  flock -u 9
  suite=$("$here/tools/baseline_cmp.py" "$copy/suite.xml" 2>&1 | head -1)
  "$here/tools/baseline_cmp.py" "$copy/suite.xml" 2>&1 | grep MISSING | head -10 > "$out/suite_missing.txt"
fi
/venv/bin/python - "$out" "$id" "$name" "$clean_rc" "$patched_rc" "$check_rc" "$suite" "$tier" "$prop" <<'PY'
import json, sys, os
out, pid, name, clean, patched, check, suite, tier, prop = sys.argv[1:10]
notes = open(os.path.join(out, 'notes.md')).read() if os.path.exists(os.path.join(out, 'notes.md')) else ''
meta = {'property': prop, 'checked_with': pid, 'name': name, 'demo_exit_on_clean_tree': int(clean), 'demo_exit_with_patch': int(patched),
        'our_check': './check %s --tier %s' % (pid, tier), 'our_check_exit_with_patch': int(check), 'caught': int(check) == 1,
        'repository_suite_with_patch': suite, 'needs_to_manifest': notes[:1500],
        'ran': 'tools/seed_eval.sh (scratch copy of /repo at HEAD + patch; demo on clean and patched copy; our check via VERIF_REPO; full pytest suite compared with BASELINE stable_pass)'}
hp = os.path.join(os.path.dirname(out), 'HISTORY.json')
if os.path.exists(hp):
    meta.update(json.load(open(hp)).get(name, {}))
if suite == 'skipped' and os.path.exists(os.path.join(out, 'meta.json')):
    try:
        old = json.load(open(os.path.join(out, 'meta.json')))
        if old.get('repository_suite_with_patch', 'skipped') != 'skipped':
            meta['repository_suite_with_patch'] = old['repository_suite_with_patch'] + ' (from an earlier evaluation)'
    except Exception:
        pass
json.dump(meta, open(os.path.join(out, 'meta.json'), 'w'), indent=1)
print(name, 'demo clean=%s patched=%s check_rc=%s suite=[%s]' % (clean, patched, check, suite))
PY
