#!/venv/bin/python
"""Regenerates /verif/MANIFEST.json from the table below + which checks/cXX.py exist."""
import json, os, subprocess
HERE = os.path.dirname(os.path.dirname(os.path.abspath(__file__)))
BASE = json.load(open('/root/.vp/BASELINE.json'))

CHECKS = {
 'C02': dict(cat='exploration', sec='3/C02', technique='runtime monitoring: each service\'s own capabilities documents are parsed by independent parsers, the rectangle a standards-following client computes for an advertised address is derived from them, the tile is requested and its pixels compared with the NOISE upstream picture of exactly that rectangle',
   text='Generated grids (global mercator/geodetic profiles, sqrt2 and explicit ladders, local grids with bbox not a multiple of the tile span, aligned grids, ll/ul origin, lat/long-axis SRS, non-square tiles), layers with extent equal to or smaller than the grid, TMS origin option; probed through TMS (root -> TileMap -> TileSets), /tiles with ?origin=sw|nw (same ground tile must be the same image), WMTS KVP and REST (TileMatrix scale, TopLeftCorner in CRS axis order, matrix sizes), WMS-C (TileSet BoundingBox/Resolutions) and KML (LatLonBox). All advertised levels, corner/edge/interior addresses. Because every pixel of the NOISE pyramid is unique, a tile of the wrong level, row convention or origin is a total mismatch.',
   note='trusted: vlib/caps.py (rules written from TMS 1.0.0 / WMTS 1.0.0 / WMS-C / KML), pyproj axis order, NOISE. Sub-half-pixel shifts are invisible; pixels near the grid/coverage border are not judged; coverage-limited layers are compared within two pixels (placement accuracy is C01). Three open known findings (TMS/WMS-C on ul grids that cannot be flipped, WMTS with sqrt2 ladders, KML wrap-around) are reproduced by directed cases in every run.'),
 'C08': dict(cat='exploration', sec='3/C08', technique='runtime monitoring under a cooperative scheduler at the app level: logical clients serialised at cache reads/writes, file-lock operations, write_atomic/bundle file-system calls and upstream enter/return; oracle on responses (NOISE), final cache sweep and per-meta-tile fetch counts; plus forked multi-process stress with injected delays',
   text='2-6 clients request the same tile, tiles of one meta tile or tiles of two meta tiles (through /tiles requests and TileManager batches) on an empty file / sqlite / compact-v2 cache with meta 1x1..3x2, WMS or bulk tile source; the scheduler owns every backend call, every FileLock step (virtual clock), the os.open/rename/unlink of write_atomic and bundle writers, cooperative replacements of the backends\' thread locks, and the upstream call. Random, sticky and PCT schedules; a cross-block probe holds one client inside the upstream while clients of another meta tile must finish; fault runs fail the first upstream call. Judged: every response pixel-equals NOISE, the cache ends with exactly the tiles of the touched meta tiles, one upstream request per meta tile, no deadlock. Stress rounds fork 2-5 real processes on one cache directory with random delays and count identical upstream requests across processes.',
   note='trusted: scheduler, proxies, NOISE. Code between scheduling points is atomic in cooperative mode; multi-process schedules are stressed, not enumerated. concurrent_tile_creators=1 here (C04 exercises creator threads).'),
 'C04': dict(cat='exploration', sec='3/C04', technique='runtime monitoring: real TileManagers from the real loader driven against a pixel-unique NOISE upstream; recording proxy around the cache backend + upstream log; every produced/stored tile compared pixel-exactly (or within one pixel where a buffer is cut at the grid border) with the upstream picture',
   text='Cache configurations are generated over meta_size (1x1..5x3), meta_buffer (0..200 on 32-128 px tiles, so buffers exceed tiles), minimize_meta_requests, bulk_meta_tiles, concurrent_tile_creators 1/2/4, WMS and tile sources, file/sqlite/compact backends, 3 SRS, 4 bbox classes, both origins, factor-2/sqrt2/free/explicit ladders; each is driven by single-tile, TMS, multi-tile batch and WMS GetMap requests aimed at grid corners and edges. The NOISE upstream gives every pixel of the pyramid a unique colour, so any wrong crop offset, row order, level or lost tile is a total mismatch. Judged: returned tiles, all stored tiles (sweep), one store group = all in-grid tiles of one meta tile, one upstream request per group (sequential creators). Exploration is the reachable level: the configuration space is a product of unbounded parameters.',
   note='trusted: the NOISE function and lattice (taken from the loaded grid\'s bbox/resolutions/origin), PIL png codec. Pixels within one pixel of the grid border or outside it are not judged. Real threads (concurrent_tile_creators) are not schedule-controlled here (C08 does that).'),
 'C19': dict(cat='exploration', sec='3/C19', technique='runtime monitoring: store/overwrite/remove/bulk histories on the real compact caches with a structural invariant checked by an independent bundle parser at every quiescent point, a dict model, and before/after comparison around the real defragmentation',
   text='Histories of 10-400 operations (store, overwrite, bulk store within and across bundles, remove) on CompactCacheV1/V2 over slots 0/127/128k/last and payloads 100 B-300 kB; after every operation an independent reader (vlib/bundle.py, no mapproxy import) parses every bundle and checks that each index entry is empty or points at a complete record inside the file with matching size, and that parser, dict model and cache API agree; the real defrag_compact_cache (and the CLI entry) runs 2-4 times per history with thresholds from never to always: every address must return identical bytes, no file may grow, no temporary file may remain.',
   note='trusted: the independent parser, dict model. Single-threaded, no crashes (C06/C07 cover those). Header fields the statement does not mention are counted, not judged. Bundles with row/column >= 0x10000 are never matched by defrag (observed, not a violation).'),
 'C06': dict(cat='fault_enumeration', sec='3/C06', technique='runtime monitoring with crash-fault enumeration: the store runs in a forked child whose k-th raw file-system operation is replaced by process death (page-aligned torn writes included); a fresh reader in the parent judges every address against {previous, new, missing-if-allowed}',
   text='For file cache (plain, symlinked, hardlinked single-colour tiles), compact v1/v2 (single, bulk within and across bundles, overwrite, remove, index slots straddling a page), legend cache and seed progress file, with empty / populated / previously-crashed prior contents and 200 B-300 kB payloads, the real store executes in a child process under raw-I/O failpoints; the child is killed before every operation index 0..N (all in thorough; all non-write ops, all torn writes and a sample of plain writes in quick) and after a page-aligned prefix of every write crossing a 4096 boundary. After each crash a fresh cache object must return previous content, complete new content, or missing where the statement allows it, for batch and bystander addresses, and an ordinary store afterwards must succeed. This is enumeration of the crash points of the generated scenarios, not of all scenarios.',
   note='trusted: the failpoint layer (io.FileIO subclass under the normal buffered objects, wrapped os.* calls), fork/os._exit as a stand-in for SIGKILL. Crash model = process death only; torn writes only at page-aligned offsets. Known finding C06-compact-v1-index-entry-straddles-page is reported as KNOWN-FINDING.'),
 'C07': dict(cat='exploration', sec='3/C07', technique='runtime monitoring under a cooperative scheduler: real FileLock/SemLock contenders serialised at open/flock/stat/close/gc-close/remove/sleep with a virtual clock; holder-count monitor, timeout oracle, re-acquire probe; random/PCT schedules + preemption-bounded exhaustive DFS',
   text='2-4 contenders x 1-3 lock/unlock cycles on one path run through the repository\'s FileLock (keep-file and remove-on-unlock) and SemLock (n=1..3); every file-system call of the lock code is a scheduling point owned by a deterministic scheduler, time is virtual. Monitors: number of contenders inside <= 1 (<= n), LockTimeout only after the full timeout and only if every failed flock attempt happened while another contender held/was acquiring/releasing, a fresh lock succeeds after all finished, no deadlock. Small configurations are enumerated completely up to a preemption bound (sleep = yield); larger ones are sampled with random and PCT strategies. Every run is a replayable trace.',
   note='trusted: the scheduler and the module-attribute proxies (lockfile.open/fcntl/os, lock.os/time/random); threads with separate open() calls stand in for processes because flock is per open file description; code between scheduling points is atomic; cleanup_lockdir excluded.'),
 'C15': dict(cat='exploration', sec='3/C15', technique='runtime monitoring under a cooperative scheduler: the real ThreadPool with consumer and adopted worker threads serialised at every queue operation; forced completion permutations, random/PCT schedules, preemption-bounded exhaustive DFS; oracle on the yielded sequence',
   text='The real ThreadPool.imap/map/starmap/starcall and module helpers run with n=1..6 items, pool sizes 1..4, failing items at chosen positions, both result modes; a deterministic scheduler owns every Queue.put/get/empty/join/task_done and a point inside each work item, so completion orders and queue interleavings are chosen, recorded and replayable. All n! completion orders (n<=5 quick, <=6 thorough) are forced; small configurations are enumerated by DFS up to a preemption bound (marked as exhaustive sub-spaces); the rest is random/PCT. Oracle: one result per input in input order, failures attached to their own index or re-raised with a correct prefix, termination (deadlock = no enabled thread).',
   note='trusted: the scheduler (vlib/sched.py) and the instrumented queue.Queue subclass; code between queue operations is atomic in this mode. Worker threads left blocked after the call returned are counted, not judged.'),
 'C03': dict(cat='exploration', sec='3/C03', technique='runtime monitoring: return values of the public grid API judged by an exact rational-arithmetic reference model over generated grids, points, rectangles and resolutions',
   text='Generated grids (5 SRS, 6 bbox classes, 6 tile sizes, factor-2/sqrt2/free/explicit/single/min_res ladders, both origins) are probed through TileGrid.tile, tile_bbox, flip_tile_coord, supports_access_with_origin, get_affected_level_tiles, closest_level and get_affected_bbox_and_level; an independent Fraction model decides containment, shared edges, flip involution and rectangle preservation, required/forbidden/None/row-major tile lists, reported bbox and the level rule. Inputs concentrate on tile edges, +-1 ulp, the 1/10 px inset and stretch thresholds. The input space is continuous, so exploration with edge-directed generation is the attainable level.',
   note='trusted: fractions.Fraction arithmetic and the 60-line model; tolerance tau=res/1000; the documented 0.1 px inset band and comparisons within 1e-12 of a stretch threshold are don\'t-care. threshold_res not generated.'),
 'C05': dict(cat='exploration', sec='3/C05', technique='runtime monitoring: operation histories on the real backends judged by a sequential dict model (history + executable model), bounded-exhaustive short histories + random long ones',
   text='Every history of store/bulk store/load/bulk load/is_cached/remove/reopen that the run generates is executed on the real backend objects (file x 6 layouts x link modes x dimensions, mbtiles, sqlite, geopackage +-levels, compact v1/v2) and every observable read is compared with a dict; exhaustive for histories of length <=2 (quick) / <=3 (thorough) over collision-prone 4-address alphabets, random beyond. Sampling level is right because the state space (addresses x histories) is unbounded; the collisions that matter are small and are enumerated.',
   note='trusted: the dict model, PIL png encoder for test values, local file system and sqlite3. Not covered: server-backed caches (redis, couchdb, s3, azure), concurrent histories (see C07/C08).'),
}

def main():
    checks = []
    na = []
    props = [json.loads(l) for l in open(os.path.join(HERE, 'properties.jsonl'))]
    for p in props:
        pid = p['id']
        modp = os.path.join(HERE, 'checks', pid.lower() + '.py')
        if pid in CHECKS and os.path.exists(modp):
            c = CHECKS[pid]
            checks.append({
                'property_id': pid,
                'quick_cmd': './check %s --tier quick' % pid,
                'thorough_cmd': './check %s --tier thorough' % pid,
                'evidence_file': 'evidence/%s.json' % pid,
                'replay_cmd_template': './check %s --replay {path}' % pid,
                'engine': 'vlib',
                'level_claimed': {'category': c['cat'], 'text': c['text'], 'design_ref': 'DESIGN.md section ' + c['sec']},
                'level_note': c['note'],
                'technique': c['technique'],
            })
        else:
            na.append({'property_id': pid, 'reason': 'runtime-monitoring check designed in DESIGN.md section 3/%s but not yet built in this tree; not claimed until its check exists and is quiet on the unchanged tree' % pid})
    try:
        hooks = subprocess.check_output(['git', '-C', '/repo', 'log', '--format=%H %s', '--grep=^verif-hook:'], text=True).split('\n')
        hooks = [h.split()[0] for h in hooks if h.strip()]
    except Exception:
        hooks = []
    m = {
        'version': 1,
        'setup_cmd': '/venv/bin/python -m vlib.env --selfcheck',
        'hooks': {
            'guard': 'MAPPROXY_VERIF',
            'enable': 'export MAPPROXY_VERIF=1 (set by ./check); all observation points are replaced from the harness side, no guarded code exists in /repo unless listed in source_commits',
            'baseline_off_cmd': 'cd /repo && env -u MAPPROXY_VERIF ' + BASE['cmd'].split('&& ', 1)[1].replace('--junitxml=<file>', '--junitxml=/var/tmp/verif-baseline.junit.xml'),
            'source_commits': hooks,
            'add_only': True,
        },
        'engines': [{'name': 'vlib', 'path': 'vlib/', 'serves_properties': [c['property_id'] for c in checks],
                     'kind_free_text': 'python runtime-monitoring library: synthetic upstreams, sequential models, cooperative scheduler, fork/failpoint crash injection, audit-hook side-effect monitor, exact grid oracle; entry ./check'}],
        'checks': checks,
        'not_applicable': na,
        'notes': 'Every check: exit 0 held, exit 1 + VIOLATION line, exit 2 + INCONCLUSIVE line (monitor floors not reached / watchdog). Known findings: known_findings.json (mechanism-keyed). Self-validation against seeded changes: seeded/ and mutants/.',
    }
    with open(os.path.join(HERE, 'MANIFEST.json'), 'w') as f:
        json.dump(m, f, indent=1)
    import jsonschema
    jsonschema.validate(m, json.load(open('/root/.vp/MANIFEST.schema.json')))
    print('MANIFEST.json: %d checks, %d not_applicable' % (len(checks), len(na)))

if __name__ == '__main__':
    main()
