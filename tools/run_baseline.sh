#!/bin/bash
# runs the repository's baseline suite with the guard OFF and compares with BASELINE.json
out=${1:-/var/tmp/verif-baseline}
cd /repo && env -u MAPPROXY_VERIF /venv/bin/python -m pytest -ra -q -p no:cacheprovider --timeout=900 --continue-on-collection-errors --junitxml=$out.xml > $out.log 2>&1
/verif/tools/baseline_cmp.py $out.xml
