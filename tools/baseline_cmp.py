#!/venv/bin/python
"""baseline_cmp.py <junit.xml> : compare a junit result with BASELINE.json's stable_pass list."""
import json, sys
sys.path.insert(0, '/w/lib')
b = json.load(open('/root/.vp/BASELINE.json'))
import xml.etree.ElementTree as ET
root = ET.parse(sys.argv[1]).getroot()
passed = set(); failed = set()
for tc in root.iter('testcase'):
    name = '%s::%s' % (tc.get('classname'), tc.get('name'))
    bad = any(c.tag in ('failure', 'error') for c in tc)
    skipped = any(c.tag == 'skipped' for c in tc)
    if bad: failed.add(name)
    elif not skipped: passed.add(name)
stable = set(b['stable_pass']) if isinstance(b['stable_pass'], list) else set()
missing = sorted(stable - passed)
print('passed=%d failed=%d stable=%d stable_not_passed=%d' % (len(passed), len(failed), len(stable), len(missing)))
for m in missing[:40]: print('  MISSING', m)
sys.exit(1 if missing else 0)
