"""Scheduling points + virtual clock for mapproxy.util.lock / mapproxy.util.ext.lockfile.

Only module attributes are replaced (lockfile.open, lockfile.fcntl, lockfile.os, lock.os, lock.time,
lock.random); the lock code itself is the repository's.  Every replaced call is a real file-system call at
which another process could run, so each is one scheduling point of vlib.sched."""
import builtins
import fcntl as _fcntl
import os as _os
import random as _random
import time as _time

from vlib import sched

STATE = {'vtime': 1000.0, 'on_flock_fail': None, 'on_flock_ok': None}


class VFile(object):
    def __init__(self, f, path):
        self._f = f
        self.name = path
        self._closed = False

    def fileno(self):
        return self._f.fileno()

    def write(self, data):
        return self._f.write(data)

    def truncate(self, *a):
        return self._f.truncate(*a)

    def flush(self):
        return self._f.flush()

    def seek(self, *a):
        return self._f.seek(*a)

    def close(self):
        if not self._closed:
            sched.point('close')
            self._closed = True
            self._f.close()

    def __del__(self):
        if not self._closed:
            try:
                sched.point('gc-close')
            except BaseException:   # noqa (SchedAbort while tearing down)
                pass
            self._closed = True
            try:
                self._f.close()
            except Exception:
                pass


def vopen(path, mode='r', *a, **kw):
    sched.point('open')
    return VFile(builtins.open(path, mode, *a, **kw), path)


class FcntlProxy(object):
    LOCK_EX = _fcntl.LOCK_EX
    LOCK_NB = _fcntl.LOCK_NB
    LOCK_SH = _fcntl.LOCK_SH
    LOCK_UN = _fcntl.LOCK_UN

    def flock(self, fd, flags):
        sched.point('flock')
        try:
            r = _fcntl.flock(fd, flags)
        except (IOError, OSError):
            cb = STATE['on_flock_fail']
            if cb:
                cb(fd)
            raise
        cb = STATE['on_flock_ok']
        if cb:
            cb(fd)
        return r

    def __getattr__(self, k):
        return getattr(_fcntl, k)


class OsProxy(object):
    def __init__(self, points):
        self._points = points
        self.path = _os.path

    def __getattr__(self, k):
        real = getattr(_os, k)
        if k in self._points:
            def f(*a, **kw):
                sched.point(k)
                return real(*a, **kw)
            return f
        return real


def _controlled():
    s = sched.CUR
    return s is not None and s.me() is not None


class TimeProxy(object):
    """virtual clock for threads run by the cooperative scheduler (a sleep is a scheduling point and advances the virtual
    time); the real clock for everybody else (real threads and forked processes of the stress modes: with the virtual
    clock a waiter would spin through its whole timeout in a fraction of a second)"""

    def time(self):
        return STATE['vtime'] if _controlled() else _time.time()

    def sleep(self, dt):
        if _controlled():
            STATE['vtime'] += dt
            sched.point('sleep')
        else:
            _time.sleep(dt)

    def __getattr__(self, k):
        return getattr(_time, k)


_installed = False


def install():
    global _installed
    if _installed:
        return
    from mapproxy.util.ext import lockfile
    from mapproxy.util import lock
    lockfile.open = vopen
    lockfile.fcntl = FcntlProxy()
    lockfile.os = OsProxy({'stat'})
    lock.os = OsProxy({'remove'})
    lock.time = TimeProxy()
    _installed = True


def seed_random(seed):
    from mapproxy.util import lock
    lock.random = _random.Random(seed)


class CoopLock(object):
    """threading.Lock replacement that is a scheduling point for controlled threads (a real lock held across a
    scheduling point would block the scheduler); plain lock for everybody else"""

    def __init__(self):
        import threading
        self._real = threading.Lock()
        self._held = False

    def acquire(self, blocking=True, timeout=-1):
        s = sched.CUR
        if s is not None and s.me() is not None:
            sched.point('tlock', enabled=lambda: not self._held)
            self._held = True
            return True
        r = self._real.acquire(blocking, timeout)
        if r:
            self._held = True
        return r

    def release(self):
        self._held = False
        if self._real.locked():
            self._real.release()

    def __enter__(self):
        self.acquire()
        return self

    def __exit__(self, *a):
        self.release()

    def locked(self):
        return self._held


class ThreadingProxy(object):
    Lock = CoopLock

    def __getattr__(self, k):
        import threading
        return getattr(threading, k)


def install_thread_locks():
    from mapproxy.cache import mbtiles, geopackage
    mbtiles.threading = ThreadingProxy()
    geopackage.threading = ThreadingProxy()
