"""Independent geo toolkit for the pixel oracles (C01, C17): pixel <-> ground for a WMS request incl. the 1.1.1 / 1.3.0
axis order, SRS <-> SRS through pyproj.Transformer(always_xy=True) -- never through mapproxy.srs --, and the RAMP
position encoding with its neighbourhood intervals.

Conventions
  bbox  = (minx, miny, maxx, maxy) in x/y (easting/longitude first) order, whatever the wire order was
  pixel = (col i, row j), row 0 at the TOP (maxy); the ground point of a pixel index is the pixel's CENTRE
          (i + 0.5, j + 0.5); float pixel coordinates have pixel k covering [k, k+1)
"""
import math
import threading

import numpy as np

from vlib.upstream import northing_first

_LOCK = threading.RLock()
_ALIAS = {'EPSG:900913': 'EPSG:3857', 'CRS:84': 'OGC:CRS84', 'EPSG:102113': 'EPSG:3857', 'EPSG:102100': 'EPSG:3857',
          'EPSG:3785': 'EPSG:3857'}
_TF = {}


def canon(code):
    """canonical name of a CRS code for pyproj (EPSG:900913 is the sphere-mercator of EPSG:3857, CRS:84 = lon/lat WGS84)"""
    c = code.strip().upper()
    if c.startswith('URN:OGC:DEF:CRS:EPSG::'):
        c = 'EPSG:' + c.rsplit(':', 1)[1]
    return _ALIAS.get(c, c)


def same_crs(a, b):
    a, b = canon(a), canon(b)
    if a == b:
        return True
    # lon/lat WGS84 in x/y order is the same frame for EPSG:4326 and CRS:84 once always_xy is applied
    return {a, b} == {'EPSG:4326', 'OGC:CRS84'}


def transformer(src, dst):
    key = (canon(src), canon(dst))
    with _LOCK:
        t = _TF.get(key)
        if t is None:
            import pyproj
            t = pyproj.Transformer.from_crs(pyproj.CRS.from_user_input(key[0]), pyproj.CRS.from_user_input(key[1]),
                                            always_xy=True)
            _TF[key] = t
    return t


def transform(src, dst, x, y):
    """x/y scalars or arrays in `src` (x/y order) -> (x, y) in `dst`; identity when the frames are the same"""
    if same_crs(src, dst):
        return x, y
    with _LOCK:
        return transformer(src, dst).transform(x, y, errcheck=False)


def is_geographic(code):
    return canon(code) in ('EPSG:4326', 'OGC:CRS84')


# ---- WMS request geometry -------------------------------------------------------------------------------------------

def wms_bbox_str(bbox, srs, version):
    """BBOX parameter value in the official axis order of the protocol version (1.3.0: the CRS's own order)"""
    b = bbox
    if version == '1.3.0' and northing_first(srs):
        b = (bbox[1], bbox[0], bbox[3], bbox[2])
    return ','.join(repr(float(v)) for v in b)


def wms_bbox_parse(text, srs, version):
    b = [float(v) for v in text.split(',')]
    if version == '1.3.0' and northing_first(srs):
        b = [b[1], b[0], b[3], b[2]]
    return tuple(b)


def pixel_centres(bbox, size):
    """1-d arrays: x of every column centre, y of every row centre (row 0 = top)"""
    w, h = size
    rx = (bbox[2] - bbox[0]) / float(w)
    ry = (bbox[3] - bbox[1]) / float(h)
    xs = bbox[0] + (np.arange(w, dtype=np.float64) + 0.5) * rx
    ys = bbox[3] - (np.arange(h, dtype=np.float64) + 0.5) * ry
    return xs, ys


def ground_grid(bbox, size, srs, dst_srs):
    """(X, Y) arrays h x w: ground position, in dst_srs, of every pixel centre of the request (bbox, size, srs)"""
    xs, ys = pixel_centres(bbox, size)
    X = np.broadcast_to(xs[None, :], (size[1], size[0]))
    Y = np.broadcast_to(ys[:, None], (size[1], size[0]))
    if same_crs(srs, dst_srs):
        return np.array(X), np.array(Y)
    gx, gy = transform(srs, dst_srs, np.ascontiguousarray(X).ravel(), np.ascontiguousarray(Y).ravel())
    return np.asarray(gx).reshape(size[1], size[0]), np.asarray(gy).reshape(size[1], size[0])


def pixel_to_ground(bbox, size, pos, centre=True):
    """ground point (in the request's SRS) of pixel index pos=(i, j); centre of the pixel by default"""
    o = 0.5 if centre else 0.0
    rx = (bbox[2] - bbox[0]) / float(size[0])
    ry = (bbox[3] - bbox[1]) / float(size[1])
    return bbox[0] + (pos[0] + o) * rx, bbox[3] - (pos[1] + o) * ry


def ground_to_pixel(bbox, size, pt):
    """float pixel coordinates (pixel k covers [k, k+1)) of a ground point given in the request's SRS"""
    rx = (bbox[2] - bbox[0]) / float(size[0])
    ry = (bbox[3] - bbox[1]) / float(size[1])
    return (pt[0] - bbox[0]) / rx, (bbox[3] - pt[1]) / ry


def local_scale(src, dst, x, y, step):
    """size in dst units of a step of `step` src units along x and along y at (x, y): (sx, sy)"""
    x0, y0 = transform(src, dst, x, y)
    x1, y1 = transform(src, dst, x + step, y)
    x2, y2 = transform(src, dst, x, y + step)
    return math.hypot(x1 - x0, y1 - y0) / step, math.hypot(x2 - x0, y2 - y0) / step


def densified_envelope(bbox, src, dst, n=16):
    """envelope in dst of the densified boundary of bbox given in src"""
    if same_crs(src, dst):
        return tuple(bbox)
    t = np.linspace(0.0, 1.0, n + 1)
    xs = np.concatenate([bbox[0] + t * (bbox[2] - bbox[0]), np.full(n + 1, bbox[2]),
                         bbox[0] + t * (bbox[2] - bbox[0]), np.full(n + 1, bbox[0])])
    ys = np.concatenate([np.full(n + 1, bbox[1]), bbox[1] + t * (bbox[3] - bbox[1]),
                         np.full(n + 1, bbox[3]), bbox[1] + t * (bbox[3] - bbox[1])])
    gx, gy = transform(src, dst, xs, ys)
    gx, gy = np.asarray(gx), np.asarray(gy)
    ok = np.isfinite(gx) & np.isfinite(gy)
    return float(gx[ok].min()), float(gy[ok].min()), float(gx[ok].max()), float(gy[ok].max())


# ---- RAMP ---------------------------------------------------------------------------------------------------------------
# colour = function of ground position only, in a canonical frame:
#   R = tri(X / s), G = tri(Y / s), B = tri((X + 0.37 Y) / (2.9 s)),   s = s0 * 2**k
# tri = triangle wave 0..255..0 with slope +-1 (period 510 levels): continuous, so resampling filters are harmless.
# (callers choose s0 = native resolution / GAIN to get GAIN levels per native pixel: integer truncation in resampling
# filters - Pillow truncates in bilinear/bicubic transforms, up to one level per stage - then costs 1/GAIN px each)

PERIOD = 510.0
B_SKEW = 0.37
B_SLOW = 2.9


def ramp_coeffs(s):
    """per channel (ax, ay): phase u = ax * X + ay * Y"""
    return ((1.0 / s, 0.0), (0.0, 1.0 / s), (1.0 / (B_SLOW * s), B_SKEW / (B_SLOW * s)))


def tri(u):
    v = np.mod(u, PERIOD)
    return 255.0 - np.abs(v - 255.0)


def tri_slope(u):
    """+1 on rising flanks, -1 on falling flanks"""
    v = np.mod(u, PERIOD)
    return np.where(v < 255.0, 1.0, -1.0)


def tri_range(u0, u1):
    """(lo, hi) of tri over the interval [u0, u1] (arrays, u0 <= u1), analytically"""
    a, b = tri(u0), tri(u1)
    lo = np.minimum(a, b)
    hi = np.maximum(a, b)
    has_zero = np.floor(u1 / PERIOD) > np.floor(u0 / PERIOD)
    has_peak = np.floor((u1 - 255.0) / PERIOD) > np.floor((u0 - 255.0) / PERIOD)
    lo = np.where(has_zero, 0.0, lo)
    hi = np.where(has_peak, 255.0, hi)
    return lo, hi


def fold_distance(u):
    """distance (in levels of u) to the nearest kink of the triangle wave"""
    v = np.mod(u, 255.0)
    return np.minimum(v, 255.0 - v)


def ramp_u(X, Y, s):
    """the three phase arrays (uR, uG, uB) at canonical ground positions X, Y for scale s"""
    return X / s, Y / s, (X + B_SKEW * Y) / (B_SLOW * s)


def ramp_rgb(X, Y, s):
    """uint8 array h x w x 3"""
    uR, uG, uB = ramp_u(X, Y, s)
    out = np.empty(X.shape + (3,), dtype=np.uint8)
    out[..., 0] = np.rint(tri(uR)).astype(np.uint8)
    out[..., 1] = np.rint(tri(uG)).astype(np.uint8)
    out[..., 2] = np.rint(tri(uB)).astype(np.uint8)
    return out


def octave(res, s0):
    return int(round(math.log(res / s0, 2)))


def jacobian(A):
    """(dA/di, dA/dj) per pixel by central differences (one-sided at the borders); i = column, j = row"""
    h, w = A.shape
    di = np.gradient(A, axis=1) if w > 1 else np.zeros_like(A)
    dj = np.gradient(A, axis=0) if h > 1 else np.zeros_like(A)
    return di, dj
