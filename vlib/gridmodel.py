"""Exact (rational) reference model of a regular tile grid.  No import from mapproxy, no float arithmetic:
all inputs are the *float values the grid was built from*, converted exactly with fractions.Fraction."""
from fractions import Fraction as F
import math


def fr(x):
    return x if isinstance(x, F) else F(x)


class GridModel(object):
    def __init__(self, bbox, resolutions, tile_size, origin='ll'):
        self.bbox = tuple(fr(v) for v in bbox)
        self.res = [fr(r) for r in resolutions]
        self.tw, self.th = int(tile_size[0]), int(tile_size[1])
        self.ul = origin in ('ul', 'nw')
        self.width = self.bbox[2] - self.bbox[0]
        self.height = self.bbox[3] - self.bbox[1]

    def span(self, z):
        return self.res[z] * self.tw, self.res[z] * self.th

    def grid_size(self, z):
        """documented rule: number of whole pixels of the extent, divided into tiles, at least one."""
        wpx = math.floor(self.width / self.res[z])
        hpx = math.floor(self.height / self.res[z])
        return max(-(-wpx // self.tw), 1), max(-(-hpx // self.th), 1)

    def tile_rect(self, x, y, z):
        sx, sy = self.span(z)
        x0 = self.bbox[0] + x * sx
        if self.ul:
            y1 = self.bbox[3] - y * sy
            y0 = y1 - sy
        else:
            y0 = self.bbox[1] + y * sy
        return x0, y0, x0 + sx, y0 + sy

    def tile_rect_other_origin(self, x, y, z, ny):
        """rectangle of address (x, y) when rows are counted from the *other* corner than self.origin,
        with ny rows in the level -- what a client using the opposite convention computes."""
        sx, sy = self.span(z)
        x0 = self.bbox[0] + x * sx
        if self.ul:   # other = ll: count from the bottom of the grid bbox
            y0 = self.bbox[1] + y * sy
        else:         # other = ul: count from the top of the grid bbox
            y0 = self.bbox[3] - (y + 1) * sy
        return x0, y0, x0 + sx, y0 + sy

    def tile_index(self, px, py, z):
        """exact tile index of a point (floor), both axes"""
        sx, sy = self.span(z)
        ix = math.floor((fr(px) - self.bbox[0]) / sx)
        if self.ul:
            iy = math.floor((self.bbox[3] - fr(py)) / sy)
        else:
            iy = math.floor((fr(py) - self.bbox[1]) / sy)
        return ix, iy

    def misalignment(self, z, ny):
        """|rows * span - height| : 0 iff the rows of the level exactly fill the grid bbox vertically"""
        return abs(ny * self.span(z)[1] - self.height)

    def closest_level(self, res, stretch):
        """Level rule of the property statement, exact.
        returns (level, dont_care) ; dont_care if a comparison against res*stretch is within 1e-12 relative."""
        res = fr(res)
        lim = res * fr(stretch)
        dc = any(abs(r - lim) <= r * F(1, 10**12) for r in self.res)
        A = [k for k, r in enumerate(self.res) if res <= r <= lim]
        if A:
            return max(A), dc
        Fi = [k for k, r in enumerate(self.res) if r < res]
        if Fi:
            return min(Fi), dc
        return len(self.res) - 1, dc


def overlap(a0, a1, b0, b1):
    return min(a1, b1) - max(a0, b0)
