"""Independent reader of ArcGIS compact cache bundles (v1: .bundle + .bundlx, v2: .bundle only).

Written from the on-disk layout only; nothing is imported from mapproxy.

v1   <base>.bundlx : 16-byte header, 128*128 index entries of 5 bytes (little-endian offset into <base>.bundle)
                     entry of slot (x, y) at 16 + (x*128 + y)*5, 16-byte footer
     <base>.bundle : 60-byte header ('<4I3Q5I'), then 128*128 4-byte zero lengths (the "empty record" of
                     every slot, slot i at 60 + 4*i), then appended records: 4-byte LE length + payload.
                     An index entry is EMPTY when it is 0 (null pointer; what the writer stores on removal)
                     or when the 4-byte length at the offset is 0.
v2   <base>.bundle : 64-byte header ('<4I3Q6I'), 128*128 index entries of 8 bytes at 64 + (x + 128*y)*8:
                     low 40 bits = offset of the PAYLOAD, high 24 bits = payload size; the 4 bytes before the
                     payload repeat the size.  An entry is EMPTY when its size is 0.

`parse_bundle(path, version)` returns a `BundleView`:
    .slots      {(x, y): (offset, size)} for every non-empty slot (offset = payload offset for both versions;
                the v1 record starts 4 bytes earlier at the length prefix)
    .problems   structural problems in the sense of the property ("each index entry is either empty or points
                at a complete record inside the file whose recorded size matches")
    .notes      header observations that the property does not speak about (file-size field, max-record field,
                row/column range) - informational only
    .get(x, y)  None (empty) or (offset, size, bytes)
    .tiles()    {(x, y): (offset, size, bytes)} for every non-empty, readable slot
Every slot that is not in .slots and not named in .problems is empty.
"""
import mmap
import os
import re
import struct

GRID = 128
NSLOTS = GRID * GRID

V1_INDEX_HEADER = 16
V1_INDEX_ENTRY = 5
V1_INDEX_FOOTER = 16
V1_INDEX_SIZE = V1_INDEX_HEADER + NSLOTS * V1_INDEX_ENTRY + V1_INDEX_FOOTER
V1_DATA_HEADER = 60
V1_EMPTY_TABLE_END = V1_DATA_HEADER + NSLOTS * 4
V1_HEADER_FMT = '<4I3Q5I'

V2_HEADER = 64
V2_INDEX_ENTRY = 8
V2_DATA_START = V2_HEADER + NSLOTS * V2_INDEX_ENTRY
V2_HEADER_FMT = '<4I3Q6I'
V2_OFFSET_BITS = 40
V2_OFFSET_MASK = (1 << V2_OFFSET_BITS) - 1

_NAME = re.compile(r'L([0-9]+)[/\\]R([0-9a-fA-F]+)C([0-9a-fA-F]+)\.bundle$')


def bundle_address(path):
    """(level, row0, col0) from '<dir>/Lzz/RrrrrCcccc.bundle' (hex row/column of the first tile), else None."""
    m = _NAME.search(path)
    if not m:
        return None
    return int(m.group(1)), int(m.group(2), 16), int(m.group(3), 16)


def slot_v1(x, y):
    return x * GRID + y


def slot_v2(x, y):
    return x + GRID * y


class BundleView(object):
    def __init__(self, path, version):
        self.path = path
        self.version = version
        self.slots = {}
        self.problems = []
        self.notes = []
        self.file_size = 0          # size of the .bundle file
        self.index_size = None      # size of the .bundlx file (v1)
        self.header = None
        self.orphan_index_all_empty = None   # v1, index without data file: every entry pristine or null?
        self.null_slots = 0         # v1: index entries equal to 0; v2: entries with offset 0 and size 0
        self._fh = None
        self._mm = None

    # ---- access to payloads --------------------------------------------------------------------
    def _map(self):
        if self._mm is None and self.file_size > 0:
            self._fh = open(self.path, 'rb')
            self._mm = mmap.mmap(self._fh.fileno(), 0, access=mmap.ACCESS_READ)
        return self._mm

    def view(self, x, y):
        """memoryview of the payload of a non-empty slot (no copy); None if empty/unreadable."""
        rec = self.slots.get((x, y))
        if rec is None:
            return None
        mm = self._map()
        off, size = rec
        if mm is None or off + size > len(mm):
            return None
        return memoryview(mm)[off:off + size]

    def get(self, x, y):
        v = self.view(x, y)
        if v is None:
            return None
        off, size = self.slots[(x, y)]
        try:
            return off, size, bytes(v)
        finally:
            v.release()

    def tiles(self):
        out = {}
        for (x, y) in self.slots:
            r = self.get(x, y)
            if r is not None:
                out[(x, y)] = r
        return out

    def close(self):
        if self._mm is not None:
            try:
                self._mm.close()
            except BufferError:
                pass
            self._mm = None
        if self._fh is not None:
            self._fh.close()
            self._fh = None

    def __enter__(self):
        return self

    def __exit__(self, *a):
        self.close()


def _check_overlaps(view, lead):
    """live records must not overlap each other partially (lead = bytes of length prefix before payload)."""
    spans = sorted((off - lead, off + size, xy) for xy, (off, size) in view.slots.items())
    prev_start, prev_end, prev_xy = -1, -1, None
    for start, end, xy in spans:
        if start < prev_end and not (start == prev_start and end == prev_end):
            view.problems.append({'kind': 'records_overlap', 'slot': list(xy), 'other': list(prev_xy),
                                  'span': [start, end], 'other_span': [prev_start, prev_end]})
        if end > prev_end:
            prev_start, prev_end, prev_xy = start, end, xy


_ZERO_TABLE = b'\x00' * (NSLOTS * 4)
_ROWS = {}


def _pristine_row(x):
    r = _ROWS.get(x)
    if r is None:
        r = b''.join((V1_DATA_HEADER + 4 * (x * GRID + y)).to_bytes(V1_INDEX_ENTRY, 'little') for y in range(GRID))
        _ROWS[x] = r
    return r


def parse_v1(bundle_path):
    view = BundleView(bundle_path, 1)
    index_path = bundle_path[:-len('.bundle')] + '.bundlx'
    have_data = os.path.isfile(bundle_path)
    have_index = os.path.isfile(index_path)
    if not have_data:
        view.problems.append({'kind': 'data_file_missing'})
    if not have_index:
        view.problems.append({'kind': 'index_file_missing'})
    if have_index and not have_data:
        # index without data file: are all entries still pristine (own empty record) or null?
        with open(index_path, 'rb') as f:
            idx = f.read()
        view.index_size = len(idx)
        ok = len(idx) >= V1_INDEX_HEADER + NSLOTS * V1_INDEX_ENTRY
        if ok:
            for x in range(GRID):
                base = V1_INDEX_HEADER + x * GRID * V1_INDEX_ENTRY
                row = idx[base:base + GRID * V1_INDEX_ENTRY]
                if row == _pristine_row(x):
                    continue
                pr = _pristine_row(x)
                for y in range(GRID):
                    e = row[y * V1_INDEX_ENTRY:(y + 1) * V1_INDEX_ENTRY]
                    if e != b'\x00' * V1_INDEX_ENTRY and e != pr[y * V1_INDEX_ENTRY:(y + 1) * V1_INDEX_ENTRY]:
                        ok = False
        view.orphan_index_all_empty = ok
    if not (have_data and have_index):
        return view
    with open(index_path, 'rb') as f:
        idx = f.read()
    view.index_size = len(idx)
    view.file_size = os.path.getsize(bundle_path)
    if len(idx) < V1_INDEX_HEADER + NSLOTS * V1_INDEX_ENTRY:
        view.problems.append({'kind': 'index_truncated', 'size': len(idx)})
        return view
    if len(idx) != V1_INDEX_SIZE:
        view.notes.append({'kind': 'index_size', 'size': len(idx), 'expected': V1_INDEX_SIZE})
    if view.file_size < V1_DATA_HEADER:
        view.problems.append({'kind': 'data_header_truncated', 'size': view.file_size})
        return view
    mm = view._map()
    fsize = len(mm)
    view.header = struct.unpack(V1_HEADER_FMT, mm[:V1_DATA_HEADER])
    max_live = 0
    # fast path: if the table of per-slot empty records is intact (all zero), an index row that still has
    # its pristine content (every entry pointing at its own empty record) holds only empty slots
    table_ok = fsize >= V1_EMPTY_TABLE_END and mm[V1_DATA_HEADER:V1_EMPTY_TABLE_END] == _ZERO_TABLE
    for x in range(GRID):
        base = V1_INDEX_HEADER + x * GRID * V1_INDEX_ENTRY
        if table_ok and idx[base:base + GRID * V1_INDEX_ENTRY] == _pristine_row(x):
            continue
        for y in range(GRID):
            p = base + y * V1_INDEX_ENTRY
            off = int.from_bytes(idx[p:p + V1_INDEX_ENTRY], 'little')
            if off == 0:
                view.null_slots += 1
                continue
            if off < V1_DATA_HEADER:
                view.problems.append({'kind': 'entry_points_into_header', 'slot': [x, y], 'offset': off})
                continue
            if off + 4 > fsize:
                view.problems.append({'kind': 'entry_outside_file', 'slot': [x, y], 'offset': off,
                                      'file_size': fsize})
                continue
            size = struct.unpack_from('<L', mm, off)[0]
            if size == 0:
                continue
            if off < V1_EMPTY_TABLE_END:
                view.problems.append({'kind': 'record_inside_empty_table', 'slot': [x, y], 'offset': off,
                                      'size': size})
                continue
            if off + 4 + size > fsize:
                view.problems.append({'kind': 'record_beyond_eof', 'slot': [x, y], 'offset': off, 'size': size,
                                      'file_size': fsize})
                continue
            view.slots[(x, y)] = (off + 4, size)
            if size > max_live:
                max_live = size
    _check_overlaps(view, 4)
    h = view.header
    if h[5] != fsize:
        view.notes.append({'kind': 'header_file_size', 'header': h[5], 'file_size': fsize})
    if h[2] < max_live:
        view.notes.append({'kind': 'header_max_record', 'header': h[2], 'max_live': max_live})
    if h[4] != 4 * len(view.slots):
        view.notes.append({'kind': 'header_tile_count', 'header': h[4], 'live_x4': 4 * len(view.slots)})
    addr = bundle_address(bundle_path)
    if addr is not None:
        _, r0, c0 = addr
        if (h[8], h[9], h[10], h[11]) != (r0, r0 + 127, c0, c0 + 127):
            view.notes.append({'kind': 'header_range', 'header': list(h[8:12]),
                               'expected': [r0, r0 + 127, c0, c0 + 127]})
    return view


def parse_v2(bundle_path):
    view = BundleView(bundle_path, 2)
    if not os.path.isfile(bundle_path):
        view.problems.append({'kind': 'data_file_missing'})
        return view
    view.file_size = os.path.getsize(bundle_path)
    if view.file_size < V2_DATA_START:
        view.problems.append({'kind': 'index_truncated', 'size': view.file_size})
        return view
    mm = view._map()
    fsize = len(mm)
    view.header = struct.unpack(V2_HEADER_FMT, mm[:V2_HEADER])
    entries = struct.unpack('<%dQ' % NSLOTS, mm[V2_HEADER:V2_DATA_START])
    max_live = 0
    view.null_slots = entries.count(0)
    # an entry is empty iff its size field (high 24 bits) is 0, i.e. iff the value is below 2**40
    for i in [j for j, v in enumerate(entries) if v > V2_OFFSET_MASK]:
        val = entries[i]
        size = val >> V2_OFFSET_BITS
        off = val & V2_OFFSET_MASK
        x, y = i % GRID, i // GRID
        if off - 4 < V2_DATA_START:
            view.problems.append({'kind': 'entry_points_into_header_or_index', 'slot': [x, y], 'offset': off,
                                  'size': size})
            continue
        if off > fsize:
            view.problems.append({'kind': 'entry_outside_file', 'slot': [x, y], 'offset': off, 'size': size,
                                  'file_size': fsize})
            continue
        if off + size > fsize:
            view.problems.append({'kind': 'record_beyond_eof', 'slot': [x, y], 'offset': off, 'size': size,
                                  'file_size': fsize})
            continue
        prefix = struct.unpack_from('<L', mm, off - 4)[0]
        if prefix != size:
            view.problems.append({'kind': 'length_prefix_mismatch', 'slot': [x, y], 'offset': off,
                                  'index_size': size, 'prefix': prefix})
            continue
        view.slots[(x, y)] = (off, size)
        if size > max_live:
            max_live = size
    _check_overlaps(view, 4)
    h = view.header
    if h[5] != fsize:
        view.notes.append({'kind': 'header_file_size', 'header': h[5], 'file_size': fsize})
    if h[2] < max_live:
        view.notes.append({'kind': 'header_max_record', 'header': h[2], 'max_live': max_live})
    return view


def parse_bundle(bundle_path, version):
    if version == 1:
        return parse_v1(bundle_path)
    if version == 2:
        return parse_v2(bundle_path)
    raise ValueError(version)


def find_bundles(cache_dir):
    """all *.bundle files below the level directories of a compact cache, sorted."""
    out = []
    try:
        levels = sorted(os.listdir(cache_dir))
    except OSError:
        return out
    for lv in levels:
        d = os.path.join(cache_dir, lv)
        if not os.path.isdir(d):
            continue
        for fn in sorted(os.listdir(d)):
            if fn.endswith('.bundle'):
                out.append(os.path.join(d, fn))
    return out
