"""Cooperative scheduler: controlled threads park at scheduling points, exactly one runs at a time, a chooser
decides who runs next among those whose enabled-predicate is true.  Blocking operations are modelled by
predicates, so 'some thread alive and none enabled' is a detected deadlock."""
import threading

CUR = None     # the active scheduler (one per process at a time)


class SchedAbort(BaseException):
    pass


class Deadlock(Exception):
    pass


class StepLimit(Exception):
    pass


class Watchdog(Exception):
    pass


class T(object):
    __slots__ = ('name', 'fn', 'state', 'label', 'enabled', 'go', 'exc', 'thread', 'result', 'steps')

    def __init__(self, name, fn):
        self.name = name
        self.fn = fn
        self.state = 'new'
        self.label = None
        self.enabled = None
        self.go = False
        self.exc = None
        self.thread = None
        self.result = None
        self.steps = 0


class Sched(object):
    def __init__(self, chooser, max_steps=4000, watchdog_s=20.0):
        self.cv = threading.Condition()
        self.threads = {}
        self.by_ident = {}
        self.trace = []
        self.chooser = chooser
        self.max_steps = max_steps
        self.watchdog_s = watchdog_s
        self.abort = False
        self.vtime = 0.0
        self.current = None
        self.started = False
        self.nadopt = 0
        self.step_hook = None   # called by the scheduler before each choice (all threads parked)

    # ---- thread management --------------------------------------------------------------------------------
    def spawn(self, name, fn):
        t = T(name, fn)
        t.thread = threading.Thread(target=self._boot, args=(t,), name='sched-' + name)
        t.thread.daemon = True
        with self.cv:
            self.threads[name] = t
        if self.started:
            t.thread.start()
        return t

    def adopt(self, thread_obj, prefix='w'):
        """take control of a threading.Thread created by the code under test (call instead of its start())"""
        self.nadopt += 1
        name = '%s%d' % (prefix, self.nadopt)
        orig_run = thread_obj.run
        t = T(name, orig_run)
        t.thread = thread_obj

        def run():
            self._boot(t)
        thread_obj.run = run
        with self.cv:
            self.threads[name] = t
        threading.Thread.start(thread_obj)
        return t

    def _boot(self, t):
        self.by_ident[threading.get_ident()] = t
        try:
            self.point('start')
            t.result = t.fn()
        except SchedAbort:
            pass
        except BaseException as ex:   # noqa
            t.exc = ex
        finally:
            with self.cv:
                t.state = 'done'
                self.by_ident.pop(threading.get_ident(), None)
                self.cv.notify_all()

    def me(self):
        return self.by_ident.get(threading.get_ident())

    # ---- scheduling points ---------------------------------------------------------------------------------
    def point(self, label, enabled=None):
        t = self.by_ident.get(threading.get_ident())
        if t is None:
            return
        if self.abort:
            raise SchedAbort()
        with self.cv:
            t.state = 'parked'
            t.label = label
            t.enabled = enabled
            t.go = False
            self.cv.notify_all()
            while not t.go:
                self.cv.wait()
            t.state = 'running'
            t.enabled = None
        if self.abort:
            raise SchedAbort()

    # ---- main loop ---------------------------------------------------------------------------------------------
    def run(self):
        global CUR
        CUR = self
        self.started = True
        for t in list(self.threads.values()):
            if t.state == 'new' and not t.thread.is_alive():
                t.thread.start()
        err = None
        try:
            with self.cv:
                while True:
                    while any(t.state in ('running', 'new') for t in self.threads.values()):
                        if not self.cv.wait(timeout=self.watchdog_s):
                            raise Watchdog('thread did not reach a scheduling point in %.0fs; trace tail %r' % (
                                self.watchdog_s, self.trace[-6:]))
                    alive = [t for t in self.threads.values() if t.state == 'parked']
                    if not alive:
                        break
                    if self.step_hook is not None:
                        self.step_hook(self)
                    en = [t for t in alive if t.enabled is None or t.enabled()]
                    if not en:
                        raise Deadlock('no thread enabled; parked at %r' % [(t.name, t.label) for t in alive])
                    if len(self.trace) >= self.max_steps:
                        raise StepLimit('more than %d steps' % self.max_steps)
                    en.sort(key=lambda t: t.name)
                    t = self.chooser.choose(self, en)
                    self.trace.append((t.name, t.label))
                    t.steps += 1
                    self.current = t
                    t.go = True
                    t.state = 'running'
                    self.cv.notify_all()
        except (Deadlock, StepLimit, Watchdog) as ex:
            err = ex
        finally:
            self._teardown()
            CUR = None
        if err is not None:
            raise err

    def _teardown(self):
        self.abort = True
        with self.cv:
            for t in self.threads.values():
                t.go = True
            self.cv.notify_all()
        for t in list(self.threads.values()):
            if t.thread.is_alive():
                t.thread.join(timeout=5.0)


def point(label, enabled=None):
    s = CUR
    if s is not None:
        s.point(label, enabled)


# ---- choosers ------------------------------------------------------------------------------------------------

class RandomChooser(object):
    def __init__(self, rng, stickiness=0.0):
        self.rng = rng
        self.stick = stickiness

    def choose(self, s, en):
        if self.stick and s.current in en and self.rng.random() < self.stick:
            return s.current
        return self.rng.choice(en)


class PCTChooser(object):
    """priority based: highest priority enabled thread runs; d-1 random change points lower the running thread"""

    def __init__(self, rng, depth=2, est_steps=60, yield_labels=('sleep',)):
        self.rng = rng
        self.yield_labels = yield_labels
        self.prio = {}
        self.change = set(rng.randrange(1, max(2, est_steps)) for _ in range(max(0, depth - 1)))
        self.low = 0

    def choose(self, s, en):
        for t in en:
            if t.name not in self.prio:
                self.prio[t.name] = self.rng.random() + 1.0
        step = len(s.trace)
        best = max(en, key=lambda t: self.prio[t.name])
        if best.label in self.yield_labels and len(en) > 1:
            # a polling loop: treat its sleep as a yield, otherwise a high-priority spinner starves the holder
            self.low -= 1
            self.prio[best.name] = self.low
            best = max(en, key=lambda t: self.prio[t.name])
        if step in self.change:
            self.low -= 1
            self.prio[best.name] = self.low
            best = max(en, key=lambda t: self.prio[t.name])
        return best


class ReplayChooser(object):
    def __init__(self, names, fallback=None):
        self.names = list(names)
        self.i = 0
        self.fallback = fallback
        self.diverged = False

    def choose(self, s, en):
        if self.i < len(self.names):
            want = self.names[self.i]
            self.i += 1
            for t in en:
                if t.name == want:
                    return t
            self.diverged = True
        if self.fallback is not None:
            return self.fallback.choose(s, en)
        return en[0]


class PrefixChooser(object):
    """follows a prefix of choice *indices*; afterwards runs non-preemptively (keep the current thread if it is
    enabled, else the first). Records for every step the number of alternatives and the index taken."""

    def __init__(self, prefix, yield_labels=('sleep',)):
        self.prefix = list(prefix)
        self.yield_labels = yield_labels
        self.log = []   # (n_enabled, chosen_index, current_index_or_None)

    def choose(self, s, en):
        k = len(self.log)
        cur = None
        default = 0
        if s.current is not None:
            for i, t in enumerate(en):
                if t is s.current:
                    if t.label in self.yield_labels:
                        # a polling loop's sleep is a voluntary yield: the next thread (round robin) runs at
                        # no cost; any other choice (also: keep spinning) counts as one preemption
                        default = (i + 1) % len(en)
                    else:
                        default = i
                    cur = default
        if k < len(self.prefix):
            idx = self.prefix[k]
            if idx >= len(en):
                idx = 0
        else:
            idx = default
        self.log.append((len(en), idx, cur))
        return en[idx]


def dfs(run_once, preemption_bound=None, max_runs=None):
    """stateless DFS by re-execution. run_once(chooser) executes one schedule (must be deterministic given the
    choices). Yields the chooser log after each run. Enumerates all schedules (with at most `preemption_bound`
    preemptions if given)."""
    stack = [[]]
    seen = 0
    while stack:
        prefix = stack.pop()
        ch = PrefixChooser(prefix)
        run_once(ch)
        seen += 1
        log = ch.log
        # count preemptions along the executed schedule up to each position
        pre = 0
        pres = []
        for (n, idx, cur) in log:
            pres.append(pre)
            if cur is not None and idx != cur:
                pre += 1
        # branch on every position at/after the prefix
        for pos in range(len(log) - 1, len(prefix) - 1, -1):
            n, idx, cur = log[pos]
            for alt in range(n):
                if alt == idx:
                    continue
                cost = pres[pos] + (1 if (cur is not None and alt != cur) else 0)
                if preemption_bound is not None and cost > preemption_bound:
                    continue
                stack.append([l[1] for l in log[:pos]] + [alt])
        yield ch
        if max_runs is not None and seen >= max_runs:
            return
