"""Capabilities parsers and the rectangle-of-address rules a standards-following client applies.
Written from the specifications (TMS 1.0.0, WMTS 1.0.0, WMS-C / WMS Tiling Client Recommendation, KML 2.2),
independent of mapproxy."""
import re
from fractions import Fraction as F

from lxml import etree

M_PER_DEG = 111319.49079327358   # WMTS: 6378137 * 2 * pi / 360


def _f(s):
    return float(s)


def strip_ns(root):
    for el in root.iter():
        if isinstance(el.tag, str) and '}' in el.tag:
            el.tag = el.tag.split('}', 1)[1]
    return root


def parse_xml(data):
    parser = etree.XMLParser(resolve_entities=False, no_network=True, load_dtd=False)
    return strip_ns(etree.fromstring(data, parser))


# ---- TMS -----------------------------------------------------------------------------------------------------------

def tms_root(data):
    root = parse_xml(data)
    return [dict(title=tm.get('title'), srs=tm.get('srs'), profile=tm.get('profile'), href=tm.get('href'))
            for tm in root.iter('TileMap')]


def tms_tilemap(data):
    root = parse_xml(data)
    bb = root.find('BoundingBox')
    org = root.find('Origin')
    tf = root.find('TileFormat')
    ts = root.find('TileSets')
    return {
        'srs': root.findtext('SRS'),
        'bbox': tuple(_f(bb.get(k)) for k in ('minx', 'miny', 'maxx', 'maxy')),
        'origin': (_f(org.get('x')), _f(org.get('y'))),
        'tile_size': (int(tf.get('width')), int(tf.get('height'))),
        'ext': tf.get('extension'), 'mime': tf.get('mime-type'),
        'profile': ts.get('profile'),
        'tilesets': [dict(href=t.get('href'), upp=_f(t.get('units-per-pixel')), order=int(t.get('order')))
                     for t in ts.iter('TileSet')],
    }


def tms_rect(tm, tileset, x, y):
    """TMS 1.0.0: tile (x, y) of a TileSet covers origin + [x, x+1] * width * units-per-pixel, y counted upwards"""
    w, h = tm['tile_size']
    upp = tileset['upp']
    x0 = tm['origin'][0] + x * w * upp
    y0 = tm['origin'][1] + y * h * upp
    return (x0, y0, x0 + w * upp, y0 + h * upp)


def tms_extent_tiles(tm, tileset):
    """number of columns/rows a client derives from the advertised BoundingBox"""
    import math
    w, h = tm['tile_size']
    upp = tileset['upp']
    nx = max(1, math.ceil((tm['bbox'][2] - tm['origin'][0]) / (w * upp) - 1e-9))
    ny = max(1, math.ceil((tm['bbox'][3] - tm['origin'][1]) / (h * upp) - 1e-9))
    return nx, ny


# ---- WMTS ----------------------------------------------------------------------------------------------------------

def wmts_caps(data):
    root = parse_xml(data)
    contents = root.find('Contents')
    layers = []
    for l in contents.findall('Layer'):
        layers.append({
            'id': l.findtext('Identifier'),
            'formats': [f.text for f in l.findall('Format')],
            'styles': [s.findtext('Identifier') for s in l.findall('Style')],
            'sets': [t.findtext('TileMatrixSet') for t in l.findall('TileMatrixSetLink')],
            'templates': [r.get('template') for r in l.findall('ResourceURL') if r.get('resourceType') == 'tile'],
            'dimensions': [d.findtext('Identifier') for d in l.findall('Dimension')],
        })
    sets = {}
    for s in contents.findall('TileMatrixSet'):
        ms = []
        for m in s.findall('TileMatrix'):
            tl = m.findtext('TopLeftCorner').split()
            ms.append({'id': m.findtext('Identifier'), 'scale': _f(m.findtext('ScaleDenominator')),
                       'topleft': (_f(tl[0]), _f(tl[1])), 'tw': int(m.findtext('TileWidth')), 'th': int(m.findtext('TileHeight')),
                       'mw': int(m.findtext('MatrixWidth')), 'mh': int(m.findtext('MatrixHeight'))})
        sets[s.findtext('Identifier')] = {'crs': s.findtext('SupportedCRS'), 'matrices': ms}
    return {'layers': layers, 'sets': sets}


def crs_code(crs):
    """'urn:ogc:def:crs:EPSG::4326' / 'EPSG:4326' -> 'EPSG:4326'"""
    m = re.match(r'urn:ogc:def:crs:([A-Za-z]+):[^:]*:(\w+)$', crs)
    if m:
        return '%s:%s' % (m.group(1).upper(), m.group(2))
    return crs.upper()


def wmts_rect(crs, m, col, row, northing_first, is_degrees):
    """WMTS 1.0.0 (OGC 07-057r7 6.1): pixel span = ScaleDenominator * 0.28 mm / metres-per-unit; tiles counted from
    the TopLeftCorner, rows downwards. TopLeftCorner is in the CRS's own axis order. Returns (minx,miny,maxx,maxy) in x/y order"""
    span = m['scale'] * 0.00028 / (M_PER_DEG if is_degrees else 1.0)
    a, b = m['topleft']
    tlx, tly = (b, a) if northing_first else (a, b)
    x0 = tlx + col * m['tw'] * span
    y1 = tly - row * m['th'] * span
    return (x0, y1 - m['th'] * span, x0 + m['tw'] * span, y1)


# ---- WMS-C ---------------------------------------------------------------------------------------------------------

def wmsc_tilesets(data):
    parser = etree.XMLParser(resolve_entities=False, no_network=True, load_dtd=False)
    root = strip_ns(etree.fromstring(data, parser))
    out = []
    for ts in root.iter('TileSet'):
        bb = ts.find('BoundingBox')
        out.append({'srs': ts.findtext('SRS'),
                    'bbox': tuple(_f(bb.get(k)) for k in ('minx', 'miny', 'maxx', 'maxy')),
                    'res': [_f(v) for v in ts.findtext('Resolutions').split()],
                    'w': int(ts.findtext('Width')), 'h': int(ts.findtext('Height')),
                    'format': ts.findtext('Format'), 'layers': ts.findtext('Layers')})
    return out


def wmsc_rect(ts, res, col, row):
    """WMS Tiling Client Recommendation: tiles are anchored at the lower-left corner of the TileSet's BoundingBox"""
    x0 = ts['bbox'][0] + col * ts['w'] * res
    y0 = ts['bbox'][1] + row * ts['h'] * res
    return (x0, y0, x0 + ts['w'] * res, y0 + ts['h'] * res)


# ---- KML -----------------------------------------------------------------------------------------------------------

def kml_doc(data):
    root = parse_xml(data)
    overlays = []
    for go in root.iter('GroundOverlay'):
        box = go.find('LatLonBox')
        overlays.append({'href': go.find('Icon').findtext('href'),
                         'box': dict((k, _f(box.findtext(k))) for k in ('north', 'south', 'east', 'west'))})
    links = []
    for nl in root.iter('NetworkLink'):
        box = nl.find('Region').find('LatLonAltBox')
        links.append({'href': nl.find('Link').findtext('href'),
                      'box': dict((k, _f(box.findtext(k))) for k in ('north', 'south', 'east', 'west'))})
    return {'overlays': overlays, 'links': links}
