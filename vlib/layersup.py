"""LAYERS upstream: a WMS whose every layer name is a deterministic RGBA / RGB / paletted picture.

The picture is a function of GROUND POSITION only (evaluated at the pixel centres of the requested bbox/size), so a
sub-request for a pixel-aligned part of a rectangle returns exactly the corresponding part of the picture and the
oracle can recompute any individual layer image for any bbox/size by calling `picture()` itself.

Layer names carry their whole specification (the stub is stateless):
    rgba<seed>           stripes + discs, alpha values 0, 64, 128, 200, 255      served as RGBA png
    rgb<seed>            same shapes, every entry opaque                          served as RGB png
    pal<seed>            <= 8 palette entries, alpha 0 / 128 / 255                served as P png with tRNS
    key<seed>t<tol>      opaque picture whose background is a colour key: entry 0 = key, entry 1 = key +- tol (inside the
                         tolerance), entry 2 = key + (tol + 1) in one channel (just outside)   served as RGB png
    blank                fully transparent
For `LAYERS=a,b` the stub composes b over a (first = bottom) with the reference compositor; `TRANSPARENT=FALSE` (the WMS
default) flattens on BGCOLOR (default white) and answers without alpha channel.
All feature edges (stripe borders) lie on multiples of UNIT ground units; disc borders are evaluated at pixel centres.
"""
import io
import random
import re

import numpy as np

from vlib import compose
from vlib.upstream import Resp, parse_getmap

UNIT = 16.0
_NAME = re.compile(r'^(rgba|rgb|pal|key|trns)(\d+)(?:t(\d+))?$')
ALPHAS = {'rgba': [0, 64, 128, 200, 255, 255, 128, 255], 'rgb': [255] * 8, 'pal': [0, 255, 128, 255, 255, 0, 255, 128],
          'key': [255] * 8, 'trns': [0, 255, 255, 0, 255, 255, 255, 255]}
_SPEC = {}


def key_color(name):
    return spec(name)['key']


def spec(name):
    s = _SPEC.get(name)
    if s is not None:
        return s
    if name == 'blank':
        s = {'kind': 'blank'}
        _SPEC[name] = s
        return s
    m = _NAME.match(name)
    if not m:
        raise KeyError(name)
    kind, seed, tol = m.group(1), int(m.group(2)), int(m.group(3) or 0)
    rng = random.Random('layers:%s:%d' % (kind, seed))
    pal = []
    for i in range(8):
        # strong, mutually distinct colours; channel values away from 0/255 so that order / opacity errors move them
        pal.append([rng.choice([20, 60, 110, 160, 210, 245]) for _ in range(3)])
    alphas = list(ALPHAS[kind])
    rng.shuffle(alphas)
    key = None
    if kind == 'key':
        key = [rng.choice([40, 128, 200, 255 - tol - 2]) for _ in range(3)]
        key = [min(max(k, tol + 2), 253 - tol) for k in key]
        pal[0] = list(key)
        sg = [rng.choice([-1, 1]) for _ in range(3)]
        pal[1] = [key[c] + sg[c] * tol for c in range(3)]                 # on the tolerance boundary: transparent
        ch = rng.randrange(3)
        pal[2] = list(key)
        pal[2][ch] = key[ch] + rng.choice([-1, 1]) * (tol + 1)            # one level outside: stays visible
        for i in range(3, 8):
            while all(abs(pal[i][c] - key[c]) <= tol + 8 for c in range(3)):
                pal[i] = [rng.choice([20, 60, 110, 160, 210, 245]) for _ in range(3)]
    if kind == 'trns':
        # an RGB picture with ONE colour declared transparent in the file itself (PNG tRNS chunk): every transparent cell has
        # that colour, no visible cell has it
        tk = [rng.choice([3, 9, 251]) for _ in range(3)]
        for i in range(8):
            if alphas[i] == 0:
                pal[i] = list(tk)
            elif pal[i] == tk:
                pal[i] = [110, 60, 210]
    s = {'kind': kind, 'seed': seed, 'tol': tol, 'key': key,
         'pal': np.array([p + [a] for p, a in zip(pal, alphas)], dtype=np.uint8),
         'dir': rng.choice(['x', 'y', 'd']), 'sw': UNIT * rng.choice([2, 3, 4, 6]),
         'cell': UNIT * rng.choice([6, 8, 12]), 'rad': UNIT * rng.choice([1.5, 2.25, 3.1]),
         'salt': rng.randrange(1 << 30), 'bgidx': 0}
    _SPEC[name] = s
    return s


def _h(a, b, salt):
    v = (a.astype(np.int64) * 73856093) ^ (b.astype(np.int64) * 19349663) ^ salt
    v = (v ^ (v >> 13)) * 1274126177
    v = v & 0x7FFFFFFF
    return v ^ (v >> 16)


def layer_u8(name, bbox, size):
    """intrinsic RGBA uint8 picture (h, w, 4) of one upstream layer"""
    w, h = size
    s = spec(name)
    if s['kind'] == 'blank':
        return np.zeros((h, w, 4), dtype=np.uint8)
    xc, yc = compose.pixel_centres(bbox, size)
    X = np.broadcast_to(xc[None, :], (h, w))
    Y = np.broadcast_to(yc[:, None], (h, w))
    if s['dir'] == 'x':
        t = X
    elif s['dir'] == 'y':
        t = Y
    else:
        t = X + Y
    si = np.floor(t / s['sw']).astype(np.int64)
    idx = _h(si, np.zeros_like(si), s['salt']) % 8
    if s['kind'] == 'key':
        # wide background stripes of the key colour and its near neighbours
        idx = np.where(idx >= 5, idx % 3, idx)
    cx = np.floor(X / s['cell']).astype(np.int64)
    cy = np.floor(Y / s['cell']).astype(np.int64)
    ccx = (cx + 0.5) * s['cell']
    ccy = (cy + 0.5) * s['cell']
    disc = ((X - ccx) ** 2 + (Y - ccy) ** 2) < s['rad'] ** 2
    didx = _h(cx, cy, s['salt'] ^ 0x5bd1e995) % 8
    has = (_h(cy, cx, s['salt'] ^ 0x1234567) % 3) != 0
    idx = np.where(disc & has, didx, idx)
    return s['pal'][idx]


def picture(names, bbox, size, transparent, bgcolor=(255, 255, 255)):
    """what the upstream delivers for LAYERS=names: uint8 RGBA (alpha 255 everywhere when not transparent)"""
    if len(names) == 1:
        u8 = layer_u8(names[0], bbox, size)
        if transparent:
            return u8
        f = compose.from_u8(u8)
    else:
        f = compose.compose([compose.from_u8(layer_u8(n, bbox, size)) for n in names], size, None)
    if not transparent:
        f = compose.flatten(f, bgcolor)
    return compose.to_u8(f)


def parse_bgcolor(v):
    if not v:
        return (255, 255, 255)
    v = v.strip()
    if v.lower().startswith('0x'):
        v = v[2:]
    if v.startswith('#'):
        v = v[1:]
    return (int(v[0:2], 16), int(v[2:4], 16), int(v[4:6], 16))


def encode_native(names, u8, transparent, fmt):
    from PIL import Image
    b = io.BytesIO()
    fmt = (fmt or 'image/png').lower()
    if 'jpeg' in fmt or 'jpg' in fmt:
        Image.fromarray(u8[..., :3], 'RGB').save(b, 'JPEG', quality=95)
        return b.getvalue(), 'image/jpeg', 'jpeg'
    if 'tiff' in fmt:
        Image.fromarray(u8 if transparent else u8[..., :3]).save(b, 'TIFF')
        return b.getvalue(), 'image/tiff', 'tiff'
    kind = spec(names[0])['kind'] if len(names) == 1 else 'mix'
    if kind == 'pal' and transparent:
        s = spec(names[0])
        # recover the index image from the colours (palette entries are unique incl. alpha? not necessarily -> map)
        pal = s['pal']
        idx = np.zeros(u8.shape[:2], dtype=np.uint8)
        for i in range(7, -1, -1):
            idx[(u8 == pal[i]).all(axis=2)] = i
        img = Image.fromarray(idx, 'P')
        img.putpalette(pal[:, :3].tobytes())
        img.save(b, 'PNG', transparency=bytes(pal[:, 3].tolist()))
        return b.getvalue(), 'image/png', 'P'
    if kind == 'trns' and transparent:
        s = spec(names[0])
        tk = tuple(int(v) for v in s['pal'][[i for i in range(8) if s['pal'][i][3] == 0][0]][:3])
        rgb = np.ascontiguousarray(u8[..., :3]).copy()
        rgb[u8[..., 3] == 0] = tk
        Image.fromarray(rgb, 'RGB').save(b, 'PNG', transparency=tk)
        return b.getvalue(), 'image/png', 'RGB+tRNS'
    if not transparent or kind in ('rgb', 'key'):
        Image.fromarray(np.ascontiguousarray(u8[..., :3]), 'RGB').save(b, 'PNG', compress_level=1)
        return b.getvalue(), 'image/png', 'RGB'
    Image.fromarray(u8, 'RGBA').save(b, 'PNG', compress_level=1)
    return b.getvalue(), 'image/png', 'RGBA'


class LayersWMS(object):
    """handler for vlib.upstream: answers GetMap in `srs` only"""

    def __init__(self, srs='EPSG:3857'):
        self.srs = srs.upper()

    def __call__(self, call):
        def exc(msg):
            return Resp(('<ServiceExceptionReport><ServiceException>%s</ServiceException></ServiceExceptionReport>' % msg).encode(),
                        'application/vnd.ogc.se_xml', 200)
        if call.kind != 'getmap':
            return exc('unsupported')
        try:
            q = parse_getmap(call)
            names = [n for n in q['layers'] if n]
            for n in names:
                spec(n)
        except Exception as ex:
            return exc('bad request %s' % ex)
        call.extra['q'] = q
        call.extra['names'] = names
        if (q['srs'] or '').upper() != self.srs:
            return exc('InvalidSRS')
        if q['size'][0] <= 0 or q['size'][1] <= 0 or q['bbox'][2] <= q['bbox'][0] or q['bbox'][3] <= q['bbox'][1] or not names:
            return exc('invalid')
        u8 = picture(names, q['bbox'], q['size'], q['transparent'], parse_bgcolor(q['bgcolor']))
        body, ct, mode = encode_native(names, u8, q['transparent'], q['format'])
        call.extra['mode'] = mode
        return Resp(body, ct)
