"""Shared run/evidence/verdict machinery for all checks.

A check module provides
    PID, LEVEL, RULE, ASSUMPTIONS, FLOORS
    gen_cases(run)  -> iterable of JSON-able case dicts (deterministic in run.seed / run.tier)
    run_case(run, case) -> None; calls run.judge / run.hit / run.dc / run.violation
and ends with  `if __name__ == '__main__': core.main(sys.modules[__name__])`.

core.main fans the cases out over subprocess shards (never multiprocessing.Pool), merges what the
shards observed, classifies violations against /verif/known_findings.json, writes the evidence file
and prints the verdict:  exit 0 held / exit 1 VIOLATION / exit 2 INCONCLUSIVE.
"""
import argparse
import hashlib
import json
import os
import random
import shutil
import subprocess
import sys
import tempfile
import time
import traceback
from collections import Counter

VERIF = os.path.dirname(os.path.dirname(os.path.abspath(__file__)))
REPO = os.environ.get('VERIF_REPO', '/repo')


def use_repo():
    """Put the tree under test first on sys.path and make sure it is the one imported."""
    repo = os.path.realpath(REPO)
    if repo in sys.path:
        sys.path.remove(repo)
    sys.path.insert(0, repo)
    import mapproxy
    got = os.path.realpath(os.path.dirname(os.path.dirname(mapproxy.__file__)))
    if got != repo:
        raise SystemExit("INCONCLUSIVE reason=mapproxy imported from %s not %s" % (got, repo))
    import logging
    logging.disable(logging.CRITICAL)
    return repo


def scratch_base():
    b = os.environ.get('VERIF_SCRATCH')
    if b:
        os.makedirs(b, exist_ok=True)
        return b
    try:
        st = os.statvfs('/dev/shm')
        if os.access('/dev/shm', os.W_OK) and st.f_bavail * st.f_frsize > (2 << 30):
            return '/dev/shm'
    except OSError:
        pass
    return '/var/tmp'


def sweep_stale_scratch():
    """remove scratch directories of shard processes that no longer exist (killed runs)"""
    import re
    base = scratch_base()
    try:
        names = os.listdir(base)
    except OSError:
        return
    for n in names:
        m = re.match(r'^verif-c\d+-p(\d+)-', n)
        if not m:
            continue
        try:
            os.kill(int(m.group(1)), 0)
        except ProcessLookupError:
            shutil.rmtree(os.path.join(base, n), ignore_errors=True)
        except OSError:
            pass


def jhash(obj):
    return hashlib.sha1(json.dumps(obj, sort_keys=True, default=str).encode()).hexdigest()[:16]


def load_findings(pid):
    p = os.path.join(VERIF, 'known_findings.json')
    if not os.path.exists(p):
        return []
    with open(p) as f:
        data = json.load(f)
    return [e for e in data.get('findings', []) if e.get('property') == pid]


def match_finding(entry, mech):
    if entry.get('status') != 'open':
        return False
    for k, v in entry.get('match', {}).items():
        got = mech.get(k, None)
        if isinstance(v, dict):
            # {"contains": x} / {"contains_any": [..]} on string or list valued mechanism fields
            if got is None:
                return False
            if 'contains' in v and v['contains'] not in got:
                return False
            if 'contains_any' in v and not any(x in got for x in v['contains_any']):
                return False
            if 'contains_none' in v and any(x in got for x in v['contains_none']):
                return False
        elif isinstance(v, list):
            if got not in v:
                return False
        elif got != v:
            return False
    return True


class Run(object):
    MAX_SAMPLES = 8
    MAX_VIOL = 25

    def __init__(self, pid, level, tier='quick', seed=0, shard=None, nshards=1, deadline=None):
        self.pid = pid
        self.level = level
        self.tier = tier
        self.seed = seed
        self.shard = shard
        self.nshards = nshards
        self.deadline = deadline
        self.t0 = time.time()
        self.evaluations = 0
        self.distinct = set()
        self.monitors = Counter()
        self.dont_care = Counter()
        self.known = Counter()
        self.known_witness = {}
        self.samples = []
        self.violations = []
        self.nviol = 0
        self.viol_mechs = Counter()
        self.extra = Counter()
        self.errors = []
        self.skipped = 0
        self.findings = load_findings(pid)
        self._scratch = None
        self.replaying = False

    # ---- helpers for checks -------------------------------------------------------------------
    def rng(self, *k):
        return random.Random("%s:%s:%s" % (self.pid, self.seed, ":".join(str(x) for x in k)))

    def pick(self, quick, thorough):
        return thorough if self.tier == 'thorough' else quick

    def scratch(self):
        if self._scratch is None:
            base = scratch_base()
            self._scratch = tempfile.mkdtemp(prefix='verif-%s-p%d-' % (self.pid.lower(), os.getpid()), dir=base)
        return self._scratch

    def subdir(self, name=None):
        d = tempfile.mkdtemp(prefix=(name or 'd') + '-', dir=self.scratch())
        return d

    def cleanup(self):
        if self._scratch and os.path.isdir(self._scratch):
            shutil.rmtree(self._scratch, ignore_errors=True)
        self._scratch = None

    def out_of_time(self):
        return self.deadline is not None and time.time() > self.deadline

    def judge(self, cls=None, nontrivial=True, n=1):
        """One oracle judgement was made; cls = class tuple of the case (counted as distinct if nontrivial)."""
        self.evaluations += n
        if cls is not None and nontrivial:
            self.distinct.add(jhash(cls))

    def hit(self, name, n=1):
        self.monitors[name] += n

    def dc(self, reason, n=1):
        self.dont_care[reason] += n

    def count(self, name, n=1):
        self.extra[name] += n

    def sample(self, obj, force=False):
        if len(self.samples) < self.MAX_SAMPLES or force:
            self.samples.append(obj)

    def violation(self, mech, case, detail):
        """mech: mechanism-level witness structure (dict) used for known-finding classification."""
        for e in self.findings:
            if match_finding(e, mech):
                self.known[e['id']] += 1
                if e['id'] not in self.known_witness:
                    self.known_witness[e['id']] = {'mech': mech, 'detail': str(detail)[:600]}
                    dump = os.environ.get('VERIF_DUMP_KNOWN_CASES')
                    if dump:
                        # tooling: collect one reproducing case per listed finding (to make directed cases from)
                        os.makedirs(dump, exist_ok=True)
                        fn = os.path.join(dump, '%s-%d.json' % (e['id'], os.getpid()))
                        if not os.path.exists(fn):
                            with open(fn, 'w') as f:
                                json.dump({'id': e['id'], 'mech': mech, 'case': case}, f, default=str)
                return 'known'
        self.nviol += 1
        key = json.dumps(mech, sort_keys=True, default=str)
        self.viol_mechs[key] += 1
        if self.viol_mechs[key] <= 2 and len(self.violations) < self.MAX_VIOL:
            self.violations.append({'mech': mech, 'case': case, 'detail': str(detail)[:4000]})
        return 'violation'

    # ---- serialisation ------------------------------------------------------------------------
    def dump(self):
        return {
            'evaluations': self.evaluations, 'distinct': sorted(self.distinct),
            'monitors': dict(self.monitors), 'dont_care': dict(self.dont_care), 'known': dict(self.known),
            'known_witness': self.known_witness, 'samples': self.samples, 'violations': self.violations,
            'nviol': self.nviol, 'viol_mechs': dict(self.viol_mechs), 'extra': dict(self.extra), 'errors': self.errors, 'skipped': self.skipped,
        }

    def merge(self, d):
        self.evaluations += d['evaluations']
        self.distinct.update(d['distinct'])
        self.monitors.update(d['monitors'])
        self.dont_care.update(d['dont_care'])
        self.known.update(d['known'])
        for k, v in d['known_witness'].items():
            self.known_witness.setdefault(k, v)
        self.samples.extend(d['samples'])
        self.violations.extend(d['violations'])
        self.nviol += d['nviol']
        self.viol_mechs.update(d.get('viol_mechs', {}))
        self.extra.update(d['extra'])
        self.errors.extend(d['errors'])
        self.skipped += d['skipped']


def _shard_main(mod, args):
    run = Run(mod.PID, mod.LEVEL, tier=args.tier, seed=args.seed, shard=args.shard, nshards=args.nshards,
              deadline=time.time() + args.budget)
    try:
        if hasattr(mod, 'setup_shard'):
            mod.setup_shard(run)
        for idx, case in enumerate(mod.gen_cases(run)):
            if idx % args.nshards != args.shard:
                continue
            if run.out_of_time() and not (isinstance(case, dict) and case.get('must')):
                # cases marked 'must' are the enumerated part of a check: never dropped for the budget
                run.skipped += 1
                continue
            try:
                mod.run_case(run, case)
            except Exception:
                run.errors.append({'case': case, 'tb': traceback.format_exc()[-3000:]})
                if len(run.errors) > 20:
                    break
        if hasattr(mod, 'teardown_shard'):
            mod.teardown_shard(run)
    except Exception:
        run.errors.append({'case': None, 'tb': traceback.format_exc()[-3000:]})
    finally:
        run.cleanup()
    with open(args.out, 'w') as f:
        json.dump(run.dump(), f, default=str)


def _replay_main(mod, args):
    if args.case:
        rp = {'case': json.loads(args.case), 'tier': args.tier, 'seed': args.seed}
        args.replay = '<inline case>'
    else:
        with open(args.replay) as f:
            rp = json.load(f)
    run = Run(mod.PID, mod.LEVEL, tier=rp.get('tier', 'quick'), seed=rp.get('seed', 0))
    run.replaying = True
    try:
        if hasattr(mod, 'setup_shard'):
            mod.setup_shard(run)
        mod.run_case(run, rp['case'])
    finally:
        run.cleanup()
    for k, n in run.known.items():
        print("KNOWN-FINDING: property=%s %s (x%d)" % (mod.PID, k, n))
    if run.nviol:
        for v in run.violations:
            print("witness:", json.dumps(v['mech'], default=str), v['detail'][:1500])
        print("VIOLATION property=%s replay=%s" % (mod.PID, args.replay))
        sys.exit(1)
    print("replay: no violation reproduced (evaluations=%d monitors=%s dont_care=%s)" % (
        run.evaluations, dict(run.monitors), dict(run.dont_care)))
    sys.exit(0)


def main(mod):
    ap = argparse.ArgumentParser()
    ap.add_argument('--tier', default=os.environ.get('VERIF_TIER', 'quick'), choices=['quick', 'thorough'])
    ap.add_argument('--seed', type=int, default=int(os.environ.get('VERIF_SEED', '0') or 0))
    ap.add_argument('--replay')
    ap.add_argument('--case', help='JSON of one case to execute (debugging)')
    ap.add_argument('--shard', type=int)
    ap.add_argument('--nshards', type=int, default=1)
    ap.add_argument('--budget', type=float, default=0)
    ap.add_argument('--out')
    ap.add_argument('--jobs', type=int, default=int(os.environ.get('VERIF_JOBS', '0') or 0))
    args = ap.parse_args()
    use_repo()
    if args.replay or args.case:
        return _replay_main(mod, args)
    if args.shard is not None:
        return _shard_main(mod, args)

    # ---- parent ------------------------------------------------------------------------------------
    sweep_stale_scratch()
    t0 = time.time()
    pid = mod.PID
    nsh = args.jobs or getattr(mod, 'SHARDS', min(16, os.cpu_count() or 4))
    budgets = getattr(mod, 'BUDGET_S', {'quick': 45, 'thorough': 600})
    budget = budgets[args.tier]
    # tooling: VERIF_BUDGET_SCALE=0.1 imitates a heavily loaded machine (to see that directed cases do not depend on the budget)
    budget = budget * float(os.environ.get('VERIF_BUDGET_SCALE', '1') or 1)
    watchdog = budget * 3 + 120
    tmpd = tempfile.mkdtemp(prefix='verif-%s-par-' % pid.lower(), dir=scratch_base())
    modname = mod.__spec__.name if getattr(mod, '__spec__', None) else 'checks.' + pid.lower()
    procs = []
    for i in range(nsh):
        out = os.path.join(tmpd, 'shard%d.json' % i)
        cmd = [sys.executable, '-m', modname, '--tier', args.tier, '--seed', str(args.seed), '--shard', str(i),
               '--nshards', str(nsh), '--budget', str(budget), '--out', out]
        logf = open(os.path.join(tmpd, 'shard%d.log' % i), 'w')
        procs.append((i, out, subprocess.Popen(cmd, stdout=logf, stderr=subprocess.STDOUT, cwd=VERIF), logf))
    total = Run(pid, mod.LEVEL, tier=args.tier, seed=args.seed)
    inconclusive = []
    for i, out, p, logf in procs:
        left = max(1, watchdog - (time.time() - t0))
        try:
            p.wait(timeout=left)
        except subprocess.TimeoutExpired:
            p.kill()
            p.wait()
            inconclusive.append('shard %d hit the wall-clock watchdog' % i)
        logf.close()
        if os.path.exists(out):
            with open(out) as f:
                total.merge(json.load(f))
        else:
            tail = ''
            try:
                with open(os.path.join(tmpd, 'shard%d.log' % i)) as f:
                    tail = f.read()[-1500:]
            except Exception:
                pass
            inconclusive.append('shard %d produced no result (rc=%s) %s' % (i, p.returncode, tail))
    shutil.rmtree(tmpd, ignore_errors=True)

    floors = dict(getattr(mod, 'FLOORS', {}).get(args.tier, getattr(mod, 'FLOORS', {}).get('quick', {})))
    for name, need in floors.items():
        have = total.evaluations if name == 'evaluations' else total.monitors.get(name, total.extra.get(name, 0))
        if have < need:
            inconclusive.append('monitor %s reached %d times, floor %d' % (name, have, need))
    if total.errors:
        inconclusive.append('%d harness errors, first: %s' % (len(total.errors), total.errors[0]['tb'][-1200:]))
    if len(total.distinct) < 2:
        inconclusive.append('fewer than 2 distinct non-trivial cases')

    # known findings: print one line each
    fmap = {e['id']: e for e in total.findings}
    for fid in sorted(total.known):
        print("KNOWN-FINDING: property=%s %s [%s, %d hits]" % (pid, fmap[fid]['description'], fid, total.known[fid]))
    for e in total.findings:
        if e.get('status') == 'open' and e['id'] not in total.known:
            inconclusive.append('listed open finding %s was not reproduced by this run' % e['id'])

    # replays
    replays = []
    if total.violations:
        rdir = os.environ.get('VERIF_REPLAY_DIR') or os.path.join(VERIF, 'replays')
        os.makedirs(rdir, exist_ok=True)
        for n, v in enumerate(total.violations[:10]):
            rp = os.path.join(rdir, '%s-%s-s%d-%d.json' % (pid, args.tier, args.seed, n))
            with open(rp, 'w') as f:
                json.dump({'property': pid, 'tier': args.tier, 'seed': args.seed, 'case': v['case'],
                           'mech': v['mech'], 'detail': v['detail']}, f, indent=1, default=str)
            replays.append(rp)

    random.Random(args.seed).shuffle(total.samples)
    cov = {
        'evaluations': total.evaluations,
        'distinct_nontrivial': len(total.distinct),
        'rule': mod.RULE,
        'samples': total.samples[:8],
        'monitors': dict(total.monitors),
        'floors': floors,
        'dont_care': dict(total.dont_care),
        'known_findings': dict(total.known),
        'known_finding_witnesses': total.known_witness,
        'skipped_for_budget': total.skipped,
        'shards': nsh,
    }
    for k, v in total.extra.items():
        cov[k] = v
    if hasattr(mod, 'evidence_extra'):
        cov.update(mod.evidence_extra(total))
    verdict = 'violated' if total.nviol else ('inconclusive' if inconclusive else 'held')
    cov['verdict'] = verdict
    if inconclusive:
        cov['inconclusive_reasons'] = inconclusive
    if total.violations:
        cov['violation_witnesses'] = [{'mech': v['mech'], 'detail': v['detail'][:500]} for v in total.violations[:5]]
    ev = {
        'property_id': pid, 'tier': args.tier, 'seed': args.seed, 'level': mod.LEVEL, 'coverage': cov,
        'assumptions': list(mod.ASSUMPTIONS), 'wall_s': round(time.time() - t0, 2), 'violations': total.nviol,
    }
    evdir = os.environ.get('VERIF_EVIDENCE_DIR') or os.path.join(VERIF, 'evidence')
    os.makedirs(evdir, exist_ok=True)
    evp = os.path.join(evdir, pid + '.json')
    try:
        import jsonschema
        with open('/root/.vp/EVIDENCE.schema.json') as f:
            jsonschema.validate(ev, json.load(f))
    except ImportError:
        pass
    except FileNotFoundError:
        pass
    except Exception as ex:  # schema violation: still write, but say so
        inconclusive.append('evidence does not validate: %s' % str(ex)[:300])
    tmp = evp + '.tmp%d' % os.getpid()
    with open(tmp, 'w') as f:
        json.dump(ev, f, indent=1, default=str)
    os.replace(tmp, evp)

    print("%s %s seed=%d: evaluations=%d distinct=%d monitors=%s dont_care=%s known=%s wall=%.1fs" % (
        pid, args.tier, args.seed, total.evaluations, len(total.distinct), dict(total.monitors),
        dict(total.dont_care), dict(total.known), time.time() - t0))
    if total.nviol:
        for k, n in total.viol_mechs.most_common(40):
            print("violation-mechanism x%d: %s" % (n, k))
        for v in total.violations[:5]:
            print("witness:", json.dumps(v['mech'], default=str), v['detail'][:800])
        for rp in replays[:5]:
            print("VIOLATION property=%s replay=%s" % (pid, rp))
        sys.exit(1)
    if inconclusive:
        for r in inconclusive:
            print("INCONCLUSIVE property=%s reason=%s" % (pid, r))
        sys.exit(2)
    print("HELD property=%s" % pid)
    sys.exit(0)
