"""Crash injection by real process death.

run_child(fn, crash_at=k, tear=t): fork; the child installs raw-I/O failpoints (a subclass of io.FileIO under the
normal buffered objects returned by open()/os.fdopen(), wrappers around os.open/rename/replace/unlink/remove/link/
symlink/mkdir/rmdir/chmod/truncate) and runs fn(); its k-th file-system operation is replaced by os._exit(137)
(for a write optionally after a page-aligned partial write).  User-space buffers die with the child exactly as under
SIGKILL.  The parent then inspects the directory with fresh, unpatched objects.
Buffering is untouched, so the logged sequence is the sequence of system calls the unmodified code issues."""
import builtins
import io
import json
import os
import signal

PAGE = 4096
_real_open = builtins.open
_real_os = {}


class _FP(object):
    def __init__(self, crash_at=None, tear=None):
        self.crash_at = crash_at
        self.tear = tear
        self.n = 0
        self.log = []
        self.fdpath = {}

    def op(self, kind, path, extra=None):
        """a non-write operation is about to happen"""
        self.log.append([kind, _short(path)] + (list(extra) if extra else []))
        if self.n == self.crash_at:
            os._exit(137)
        self.n += 1


FP = None


def _short(p):
    if isinstance(p, bytes):
        p = p.decode('utf-8', 'replace')
    return str(p)


class CrashFileIO(io.FileIO):
    def _path(self):
        nm = self.name
        if isinstance(nm, int):
            return FP.fdpath.get(nm, 'fd%d' % nm)
        return nm

    def write(self, b):
        fp = FP
        mv = memoryview(b).cast('B')
        n = len(mv)
        fd = self.fileno()
        try:
            off = os.lseek(fd, 0, os.SEEK_CUR)
            if 'a' in self.mode:
                off = os.fstat(fd).st_size
        except OSError:
            off = -1
        bounds = [p for p in range((off // PAGE + 1) * PAGE, off + n, PAGE)] if off >= 0 else []
        fp.log.append(['write', _short(self._path()), off, n, len(bounds)])
        if fp.n == fp.crash_at:
            if fp.tear is not None and bounds:
                cut = bounds[min(fp.tear, len(bounds) - 1) if fp.tear >= 0 else len(bounds) - 1]
                data = bytes(mv[:cut - off])
                done = 0
                while done < len(data):
                    done += io.FileIO.write(self, data[done:])
            os._exit(137)
        fp.n += 1
        return io.FileIO.write(self, b)

    def truncate(self, size=None):
        FP.op('truncate', self._path(), [size])
        return io.FileIO.truncate(self, size)


def _vopen(file, mode='r', buffering=-1, encoding=None, errors=None, newline=None, closefd=True, opener=None):
    if isinstance(file, int) or not any(c in mode for c in 'wax+'):
        if isinstance(file, int) and any(c in mode for c in 'wax+'):
            return _wrap(file, mode, encoding, errors, newline, closefd)
        return _real_open(file, mode, buffering, encoding, errors, newline, closefd, opener)
    if 'w' in mode or 'x' in mode or 'a' in mode:
        exists = os.path.lexists(file)
        if 'w' in mode:
            FP.op('open-trunc' if exists else 'open-create', file)
        elif not exists:
            FP.op('open-create', file)
    return _wrap(file, mode, encoding, errors, newline, closefd)


def _wrap(file, mode, encoding, errors, newline, closefd=True):
    rawmode = mode.replace('b', '').replace('t', '')
    raw = CrashFileIO(file, rawmode, closefd=closefd)
    if '+' in rawmode:
        buf = io.BufferedRandom(raw)
    elif 'r' in rawmode:
        buf = io.BufferedReader(raw)
    else:
        buf = io.BufferedWriter(raw)
    if 'b' in mode:
        return buf
    return io.TextIOWrapper(buf, encoding, errors, newline)


def _fdopen(fd, mode='r', *a, **kw):
    if any(c in mode for c in 'wax+'):
        return _wrap(fd, mode, kw.get('encoding'), kw.get('errors'), kw.get('newline'))
    return _real_os['fdopen'](fd, mode, *a, **kw)


def install(crash_at=None, tear=None):
    """only ever called inside a forked child"""
    global FP
    FP = _FP(crash_at, tear)
    builtins.open = _vopen
    io.open = _vopen
    for name in ('fdopen', 'open', 'rename', 'replace', 'unlink', 'remove', 'link', 'symlink', 'mkdir', 'rmdir',
                 'chmod', 'truncate', 'utime'):
        _real_os[name] = getattr(os, name)
    os.fdopen = _fdopen

    def os_open(path, flags, mode=0o777, **kw):
        if flags & (os.O_CREAT | os.O_TRUNC):
            FP.op('os.open-creat', path)
        fd = _real_os['open'](path, flags, mode, **kw)
        FP.fdpath[fd] = path
        return fd
    os.open = os_open

    def mk1(name):
        real = _real_os[name]

        def f(path, *a, **kw):
            FP.op(name, path)
            return real(path, *a, **kw)
        return f

    def mk2(name):
        real = _real_os[name]

        def f(src, dst, *a, **kw):
            FP.op(name, src, [_short(dst)])
            return real(src, dst, *a, **kw)
        return f
    for name in ('unlink', 'remove', 'mkdir', 'rmdir', 'chmod', 'truncate', 'utime'):
        setattr(os, name, mk1(name))
    for name in ('rename', 'replace', 'link', 'symlink'):
        setattr(os, name, mk2(name))


def run_child(fn, crash_at=None, tear=None, timeout=60):
    """returns dict(status=exit status or -signal, n=ops, log=[...], outcome='ok'|'exc:...') ; log/outcome only when
    the child ran to completion"""
    r, w = os.pipe()
    pid = os.fork()
    if pid == 0:
        code = 0
        try:
            os.close(r)
            signal.alarm(timeout)
            install(crash_at, tear)
            try:
                fn()
                outcome = 'ok'
            except BaseException as ex:   # noqa
                import traceback
                outcome = 'exc:' + repr(ex) + traceback.format_exc()[-1500:]
            data = json.dumps({'n': FP.n, 'log': FP.log, 'outcome': outcome}).encode()
            done = 0
            while done < len(data):
                done += os.write(w, data[done:done + 65536])
        except BaseException:   # noqa
            code = 3
        finally:
            os._exit(code)
    os.close(w)
    chunks = []
    while True:
        c = os.read(r, 1 << 20)
        if not c:
            break
        chunks.append(c)
    os.close(r)
    _, st = os.waitpid(pid, 0)
    res = {'status': os.WEXITSTATUS(st) if os.WIFEXITED(st) else -os.WTERMSIG(st)}
    if chunks:
        try:
            res.update(json.loads(b''.join(chunks).decode()))
        except Exception:
            res['outcome'] = 'unparseable child report'
    return res
