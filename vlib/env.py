"""python -m vlib.env --selfcheck : verify that everything the checks import is present offline."""
import importlib
import os
import sys


def selfcheck():
    missing = []
    for m in ('PIL', 'numpy', 'pyproj', 'shapely', 'lxml', 'yaml', 'jsonschema', 'webob'):
        try:
            importlib.import_module(m)
        except Exception as ex:
            missing.append('%s (%s)' % (m, ex))
    sys.path.insert(0, os.environ.get('VERIF_REPO', '/repo'))
    try:
        import mapproxy  # noqa
    except Exception as ex:
        missing.append('mapproxy (%s)' % ex)
    if missing:
        print('setup: missing modules: ' + ', '.join(missing))
        return 1
    os.makedirs(os.path.join(os.path.dirname(os.path.dirname(os.path.abspath(__file__))), 'evidence'), exist_ok=True)
    print('setup: ok (python %s)' % sys.version.split()[0])
    return 0


if __name__ == '__main__':
    sys.exit(selfcheck())
