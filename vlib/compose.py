"""Reference compositor: straight-alpha 'over' in float64 numpy.  Independent of PIL's alpha_composite / blend / paste
and of PIL ImageDraw (clip masks are rasterised with shapely pixel-centre tests).

Images are float arrays (h, w, 4), channels 0..255 (colour) and 0..1 (alpha) = "F-images".

    over(top, bottom):  a_out = a_t + a_b (1 - a_t);  c_out = (c_t a_t + c_b a_b (1 - a_t)) / a_out   (c_out = 0 if a_out = 0)

For an opaque bottom this is the familiar  c_out = c_t a + c_b (1 - a).
"""
import numpy as np


def from_u8(arr):
    """uint8 (h,w,3|4) -> F-image"""
    arr = np.asarray(arr)
    h, w = arr.shape[:2]
    out = np.empty((h, w, 4), dtype=np.float64)
    out[..., :3] = arr[..., :3]
    if arr.shape[2] == 4:
        out[..., 3] = arr[..., 3] / 255.0
    else:
        out[..., 3] = 1.0
    return out


def from_pil(img):
    """any PIL image (P with tRNS, LA, L, RGB, RGBA) -> F-image; palette expansion done here, not by mapproxy"""
    if img.mode == 'P':
        pal = img.getpalette() or []
        pal = np.array(pal + [0] * (768 - len(pal)), dtype=np.uint8).reshape(256, 3)
        idx = np.asarray(img)
        rgb = pal[idx]
        alpha = np.full(256, 255, dtype=np.uint8)
        t = img.info.get('transparency')
        if isinstance(t, (bytes, bytearray)):
            alpha[:len(t)] = np.frombuffer(bytes(t), dtype=np.uint8)
        elif isinstance(t, int):
            alpha[t] = 0
        a = alpha[idx]
        return from_u8(np.dstack([rgb, a]))
    if img.mode == 'RGB' and isinstance(img.info.get('transparency'), tuple):
        # RGB with one colour declared transparent (tRNS chunk)
        rgb = np.asarray(img)
        key = np.array(img.info['transparency'][:3], dtype=np.uint8)
        a = np.where((rgb == key).all(axis=2), 0, 255).astype(np.uint8)
        return from_u8(np.dstack([rgb, a]))
    if img.mode not in ('RGB', 'RGBA'):
        img = img.convert('RGBA' if img.mode in ('LA', 'PA') or 'transparency' in img.info else 'RGB')
    return from_u8(np.asarray(img))


def to_u8(f):
    """F-image -> uint8 RGBA (round half up)"""
    out = np.empty(f.shape, dtype=np.uint8)
    out[..., :3] = np.clip(np.floor(f[..., :3] + 0.5), 0, 255).astype(np.uint8)
    out[..., 3] = np.clip(np.floor(f[..., 3] * 255.0 + 0.5), 0, 255).astype(np.uint8)
    return out


def blank(size, color=None):
    """size = (w, h); color None -> fully transparent, else opaque colour"""
    w, h = size
    f = np.zeros((h, w, 4), dtype=np.float64)
    if color is not None:
        f[..., 0], f[..., 1], f[..., 2] = color[:3]
        f[..., 3] = 1.0
    return f


def over(top, bottom):
    at = top[..., 3]
    ab = bottom[..., 3]
    ao = at + ab * (1.0 - at)
    out = np.zeros_like(top)
    wt = at
    wb = ab * (1.0 - at)
    nz = ao > 0
    for c in range(3):
        num = top[..., c] * wt + bottom[..., c] * wb
        out[..., c][nz] = num[nz] / ao[nz]
    out[..., 3] = ao
    return out


def with_opacity(f, opacity):
    if opacity is None:
        return f
    g = f.copy()
    g[..., 3] = g[..., 3] * float(opacity)
    return g


def color_key(f, key, tolerance):
    """pixels whose r,g,b are all within [key - tol, key + tol] become fully transparent (alpha multiplies existing)"""
    g = f.copy()
    m = np.ones(f.shape[:2], dtype=bool)
    for c in range(3):
        m &= (f[..., c] >= key[c] - tolerance) & (f[..., c] <= key[c] + tolerance)
    g[..., 3][m] = 0.0
    return g, m


def flatten(f, bgcolor=(255, 255, 255)):
    """what a WMS does for TRANSPARENT=FALSE: picture over an opaque background colour"""
    return over(f, blank((f.shape[1], f.shape[0]), bgcolor))


def apply_mask(f, inside):
    """keep the picture where `inside` is True, fully transparent elsewhere"""
    g = f.copy()
    g[..., 3] = np.where(inside, g[..., 3], 0.0)
    return g


def compose(layers, size, background=None):
    """layers: F-images bottom first; background None = transparent canvas, else opaque colour"""
    res = blank(size, background)
    for f in layers:
        res = over(f, res)
    return res


# ---- geometry masks, independent of PIL.ImageDraw -------------------------------------------------------------------

def pixel_centres(bbox, size):
    w, h = size
    rx = (bbox[2] - bbox[0]) / float(w)
    ry = (bbox[3] - bbox[1]) / float(h)
    xc = bbox[0] + (np.arange(w, dtype=np.float64) + 0.5) * rx
    yc = bbox[3] - (np.arange(h, dtype=np.float64) + 0.5) * ry
    return xc, yc


def bbox_mask(bbox, size, rect):
    """pixel centre strictly inside rect"""
    xc, yc = pixel_centres(bbox, size)
    mx = (xc > rect[0]) & (xc < rect[2])
    my = (yc > rect[1]) & (yc < rect[3])
    return my[:, None] & mx[None, :]


def geom_masks(bbox, size, geom, band_px=1.5):
    """(inside, sure): inside = pixel centre inside the shapely geometry; sure = the pixel centre is farther than
    band_px pixels from the geometry's boundary (only those pixels can be judged: rasterisers differ on edge pixels)"""
    import shapely
    w, h = size
    xc, yc = pixel_centres(bbox, size)
    X, Y = np.meshgrid(xc, yc)
    pts = shapely.points(X.ravel(), Y.ravel())
    inside = shapely.contains(geom, pts).reshape(h, w)
    res = max((bbox[2] - bbox[0]) / float(w), (bbox[3] - bbox[1]) / float(h))
    d = shapely.distance(geom.boundary, pts).reshape(h, w)
    sure = d > band_px * res
    return inside, sure


# ---- comparison ----------------------------------------------------------------------------------------------------------

def diff_premultiplied(obs_u8, exp_f):
    """per-pixel max channel difference in levels; colour is compared premultiplied by alpha (a colour under alpha 3/255
    is not observable), alpha is compared as such.  obs_u8: uint8 (h,w,4); returns (dcolor, dalpha) float arrays"""
    obs = from_u8(obs_u8)
    ao = obs[..., 3:4]
    ae = exp_f[..., 3:4]
    dc = np.abs(obs[..., :3] * ao - exp_f[..., :3] * ae).max(axis=2)
    da = np.abs(ao[..., 0] - ae[..., 0]) * 255.0
    return dc, da
