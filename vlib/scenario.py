"""Scenario factory: YAML dictionaries are written to a scratch directory and loaded through the REAL loader
(load_configuration -> configured_services -> MapProxyApp); requests are issued at the raw WSGI boundary."""
import io
import os
import urllib.parse
from wsgiref.util import setup_testing_defaults

import yaml


class Response(object):
    def __init__(self, status, headers, body, exc=None, start_calls=1):
        self.status = status
        self.code = int(status.split(' ', 1)[0]) if status else 0
        self.headers = headers
        self.body = body
        self.exc = exc
        self.start_calls = start_calls

    def header(self, name, default=None):
        for k, v in self.headers:
            if k.lower() == name.lower():
                return v
        return default

    @property
    def content_type(self):
        return (self.header('Content-type') or '').split(';')[0].strip().lower()

    def image(self):
        from PIL import Image
        img = Image.open(io.BytesIO(self.body))
        img.load()
        return img


def wsgi_get(app, path_qs, headers=None, method='GET', body=None, script_name=''):
    """call the WSGI app directly; nothing is caught or repaired here"""
    if '?' in path_qs:
        path, qs = path_qs.split('?', 1)
    else:
        path, qs = path_qs, ''
    environ = {}
    setup_testing_defaults(environ)
    environ['REQUEST_METHOD'] = method
    environ['SCRIPT_NAME'] = script_name
    environ['PATH_INFO'] = urllib.parse.unquote(path, encoding='latin-1')
    environ['QUERY_STRING'] = qs
    environ['SERVER_NAME'] = 'localhost'
    environ['HTTP_HOST'] = 'localhost'
    if body is not None:
        environ['wsgi.input'] = io.BytesIO(body)
        environ['CONTENT_LENGTH'] = str(len(body))
    for k, v in (headers or {}).items():
        key = 'HTTP_' + k.upper().replace('-', '_')
        if k.lower() == 'content-type':
            key = 'CONTENT_TYPE'
        environ[key] = v
    got = {'n': 0}

    def start_response(status, hdrs, exc_info=None):
        got['n'] += 1
        got['status'] = status
        got['headers'] = hdrs
        return lambda data: None
    it = app(environ, start_response)
    try:
        chunks = list(it)
    finally:
        if hasattr(it, 'close'):
            it.close()
    return Response(got.get('status'), got.get('headers', []), b''.join(chunks), start_calls=got['n']), chunks


class Scenario(object):
    def __init__(self, base_dir, conf, name='mapproxy', seed_conf=None):
        self.dir = base_dir
        os.makedirs(base_dir, exist_ok=True)
        self.conf_dict = conf
        self.path = os.path.join(base_dir, name + '.yaml')
        with open(self.path, 'w') as f:
            yaml.safe_dump(conf, f, default_flow_style=False)
        self.seed_path = None
        if seed_conf is not None:
            self.seed_path = os.path.join(base_dir, 'seed.yaml')
            with open(self.seed_path, 'w') as f:
                yaml.safe_dump(seed_conf, f, default_flow_style=False)
        from mapproxy.config.loader import load_configuration
        from mapproxy.wsgiapp import MapProxyApp
        self.conf = load_configuration(self.path, ignore_warnings=True)
        self.services = self.conf.configured_services()
        self.app = MapProxyApp(self.services, self.conf.base_config)

    def get(self, path_qs, headers=None, **kw):
        return wsgi_get(self.app, path_qs, headers, **kw)[0]

    def grid(self, name):
        return self.conf.grids[name].tile_grid()

    def tile_managers(self, cache_name):
        """list of (grid, extent, tile_manager) for a configured cache"""
        return self.conf.caches[cache_name].caches()

    def tile_manager(self, cache_name, idx=0):
        return self.tile_managers(cache_name)[idx][2]


def base_conf(**globals_extra):
    g = {'cache': {'base_dir': './cache_data', 'lock_dir': './locks', 'tile_lock_dir': './tile_locks',
                   'meta_size': [1, 1], 'meta_buffer': 0},
         'image': {'paletted': False, 'resampling_method': 'nearest'}}
    for k, v in globals_extra.items():
        if isinstance(v, dict) and k in g:
            g[k].update(v)
        else:
            g[k] = v
    return {'services': {}, 'layers': [], 'caches': {}, 'sources': {}, 'grids': {}, 'globals': g}
