"""Synthetic upstream servers.  mapproxy.client.http.HTTPClient.open is replaced by a dispatcher that parses every
URL like a server would, logs the call and answers with a rendered image / document / fault.  No sockets.

Renderers
  NOISE : colour = 24-bit hash of (level, global pixel column, global pixel row, epoch) on the pixel lattice of a grid
          level; every pixel of the pyramid is unique, so off-by-one crops, shifted / flipped / wrong-level tiles are
          total mismatches and bit-identity is decidable.
  (RAMP and LAYERS renderers live in their checks' modules and register here the same way.)
"""
import io
import math
import threading
import urllib.parse
from http.client import HTTPMessage

import numpy as np

LOCK = threading.Lock()


class Resp(io.BytesIO):
    def __init__(self, body, content_type='image/png', code=200, headers=None):
        io.BytesIO.__init__(self, body)
        self.code = code
        self.status = code
        m = HTTPMessage()
        if content_type is not None:
            m['Content-type'] = content_type
        m['Content-length'] = str(len(body))
        for k, v in (headers or {}).items():
            m[k] = v
        self.headers = m
        self.msg = 'OK'
        self.url = None

    def info(self):
        return self.headers

    def getcode(self):
        return self.code


class Call(object):
    __slots__ = ('n', 'url', 'data', 'method', 'host', 'path', 'params', 'kind', 'thread', 'tag', 'extra')

    def __init__(self, n, url, data, method):
        self.n = n
        self.url = url
        self.data = data
        self.method = method
        u = urllib.parse.urlsplit(url)
        self.host = u.netloc
        self.path = u.path
        q = u.query
        if data:
            q = (q + '&' if q else '') + (data.decode('utf-8', 'replace') if isinstance(data, bytes) else data)
        self.params = {}
        for k, v in urllib.parse.parse_qsl(q, keep_blank_values=True):
            self.params.setdefault(k.lower(), v)
        req = self.params.get('request', '').lower()
        if req in ('getmap', 'map'):
            self.kind = 'getmap'
        elif req in ('getfeatureinfo', 'feature_info'):
            self.kind = 'featureinfo'
        elif req in ('getlegendgraphic',):
            self.kind = 'legend'
        elif req in ('getcapabilities', 'capabilities'):
            self.kind = 'capabilities'
        else:
            self.kind = 'tile' if not self.params.get('request') else 'other'
        self.thread = threading.current_thread().name
        self.tag = None
        self.extra = {}

    def summary(self):
        return {'n': self.n, 'url': self.url[:400], 'kind': self.kind}


class Upstream(object):
    def __init__(self):
        self.handlers = {}
        self.log = []
        self.n = 0
        self.tag = None
        self.faults = {}       # host -> callable(call) -> Resp | Exception | None
        self.before = None     # hook(call) invoked before rendering (scheduling point / delay injection)
        self.after = None

    def register(self, host, handler):
        self.handlers[host] = handler

    def reset_log(self):
        with LOCK:
            self.log = []

    def calls(self, host=None, kind=None):
        return [c for c in self.log if (host is None or c.host == host) and (kind is None or c.kind == kind)]

    def handle(self, url, data=None, method=None):
        with LOCK:
            self.n += 1
            call = Call(self.n, url, data, method)
            call.tag = self.tag
            self.log.append(call)
        if self.before:
            self.before(call)
        f = self.faults.get(call.host)
        resp = None
        if f is not None:
            resp = f(call)
        if resp is None:
            h = self.handlers.get(call.host)
            if h is None:
                resp = Resp(b'no such upstream', 'text/plain', 404)
            else:
                resp = h(call)
        if self.after:
            self.after(call, resp)
        if isinstance(resp, Exception):
            raise resp
        return resp


UP = Upstream()
_installed = False


def install():
    """replace the class attribute HTTPClient.open; idempotent"""
    global _installed
    if _installed:
        return UP
    from mapproxy.client import http

    def stub_open(self, url, data=None, method=None):
        resp = UP.handle(url, data, method)
        code = getattr(resp, 'code', 200)
        if code >= 400:
            err = self.handle_url_exception(url, 'HTTP Error', str(code), response_code=code)
            raise err
        if code == 204:
            raise http.HTTPClientError('HTTP Error "204 No Content"', response_code=204)
        return resp
    http.HTTPClient.open = stub_open
    _installed = True
    return UP


# ---- axis order, independent of mapproxy ------------------------------------------------------------------------
_AXIS = {}


def northing_first(code):
    """official axis order of a CRS code is (north/lat, east/lon)?  from pyproj, not from mapproxy"""
    code = code.upper()
    if code not in _AXIS:
        if code in ('CRS:84', 'EPSG:900913'):
            _AXIS[code] = False
        else:
            import pyproj
            try:
                ax = pyproj.CRS.from_user_input(code).axis_info
                _AXIS[code] = ax[0].direction.lower() in ('north', 'south')
            except Exception:
                _AXIS[code] = False
    return _AXIS[code]


def parse_getmap(call):
    """returns dict(version, srs, bbox(xy order), size, format, layers, transparent, bgcolor, dims) or raises"""
    p = call.params
    ver = p.get('version', p.get('wmtver', '1.1.1'))
    srs = p.get('crs') if ver == '1.3.0' else p.get('srs')
    if srs is None:
        srs = p.get('srs') or p.get('crs')
    b = [float(v) for v in p['bbox'].split(',')]
    if ver == '1.3.0' and srs and northing_first(srs):
        b = [b[1], b[0], b[3], b[2]]
    w, h = int(p['width']), int(p['height'])
    known = {'service', 'version', 'request', 'srs', 'crs', 'bbox', 'width', 'height', 'format', 'layers', 'styles',
             'transparent', 'bgcolor', 'exceptions', 'query_layers', 'info_format', 'x', 'y', 'i', 'j',
             'feature_count', 'wmtver', 'sld', 'sld_body'}
    return {'version': ver, 'srs': srs, 'bbox': tuple(b), 'size': (w, h), 'format': p.get('format'),
            'layers': p.get('layers', '').split(','), 'transparent': p.get('transparent', 'false').lower() == 'true',
            'bgcolor': p.get('bgcolor'), 'extra_params': {k: v for k, v in p.items() if k not in known}}


# ---- NOISE ---------------------------------------------------------------------------------------------------------

class Lattice(object):
    """pixel lattice of a tile grid: bbox, resolutions, origin ('ll'|'ul'); taken from the loaded grid object"""

    def __init__(self, bbox, resolutions, origin='ll', tile_size=(256, 256)):
        self.bbox = tuple(float(v) for v in bbox)
        self.res = [float(r) for r in resolutions]
        self.ul = origin in ('ul', 'nw')
        self.tile_size = tuple(tile_size)

    @classmethod
    def from_grid(cls, grid):
        return cls(grid.bbox, [grid.resolution(z) for z in range(grid.levels)], grid.origin, grid.tile_size)

    def level_for(self, res):
        best = min(range(len(self.res)), key=lambda k: abs(math.log(res / self.res[k])))
        off = abs(res / self.res[best] - 1.0)
        return best, off

    def cells(self, level, bbox, size):
        """global (col, row) lattice cell of every pixel centre of the image (arrays h x w)"""
        w, h = size
        r = self.res[level]
        rx = (bbox[2] - bbox[0]) / w
        ry = (bbox[3] - bbox[1]) / h
        xc = bbox[0] + (np.arange(w, dtype=np.float64) + 0.5) * rx
        yc = bbox[3] - (np.arange(h, dtype=np.float64) + 0.5) * ry
        gx = np.floor((xc - self.bbox[0]) / r).astype(np.int64)
        if self.ul:
            gy = np.floor((self.bbox[3] - yc) / r).astype(np.int64)
        else:
            gy = np.floor((yc - self.bbox[1]) / r).astype(np.int64)
        return np.broadcast_to(gx[None, :], (h, w)), np.broadcast_to(gy[:, None], (h, w))


def noise_rgb(level, gx, gy, epoch=0):
    """uint8 array (h, w, 3); never pure white (blue channel is even)"""
    M = np.uint64(0xFFFFFFFFFFFFFFFF)
    h = (gx.astype(np.uint64) * np.uint64(73856093)) ^ (gy.astype(np.uint64) * np.uint64(19349663)) ^ \
        np.uint64((level + 1) * 83492791) ^ np.uint64((epoch + 1) * 2654435761)
    h = h & M
    h ^= (h >> np.uint64(13))
    h = (h * np.uint64(0x5bd1e995)) & M
    h ^= (h >> np.uint64(15))
    h = (h * np.uint64(0x2545F491)) & M
    h ^= (h >> np.uint64(17))
    out = np.empty(gx.shape + (3,), dtype=np.uint8)
    out[..., 0] = (h & np.uint64(0xFF)).astype(np.uint8)
    out[..., 1] = ((h >> np.uint64(8)) & np.uint64(0xFF)).astype(np.uint8)
    out[..., 2] = ((h >> np.uint64(16)) & np.uint64(0xFE)).astype(np.uint8)
    return out


def noise_image(lat, bbox, size, epoch=0, level=None):
    """expected/rendered content for a request rectangle. returns (array h,w,3, level, offgrid_rel)"""
    res = (bbox[2] - bbox[0]) / size[0]
    resy = (bbox[3] - bbox[1]) / size[1]
    lv, off = lat.level_for(res)
    if level is not None:
        lv = level
    off = max(abs(res / lat.res[lv] - 1.0), abs(resy / lat.res[lv] - 1.0))
    gx, gy = lat.cells(lv, bbox, size)
    return noise_rgb(lv, gx, gy, epoch), lv, off


def encode(arr, fmt='image/png'):
    from PIL import Image
    img = Image.fromarray(arr, 'RGB' if arr.shape[2] == 3 else 'RGBA')
    b = io.BytesIO()
    if 'jpeg' in fmt or 'jpg' in fmt:
        img.convert('RGB').save(b, 'JPEG', quality=95)
    elif 'tiff' in fmt:
        img.save(b, 'TIFF')
    elif 'gif' in fmt:
        img.save(b, 'GIF')
    else:
        img.save(b, 'PNG', compress_level=1)
    return b.getvalue()


def decode(data):
    from PIL import Image
    img = Image.open(io.BytesIO(data))
    img.load()
    return img


class NoiseWMS(object):
    """WMS upstream whose content is NOISE on `lattice` (in the lattice's SRS only; other SRS -> service exception)"""

    def __init__(self, lattice, srs_codes, state=None):
        self.lat = lattice
        self.srs_codes = set(c.upper() for c in srs_codes)
        self.state = state if state is not None else {'epoch': 0}

    def __call__(self, call):
        if call.kind != 'getmap':
            return Resp(b'<ServiceExceptionReport><ServiceException>unsupported</ServiceException></ServiceExceptionReport>',
                        'application/vnd.ogc.se_xml', 200)
        try:
            q = parse_getmap(call)
        except Exception as ex:
            return Resp(('<ServiceExceptionReport><ServiceException>bad request %s</ServiceException></ServiceExceptionReport>' % ex).encode(),
                        'application/vnd.ogc.se_xml', 200)
        call.extra['q'] = q
        if q['size'][0] <= 0 or q['size'][1] <= 0 or q['bbox'][2] <= q['bbox'][0] or q['bbox'][3] <= q['bbox'][1]:
            call.extra['invalid'] = True
            return Resp(b'<ServiceExceptionReport><ServiceException>invalid size/bbox</ServiceException></ServiceExceptionReport>',
                        'application/vnd.ogc.se_xml', 200)
        if (q['srs'] or '').upper() not in self.srs_codes:
            return Resp(b'<ServiceExceptionReport><ServiceException code="InvalidSRS">srs</ServiceException></ServiceExceptionReport>',
                        'application/vnd.ogc.se_xml', 200)
        arr, lv, off = noise_image(self.lat, q['bbox'], q['size'], self.state['epoch'])
        call.extra['level'] = lv
        call.extra['offgrid'] = off
        call.extra['epoch'] = self.state['epoch']
        fmt = q['format'] or 'image/png'
        a = self.state.get('alpha')
        if a and arr.shape[2] == 3 and 'png' in fmt:
            # a half transparent overlay: the same NOISE colours with one constant alpha value
            import numpy as _np
            arr = _np.dstack([arr, _np.full(arr.shape[:2], int(a), dtype=arr.dtype)])
        return Resp(encode(arr, fmt), fmt.split(';')[0])


class NoiseTiles(object):
    """tile upstream: path .../<z>/<x>/<y>.<ext> addressed in `lattice`'s own grid with its own origin"""

    def __init__(self, lattice, grid_sizes, state=None, order='zxy'):
        self.lat = lattice
        self.grid_sizes = grid_sizes
        self.state = state if state is not None else {'epoch': 0}
        self.order = order

    def tile_bbox(self, x, y, z):
        r = self.lat.res[z]
        tw, th = self.lat.tile_size
        x0 = self.lat.bbox[0] + x * r * tw
        if self.lat.ul:
            y1 = self.lat.bbox[3] - y * r * th
            y0 = y1 - r * th
        else:
            y0 = self.lat.bbox[1] + y * r * th
            y1 = y0 + r * th
        return (x0, y0, x0 + r * tw, y1)

    def __call__(self, call):
        parts = call.path.strip('/').split('/')
        try:
            nums = parts[-3:]
            ext = nums[2].rsplit('.', 1)[1] if '.' in nums[2] else 'png'
            nums[2] = nums[2].rsplit('.', 1)[0]
            a, b, c = [int(v) for v in nums]
        except Exception:
            return Resp(b'bad tile path', 'text/plain', 400)
        z, x, y = (a, b, c) if self.order == 'zxy' else (a, c, b)
        call.extra['tile'] = (x, y, z)
        if z < 0 or z >= len(self.lat.res) or x < 0 or y < 0 or x >= self.grid_sizes[z][0] or y >= self.grid_sizes[z][1]:
            call.extra['outside'] = True
            return Resp(b'no such tile', 'text/plain', 404)
        bbox = self.tile_bbox(x, y, z)
        arr, lv, off = noise_image(self.lat, bbox, self.lat.tile_size, self.state['epoch'], level=z)
        call.extra['epoch'] = self.state['epoch']
        return Resp(encode(arr, 'image/' + ext), 'image/' + ('jpeg' if ext in ('jpg', 'jpeg') else ext))
