"""C08 - concurrent requests for one uncached tile: all correct, one upstream fetch.

Cooperative mode: 2-6 logical clients (controlled threads) issue tile / map requests against one real app; the
scheduler owns every cache read/write (proxy around the backend), every lock operation (real FileLock through
vlib.lockpoints), the file-system calls of write_atomic / compact bundles, and the upstream call (enter + return).
Stress mode: forked processes with their own app share one cache directory and hammer the same tiles with random
delays; the upstream log is a shared append-only file."""
import json
import os
import random as _random
import shutil
import sys
import time

import numpy as np

from vlib import core, upstream, scenario, sched, lockpoints
from checks import c04

PID = 'C08'
LEVEL = 'exploration'
BUDGET_S = {'quick': 50, 'thorough': 700}
FLOORS = {'quick': {'schedules': 1500, 'contended_schedules': 900, 'responses_judged': 5000, 'sweeps': 900,
                    'single_fetch_checks': 2000, 'cross_block_probes': 60, 'stress_rounds': 6, 'thread_stress_rounds': 60, 'thread_stress_requests': 1200, 'thread_stress_rounds_with_several_dimension_values': 10, 'stress_rounds_fresh_interpreters': 6, 'fault_runs_three_or_more_on_one_meta_tile': 90,
                    'partial_meta_runs': 80},
          'thorough': {'schedules': 40000, 'contended_schedules': 25000, 'responses_judged': 150000, 'sweeps': 40000,
                       'single_fetch_checks': 60000, 'cross_block_probes': 1500, 'stress_rounds': 120, 'thread_stress_rounds': 1100, 'thread_stress_requests': 22000, 'thread_stress_rounds_with_several_dimension_values': 150,
                       'fault_runs_three_or_more_on_one_meta_tile': 2000, 'partial_meta_runs': 1800}}
RULE = ("case = one forced schedule of 2-6 clients requesting the same tile / tiles of the same meta tile / tiles of "
        "two different meta tiles (TMS, tile_manager batches, WMS GetMap) on an empty cache, for one configuration "
        "(backend file|sqlite|compact v2, meta 1x1..3x2, buffer, WMS or bulk tile source). evaluations = responses "
        "compared with NOISE + final cache sweeps + per-meta-tile fetch counts; distinct = (configuration, schedule "
        "trace); non-trivial = at least two clients were between their first cache read and their response at the same "
        "time. Plus 'cross-block probes' (client A is held inside the upstream, client B for another meta tile must "
        "finish), multi-process stress rounds with injected delays, and preemptive multi-thread stress rounds (3-6 real request "
        "threads on one application, interpreter switch interval 1 microsecond; variants: plain, linked single-colour tiles, "
        "expired tiles, cache coverage, dimension values as part of the tile address)")
ASSUMPTIONS = [
    "scheduling points: cache backend calls, FileLock open/flock/stat/close/remove/sleep, os.open/rename/unlink of "
    "write_atomic and the compact bundle code, upstream enter/return; python between them is atomic in cooperative mode",
    "threads stand in for processes in cooperative mode (flock is per open file description); real processes in stress mode",
    "NOISE upstream is deterministic, so a second fetch would be invisible in the picture: fetches are counted in the log",
]


class CacheProxy(object):
    def __init__(self, cache):
        self._c = cache
        self.stored = []

    def _wrap(name):
        def f(self, *a, **kw):
            sched.point(name)
            if name in ('store_tile', 'store_tiles'):
                tiles = [a[0]] if name == 'store_tile' else list(a[0])
                self.stored.append([t.coord for t in tiles])
            return getattr(self._c, name)(*a, **kw)
        return f
    for _n in ('is_cached', 'load_tile', 'load_tiles', 'store_tile', 'store_tiles', 'load_tile_metadata', 'remove_tile'):
        locals()[_n] = _wrap(_n)
    del _n, _wrap

    def __getattr__(self, k):
        return getattr(self._c, k)


_FS = False


def install_fs_points():
    global _FS
    if _FS:
        return
    from mapproxy.util import fs
    from mapproxy.cache import compact, file as filecache
    fs.os = lockpoints.OsProxy({'open', 'rename', 'unlink', 'mkdir'})
    compact.os = lockpoints.OsProxy({'rename', 'unlink', 'remove'})
    filecache.os = lockpoints.OsProxy({'unlink', 'link', 'symlink', 'remove'})
    _FS = True


def gen_conf(rng):
    srs = rng.choice(['EPSG:3857', 'EPSG:25832'])
    if srs == 'EPSG:3857':
        bbox = [-20037508.342789244, -20037508.342789244, 20037508.342789244, 20037508.342789244]
    else:
        bbox = [300000.0, 5300000.0, 700000.0, 5900000.0]
    grid = {'srs': srs, 'bbox': bbox, 'tile_size': [32, 32], 'origin': rng.choice(['ll', 'ul']), 'num_levels': 5}
    src_kind = rng.choice(['wms', 'wms', 'tile'])
    cache = {'grids': ['g'], 'sources': ['src'], 'format': 'image/png', 'request_format': 'image/png',
             'meta_size': rng.choice([[1, 1], [2, 2], [2, 2], [3, 2]]), 'meta_buffer': rng.choice([0, 0, 10]),
             'minimize_meta_requests': False, 'concurrent_tile_creators': 1}
    if src_kind == 'tile':
        cache['bulk_meta_tiles'] = rng.random() < 0.5
        cache['meta_buffer'] = 0
    backend = rng.choice(['file', 'file', 'sqlite', 'compact', 'compact', 'compact1'])
    if backend == 'sqlite':
        cache['cache'] = {'type': 'sqlite'}
    elif backend == 'compact':
        cache['cache'] = {'type': 'compact', 'version': 2}
    elif backend == 'compact1':
        cache['cache'] = {'type': 'compact', 'version': 1}
    else:
        cache['cache'] = {'type': 'file', 'directory_layout': 'tc'}
    return {'grid': grid, 'cache': cache, 'src_kind': src_kind, 'lclass': 'f2', 'bclass': 'regional', 'backend': backend}


def meta_block(spec, grid, coord):
    x, y, z = coord
    nx, ny = grid.grid_sizes[z]
    mx, my = spec['cache']['meta_size']
    if spec['src_kind'] == 'tile' and not spec['cache'].get('bulk_meta_tiles'):
        mx, my = 1, 1
    mx, my = min(mx, nx), min(my, ny)
    return (x // mx, y // my, z), [(xx, yy, z) for xx in range(x // mx * mx, min(nx, x // mx * mx + mx))
                                   for yy in range(y // my * my, min(ny, y // my * my + my))]


def plan_clients(rng, spec, grid, z):
    """returns list of client requests: ('tms', coord) | ('batch', [coords]) ; and the meta blocks they touch"""
    nx, ny = grid.grid_sizes[z]
    a = (rng.randrange(nx), rng.randrange(ny), z)
    blkA, tilesA = meta_block(spec, grid, a)
    # a tile of a different meta tile (same bundle / level db for the shared backends)
    for _ in range(20):
        b = (rng.randrange(nx), rng.randrange(ny), z)
        blkB, tilesB = meta_block(spec, grid, b)
        if blkB != blkA:
            break
    else:
        b, blkB, tilesB = a, blkA, tilesA
    k = rng.randint(2, 6)
    shape = rng.choice(['same_tile', 'same_meta', 'two_metas', 'two_metas', 'partial_meta'])
    clients = []
    for i in range(k):
        if shape == 'same_tile':
            c = a
        elif shape == 'partial_meta':
            # tilesA[0] stays cached from an earlier request, the rest of the meta tile was removed (expiry, cleanup,
            # crash in the middle of a bulk store): everybody wants the removed tiles
            c = rng.choice(tilesA[1:] or tilesA)
        elif shape == 'same_meta':
            c = rng.choice(tilesA)
        else:
            c = rng.choice(tilesA) if i % 2 == 0 else rng.choice(tilesB)
        kind = rng.choice(['tms', 'tms', 'batch'])
        if kind == 'batch':
            blk, tiles = meta_block(spec, grid, c)
            clients.append(('batch', rng.sample(tiles, rng.randint(1, len(tiles)))))
        else:
            clients.append(('tms', c))
    if shape == 'partial_meta' and len(tilesA) < 2:
        shape = 'same_tile'
    return clients, shape


class OneRun(object):
    def __init__(self, run, spec, clients, chooser, d, hold=None, fault=None, partial=False):
        self.run = run
        self.spec = spec
        self.clients = clients
        self.chooser = chooser
        self.d = d
        self.hold = hold          # (holder client index) : held at upstream-enter until all others are done
        self.fault = fault        # fail the first upstream call
        self.partial = partial
        self.problems = []
        self.responses = {}
        self.active = set()
        self.max_active = 0
        self.done = set()

    def client(self, i, req):
        tm = self.tm
        kind, arg = req
        self.active.add(i)
        self.max_active = max(self.max_active, len(self.active))
        try:
            if kind == 'tms':
                x, y, z = arg
                # /tiles/ addresses internal levels (no profile level shift); rows in the grid's own origin
                r = self.sc.get('%s/%d/%d/%d.png?origin=%s' % (self.tiles_path, z, x, y, 'nw' if self.grid.origin != 'll' else 'sw'))
                self.responses[i] = ('tms', arg, r.code, r.body)
            else:
                with tm.session():
                    tc = tm.load_tile_coords(list(arg))
                out = []
                for c in arg:
                    t = tc[c]
                    out.append((c, None if t.source is None else t.source.as_image().copy()))
                self.responses[i] = ('batch', arg, 200, out)
        finally:
            self.active.discard(i)
            self.done.add(i)

    def execute(self):
        import re
        lockpoints.install()
        lockpoints.install_thread_locks()
        install_fs_points()
        lockpoints.STATE['vtime'] = 1000.0
        up = upstream.install()
        self.sc, self.grid, self.lat = c04.build(self.run, self.spec, self.d)
        sc = self.sc
        m = re.search(r'href="http://localhost(/tms/1\.0\.0/[^"]+)"', sc.get('/tms/1.0.0/').body.decode())
        self.tms_path = m.group(1)
        self.tiles_path = self.tms_path.replace('/tms/1.0.0/', '/tiles/')
        self.tm = tm = sc.tile_manager('c')
        self.proxy = CacheProxy(tm.cache)
        if self.partial:
            # earlier life of the cache: the meta tile of the first client was created, then all but one of its tiles
            # disappeared again
            c0 = self.clients[0][1] if self.clients[0][0] == 'tms' else self.clients[0][1][0]
            blk, tiles = meta_block(self.spec, self.grid, c0)
            from mapproxy.cache.tile import Tile
            with tm.session():
                tm.load_tile_coords([tiles[0]])
            for c in tiles[1:]:
                tm.cache.remove_tile(Tile(c))
            tm.cleanup()
        tm.cache = self.proxy
        up.reset_log()
        nfault = [1 if self.fault else 0]
        held = {'waiting': False}

        def before(call):
            s = sched.CUR
            me = s.me() if s else None
            if me is None:
                return
            if self.hold is not None and me.name == 'c%d' % self.hold:
                held['waiting'] = True
                others = ['c%d' % j for j in range(len(self.clients)) if j != self.hold]
                sched.point('upstream-held', enabled=lambda: all(int(o[1:]) in self.done for o in others))
                held['waiting'] = False
            else:
                sched.point('upstream')

        def after(call, resp):
            sched.point('upstream-return')
        up.before = before
        up.after = after
        if self.fault:
            def f(call):
                if nfault[0] > 0:
                    nfault[0] -= 1
                    return upstream.Resp(b'boom', 'text/plain', 500)
                return None
            up.faults['noise'] = f
            up.faults['ntiles'] = f
        s = sched.Sched(self.chooser, max_steps=4000, watchdog_s=30)
        self.sched = s
        for i, req in enumerate(self.clients):
            s.spawn('c%d' % i, (lambda i=i, req=req: self.client(i, req)))
        self.outcome = 'ok'
        try:
            s.run()
        except sched.Deadlock as ex:
            self.outcome = 'deadlock'
            if self.hold is not None and held['waiting']:
                self.problems.append(('cross_blocking', 'client c%d is inside the upstream for its meta tile and the '
                                      'other clients cannot finish: %s' % (self.hold, ex)))
            else:
                self.problems.append(('deadlock', str(ex)))
        except sched.StepLimit:
            self.outcome = 'steplimit'
        except sched.Watchdog as ex:
            self.outcome = 'watchdog'
        finally:
            up.before = None
            up.after = None
            up.faults.clear()
        self.calls = list(up.log)
        for t in s.threads.values():
            if t.exc is not None and not self.fault:
                self.problems.append(('exception', '%s: %r' % (t.name, t.exc)))
        if self.outcome == 'ok':
            self.judge()
        try:
            tm.cleanup()
        except Exception:
            pass

    def judge(self):
        run, spec, grid, lat = self.run, self.spec, self.grid, self.lat
        touched = {}
        for i, req in enumerate(self.clients):
            coords = [req[1]] if req[0] == 'tms' else list(req[1])
            for c in coords:
                blk, tiles = meta_block(spec, grid, c)
                touched[blk] = tiles
            resp = self.responses.get(i)
            if resp is None:
                if not self.fault:
                    self.problems.append(('no_response', 'client %d got no response' % i))
                continue
            kind, arg, code, body = resp
            if kind == 'tms':
                if code != 200:
                    if not self.fault:
                        self.problems.append(('status', 'client %d: tms %r -> %d' % (i, arg, code)))
                    continue
                try:
                    img = upstream.decode(body)
                except Exception as ex:
                    self.problems.append(('undecodable', 'client %d: %r' % (i, ex)))
                    continue
                ok, detail, n, exact = c04.judge_tile(lat, arg, img, True)
                run.hit('responses_judged')
                if not ok:
                    self.problems.append(('wrong_image', 'client %d tile %r: %s' % (i, arg, detail)))
            else:
                for c, img in body:
                    if img is None:
                        if not self.fault:
                            self.problems.append(('no_image', 'client %d: batch tile %r without image' % (i, c)))
                        continue
                    ok, detail, n, exact = c04.judge_tile(lat, c, img, True)
                    run.hit('responses_judged')
                    if not ok:
                        self.problems.append(('wrong_image', 'client %d tile %r: %s' % (i, c, detail)))
        # final cache: exactly the tiles of the touched meta tiles, all correct (fresh, unproxied reads)
        from mapproxy.cache.tile import Tile
        cache = self.proxy._c
        want = set(c for tiles in touched.values() for c in tiles)
        z = list(want)[0][2]
        nx, ny = grid.grid_sizes[z]
        run.hit('sweeps')
        if not self.fault:
            for c in sorted(want):
                t = Tile(c)
                cache.load_tile(t)
                if t.source is None:
                    self.problems.append(('tile_missing_in_cache', 'tile %r of a fetched meta tile is not in the cache' % (c,)))
                    continue
                ok, detail, n, exact = c04.judge_tile(lat, c, t.source.as_image(), True)
                if not ok:
                    self.problems.append(('wrong_tile_in_cache', 'cached tile %r: %s' % (c, detail)))
        extra = 0
        for xx in range(nx):
            for yy in range(ny):
                c = (xx, yy, z)
                if c in want:
                    continue
                if cache.is_cached(Tile(c)):
                    extra += 1
                    self.problems.append(('unexpected_tile_in_cache', 'tile %r is cached although nobody asked for its meta tile' % (c,)))
                    break
            if extra:
                break
        # upstream fetches per meta tile
        per_blk = {}
        for call in self.calls:
            if call.host == 'noise' and 'q' in call.extra:
                q = call.extra['q']
                cx = (q['bbox'][0] + q['bbox'][2]) / 2
                cy = (q['bbox'][1] + q['bbox'][3]) / 2
                res = lat.res[z]
                tx = int((cx - lat.bbox[0]) // (res * lat.tile_size[0]))
                ty = int(((lat.bbox[3] - cy) if lat.ul else (cy - lat.bbox[1])) // (res * lat.tile_size[1]))
                blk, _ = meta_block(spec, grid, (min(max(tx, 0), nx - 1), min(max(ty, 0), ny - 1), z))
                per_blk[blk] = per_blk.get(blk, 0) + 1
            elif call.host == 'ntiles' and 'tile' in call.extra:
                per_blk[('tile',) + tuple(call.extra['tile'])] = per_blk.get(('tile',) + tuple(call.extra['tile']), 0) + 1
        for blk, n in per_blk.items():
            run.hit('single_fetch_checks')
            # only answered upstream requests are counted here (the injected failure is not), so one per meta tile
            limit = 1
            if n > limit:
                self.problems.append(('multiple_fetches', '%d upstream requests for %r (clients %r)' % (n, blk, self.clients)))
        if not self.fault and spec['src_kind'] == 'wms':
            for blk in touched:
                if blk not in per_blk:
                    self.problems.append(('no_fetch_recorded', 'meta tile %r has tiles in responses but no upstream request' % (blk,)))


def gen_cases(run):
    n = run.pick(200, 4200)
    for i in range(n):
        yield {'kind': 'sched', 'i': i}
    for i in range(run.pick(28, 400)):
        yield {'kind': 'stress', 'i': i}
    for i in range(run.pick(160, 3000)):
        yield {'kind': 'tstress', 'i': i}


def record(run, case, one, spec, shape):
    run.hit('schedules')
    contended = one.max_active >= 2
    if contended:
        run.hit('contended_schedules')
    if one.hold is not None:
        run.hit('cross_block_probes')
    if one.fault:
        run.hit('fault_runs')
        if shape in ('same_tile', 'same_meta') and len(one.clients) >= 3:
            run.hit('fault_runs_three_or_more_on_one_meta_tile')
    if one.partial:
        run.hit('partial_meta_runs')
    if one.outcome in ('steplimit', 'watchdog'):
        run.dc('run_cut_by_' + one.outcome)
    cfg = (spec['backend'], tuple(spec['cache']['meta_size']), spec['cache']['meta_buffer'], spec['src_kind'],
           bool(spec['cache'].get('bulk_meta_tiles')), shape, one.hold is not None, bool(one.fault))
    run.judge((cfg, core.jhash(one.sched.trace)), nontrivial=contended)
    run.count('steps', len(one.sched.trace))
    seen = set()
    for kind, detail in one.problems:
        if kind in seen:
            continue
        seen.add(kind)
        mech = {'problem': kind, 'backend': spec['backend'], 'src': spec['src_kind'], 'meta': spec['cache']['meta_size'],
                'shape': shape, 'hold': one.hold is not None, 'fault': bool(one.fault)}
        rc = dict(case, spec=spec, clients=one.clients, replay_trace=[t[0] for t in one.sched.trace],
                  hold=one.hold, fault=one.fault, partial=one.partial)
        run.violation(mech, rc, '%s: %s | clients=%r | trace tail=%r' % (kind, detail, one.clients, one.sched.trace[-40:]))


def run_case(run, case):
    if case['kind'] == 'stress':
        return run_stress(run, case)
    if case['kind'] == 'tstress':
        return run_tstress(run, case)
    rng = run.rng('c', case['i'])
    spec = case.get('spec') or gen_conf(rng)
    # the grid is needed to plan clients: build a throw-away scenario cheaply via c04.build inside OneRun; plan from a grid object
    from mapproxy.grid import tile_grid
    g = spec['grid']
    grid = tile_grid(srs=g['srs'], bbox=tuple(g['bbox']), tile_size=tuple(g['tile_size']), origin=g['origin'],
                     num_levels=g['num_levels'])
    z = rng.choice([2, 3, 4])
    if 'clients' in case:
        clients = [(k, tuple(a) if k == 'tms' else [tuple(c) for c in a]) for k, a in case['clients']]
        shape = 'replay'
    else:
        clients, shape = plan_clients(rng, spec, grid, z)
    reps = 1 if 'clients' in case else run.pick(9, 10)
    for r in range(reps):
        d = run.subdir('c08')
        try:
            srng = run.rng('s', case['i'], r)
            if 'replay_trace' in case and run.replaying:
                ch = sched.ReplayChooser(case['replay_trace'])
                hold, fault = case.get('hold'), case.get('fault')
            else:
                st = srng.randrange(3)   # independent of the fault/hold pattern, which also depends on r
                ch = sched.RandomChooser(srng) if st == 0 else (
                    sched.RandomChooser(srng, stickiness=0.7) if st == 1 else
                    sched.PCTChooser(srng, depth=srng.randint(1, 4), est_steps=80))
                hold = None
                fault = None
                if shape == 'two_metas' and r % 4 == 3:
                    hold = 0
                elif r % 9 == 8 or (shape in ('same_tile', 'same_meta') and len(clients) >= 3 and r % 3 == 2):
                    fault = True
            one = OneRun(run, spec, clients, ch, d, hold=hold, fault=fault,
                         partial=(shape == 'partial_meta' or case.get('partial')))
            one.execute()
            record(run, case, one, spec, shape)
            if case['i'] == 0 and r == 0:
                run.sample({'config': spec, 'clients': clients, 'trace_head': one.sched.trace[:50],
                            'upstream_calls': len(one.calls), 'outcome': one.outcome})
        finally:
            shutil.rmtree(d, ignore_errors=True)


# ---- multi-process stress -------------------------------------------------------------------------------------

def stress_child(spec, d, reqs, seed, logpath, start_at=None):
    """runs in a forked child: own app on the shared directory; upstream calls appended to a shared file"""
    rng = _random.Random(seed)
    up = upstream.install()
    run = core.Run(PID, LEVEL)
    sc, grid, lat = c04.build(run, spec, d, name='mapproxy-%d' % os.getpid())
    tm = sc.tile_manager('c')

    def before(call):
        with open(logpath, 'a') as f:
            f.write('%s %s\n' % (call.host, call.url))
        time.sleep(rng.choice([0, 0.001, 0.005, 0.02]))
    up.before = before
    bad = []
    if start_at:
        # freshly started interpreters need different times to come up: all start their requests at the same moment
        time.sleep(max(0.0, start_at - time.time()))
    for c in reqs:
        time.sleep(rng.choice([0, 0, 0.001, 0.003]))
        with tm.session():
            t = tm.load_tile_coord(tuple(c))
        if t.source is None:
            bad.append('no image for %r' % (c,))
            continue
        ok, detail, n, exact = c04.judge_tile(lat, tuple(c), t.source.as_image(), True)
        if not ok:
            bad.append('tile %r: %s' % (c, detail))
    return bad


def run_stress(run, case):
    import json
    rng = run.rng('stress', case['i'])
    spec = case.get('spec') or gen_conf(rng)
    spec['cache']['meta_buffer'] = 0
    d = run.subdir('c08s')
    try:
        from mapproxy.grid import tile_grid
        g = spec['grid']
        grid = tile_grid(srs=g['srs'], bbox=tuple(g['bbox']), tile_size=tuple(g['tile_size']), origin=g['origin'],
                         num_levels=g['num_levels'])
        z = 3
        nx, ny = grid.grid_sizes[z]
        coords = [(rng.randrange(nx), rng.randrange(ny), z) for _ in range(3)]
        nproc = rng.randint(2, 5)
        logpath = os.path.join(d, 'upstream.log')
        open(logpath, 'w').close()
        # make sure config + dirs exist before forking (the loader writes nothing else)
        os.makedirs(os.path.join(d, 'cache_data'), exist_ok=True)
        pids = []
        pipes = []
        # half of the rounds start FRESH interpreters (own hash salt, nothing inherited): what independently started server
        # processes or a seeding tool next to the server look like; the other half forks
        spawn = case.get('spawn', case['i'] % 2 == 1)
        if spawn:
            import subprocess
            env = dict(os.environ)
            env.pop('PYTHONHASHSEED', None)
            procs = []
            t_start = time.time() + 4.0
            for p in range(nproc):
                reqs = [rng.choice(coords) for _ in range(4)]
                args = {'spec': spec, 'd': d, 'reqs': reqs, 'seed': rng.random() + p, 'logpath': logpath, 'start_at': t_start}
                procs.append(subprocess.Popen([sys.executable, '-m', 'checks.c08_child', json.dumps(args)], env=env,
                                              cwd=os.path.dirname(os.path.dirname(os.path.abspath(__file__))),
                                              stdout=subprocess.PIPE, stderr=subprocess.DEVNULL))
            problems = []
            for pr in procs:
                try:
                    out, _ = pr.communicate(timeout=180)
                except subprocess.TimeoutExpired:
                    pr.kill()
                    out = b''
                line = [l for l in out.decode('utf-8', 'replace').splitlines() if l.startswith('C08CHILD ')]
                if not line:
                    run.dc('spawned_child_gave_no_report')
                    continue
                problems += json.loads(line[-1][len('C08CHILD '):])
            run.hit('stress_rounds_fresh_interpreters')
        for p in range(0 if spawn else nproc):
            reqs = [rng.choice(coords) for _ in range(4)]
            r, w = os.pipe()
            pid = os.fork()
            if pid == 0:
                code = 0
                try:
                    os.close(r)
                    bad = stress_child(spec, d, reqs, rng.random() + p, logpath)
                    os.write(w, json.dumps(bad).encode())
                except BaseException as ex:   # noqa
                    import traceback
                    os.write(w, json.dumps(['child exception %r %s' % (ex, traceback.format_exc()[-800:])]).encode())
                    code = 1
                finally:
                    os._exit(code)
            os.close(w)
            pids.append(pid)
            pipes.append(r)
        if not spawn:
            problems = []
        for pid, r in zip(pids, pipes):
            data = b''
            while True:
                c = os.read(r, 65536)
                if not c:
                    break
                data += c
            os.close(r)
            os.waitpid(pid, 0)
            try:
                problems += json.loads(data.decode() or '[]')
            except Exception:
                problems.append('unreadable child report')
        run.hit('stress_rounds')
        run.judge((spec['backend'], tuple(spec['cache']['meta_size']), spec['src_kind'], 'stress', nproc), nontrivial=True)
        # fetch counts per meta tile across processes
        per = {}
        lat = None
        with open(logpath) as f:
            lines = [l.strip() for l in f if l.strip()]
        per = {}
        for l in lines:
            per[l] = per.get(l, 0) + 1
        for url, n in per.items():
            run.hit('single_fetch_checks')
            if n > 1:
                problems.append('%d identical upstream requests across processes: %s' % (n, url[:200]))
        for pdesc in problems[:3]:
            kind = 'multiple_fetches' if 'identical upstream' in pdesc else ('exception' if 'child exception' in pdesc else 'wrong_image')
            run.violation({'problem': kind, 'backend': spec['backend'], 'src': spec['src_kind'],
                           'meta': spec['cache']['meta_size'], 'mode': 'multiprocess_stress', 'fresh_interpreters': bool(spawn)},
                          dict(case, spec=spec), pdesc)
    finally:
        shutil.rmtree(d, ignore_errors=True)


# ---- preemptive multi-thread stress -------------------------------------------------------------------------------
# Request threads of one process share the application objects (tile manager, meta grid, cache object, locker). The
# cooperative scheduler only switches at the instrumented calls; here real threads run with a switch interval of one
# microsecond, so the interpreter changes threads between almost any two bytecodes: in-memory state shared between
# requests (memoised values, lazily created members) is exposed. Verdicts only from what is observable without timing:
# every tile returned is the right picture, nothing raises, no upstream request is issued twice.

def run_tstress(run, case):
    import threading
    import traceback
    rng = run.rng('tstress', case['i'])
    spec = case.get('spec') or gen_conf(rng)
    spec['cache']['meta_buffer'] = 0
    # variants: plain | flat_linked (single-coloured upstream, tiles are links to one shared colour file that every request
    # for that colour writes) | expired (the tiles exist but are older than the refresh threshold: the re-check under the
    # tile lock has to see what another request stored meanwhile)
    variant = case.get('variant') or rng.choice(['plain', 'plain', 'flat_linked', 'expired', 'cache_coverage', 'dimensions'])
    if variant == 'flat_linked':
        spec['backend'] = 'file'
        spec['cache']['cache'] = {'type': 'file', 'directory_layout': rng.choice(['tc', 'tms', 'quadkey'])}
        spec['cache']['link_single_color_images'] = rng.choice([True, True, 'hardlink'])
    elif variant == 'cache_coverage':
        # the cache itself has a coverage that cuts through meta tiles: tiles outside it are neither loaded nor needed, the
        # re-check under the lock must still find the meta tile complete
        spec['backend'] = 'file'
        gb = spec['grid']['bbox']
        gw, gh = gb[2] - gb[0], gb[3] - gb[1]
        cov = [gb[0] + gw * rng.uniform(0.18, 0.32), gb[1] + gh * rng.uniform(0.18, 0.32),
               gb[2] - gw * rng.uniform(0.18, 0.32), gb[3] - gh * rng.uniform(0.18, 0.32)]
        spec['cache']['cache'] = {'type': 'file', 'directory_layout': 'tc', 'coverage': {'bbox': cov, 'srs': spec['grid']['srs']}}
        if spec['cache']['meta_size'] == [1, 1]:
            spec['cache']['meta_size'] = [2, 2]
    elif variant == 'dimensions':
        # the tile address includes the dimension value (layers with `dimensions`, file caches): requests for one tile
        # coordinate with different TIME values are requests for different tiles
        spec['backend'] = 'file'
        spec['src_kind'] = 'wms'
        spec['dims'] = True
        spec['cache']['cache'] = {'type': 'file', 'directory_layout': rng.choice(['tc', 'tms', 'arcgis'])}
        if rng.random() < 0.6:
            spec['cache']['meta_size'] = [1, 1]
    elif variant == 'expired':
        spec['backend'] = 'file'
        spec['cache']['cache'] = {'type': 'file', 'directory_layout': 'tc'}
        T0 = int(time.time()) - 30 * 86400
        spec['cache']['refresh_before'] = {'time': time.strftime('%Y-%m-%dT%H:%M:%S', time.localtime(T0))}
        if rng.random() < 0.6:
            spec['cache']['meta_size'] = [1, 1]
    d = run.subdir('c08t')
    up = upstream.install()
    old_before, old_after = up.before, up.after
    old_switch = sys.getswitchinterval()
    try:
        sc, grid, lat = c04.build(run, spec, d, name='mapproxy-t%d' % os.getpid())
        tm = sc.tile_manager('c')
        z = min(3, grid.levels - 1)
        nx, ny = grid.grid_sizes[z]
        coords = sorted(set((rng.randrange(nx), rng.randrange(ny), z) for _ in range(rng.randint(3, 6))))
        if variant == 'cache_coverage':
            cov = spec['cache']['cache']['coverage']['bbox']

            def inside(c):
                b = grid.tile_bbox(c)
                return b[0] >= cov[0] and b[1] >= cov[1] and b[2] <= cov[2] and b[3] <= cov[3]

            def straddles(c):
                mx, my = spec['cache']['meta_size']
                x0, y0 = c[0] // mx * mx, c[1] // my * my
                sib = [(xx, yy, z) for xx in range(x0, min(nx, x0 + mx)) for yy in range(y0, min(ny, y0 + my))]
                return any(not inside(s_) for s_ in sib)
            cand = [(x, y, z) for x in range(nx) for y in range(ny) if inside((x, y, z))]
            edge = [c for c in cand if straddles(c)]
            if not cand:
                run.dc('cache_coverage_without_inner_tile')
                return
            coords = sorted(set(rng.sample(edge, min(len(edge), 3)) + rng.sample(cand, min(len(cand), 2))))
        FLAT = (31, 120, 200)
        if variant == 'flat_linked':
            import io as _io
            from PIL import Image as _Image

            def flat(call):
                try:
                    w_, h_ = int(call.params.get('width', 32)), int(call.params.get('height', 32))
                except ValueError:
                    w_, h_ = 32, 32
                if call.kind != 'getmap':
                    w_, h_ = spec['grid']['tile_size']
                b_ = _io.BytesIO()
                _Image.new('RGB', (max(1, min(w_, 2048)), max(1, min(h_, 2048))), FLAT).save(b_, 'PNG')
                return upstream.Resp(b_.getvalue(), 'image/png')
            up.register('noise', flat)
            up.register('ntiles', flat)
        DIMCOL = {'2020': (200, 30, 30), '2021': (30, 200, 30), '2022-06-01T00:00:00Z': (30, 30, 200), None: (90, 90, 90)}
        if variant == 'dimensions':
            import io as _io
            from PIL import Image as _Image

            def by_time(call):
                try:
                    w_, h_ = int(call.params.get('width', 32)), int(call.params.get('height', 32))
                except ValueError:
                    w_, h_ = 32, 32
                col_ = DIMCOL.get(call.params.get('time'), (0, 0, 0))
                b_ = _io.BytesIO()
                _Image.new('RGB', (max(1, min(w_, 2048)), max(1, min(h_, 2048))), col_).save(b_, 'PNG')
                return upstream.Resp(b_.getvalue(), 'image/png')
            up.register('noise', by_time)
        if variant == 'expired':
            from mapproxy.cache.tile import Tile as _Tile
            # fill sequentially, then make every stored tile older than the threshold
            for c in coords:
                with tm.session():
                    tm.load_tile_coord(tuple(c))
            nold = 0
            for root_, _, files_ in os.walk(tm.cache.cache_dir):
                for f_ in files_:
                    os.utime(os.path.join(root_, f_), (T0 - 3600, T0 - 3600))
                    nold += 1
            run.count('thread_stress_expired_tiles_prepared', nold)
        nthreads = rng.randint(3, 6)
        plans = [[rng.choice(coords) for _ in range(rng.randint(3, 6))] for _ in range(nthreads)]
        dimvals = sorted(k for k in DIMCOL if k is not None)
        dplans = [[rng.choice(dimvals) for _ in p_] for p_ in plans]

        def flat_colour(t, want):
            cols_ = t.source.as_image().convert('RGB').getcolors(4)
            return (cols_ is not None and len(cols_) == 1 and cols_[0][1] == want), 'colours %r, expected %r' % (cols_, want)
        delays = [rng.choice([0, 0, 0.0005, 0.002, 0.01]) for _ in range(64)]
        n0 = len(up.log)

        def before(call):
            time.sleep(delays[call.n % len(delays)])
        up.before, up.after = before, None
        problems = []
        plock = threading.Lock()
        start = threading.Barrier(nthreads)

        def client(k):
            try:
                start.wait(20)
                for j_, c in enumerate(plans[k]):
                    with tm.session():
                        if variant == 'dimensions':
                            t = tm.load_tile_coord(tuple(c), dimensions={'time': dplans[k][j_]})
                        else:
                            t = tm.load_tile_coord(tuple(c))
                    if t.source is None:
                        with plock:
                            problems.append(('no_image', 'thread %d: no image for %r' % (k, c)))
                        continue
                    if variant == 'flat_linked':
                        im_ = t.source.as_image().convert('RGB')
                        cols_ = im_.getcolors(4)
                        ok, detail = (cols_ is not None and len(cols_) == 1 and cols_[0][1] == FLAT), 'colours %r' % (cols_,)
                    elif variant == 'dimensions':
                        ok, detail = flat_colour(t, DIMCOL[dplans[k][j_]])
                        detail = 'time=%s: %s' % (dplans[k][j_], detail)
                    else:
                        ok, detail, n, exact = c04.judge_tile(lat, tuple(c), t.source.as_image(), True)
                    if not ok:
                        with plock:
                            problems.append(('wrong_image', 'thread %d tile %r: %s' % (k, c, detail)))
            except BaseException as ex:   # noqa
                with plock:
                    problems.append(('exception', 'thread %d: %r %s' % (k, ex, traceback.format_exc()[-900:])))
        sys.setswitchinterval(1e-6)
        ths = [threading.Thread(target=client, args=(k,), name='tstress-%d' % k) for k in range(nthreads)]
        for t in ths:
            t.start()
        hung = False
        for t in ths:
            t.join(90)
            hung = hung or t.is_alive()
        sys.setswitchinterval(old_switch)
        if hung:
            run.dc('thread_stress_round_cut_by_watchdog')
            return
        run.hit('thread_stress_rounds')
        run.hit('thread_stress_rounds_' + variant)
        run.hit('thread_stress_requests', sum(len(p) for p in plans))
        run.judge((spec['backend'], tuple(spec['cache']['meta_size']), spec['src_kind'], 'tstress', variant, nthreads), nontrivial=True)
        per = {}
        for c in up.log[n0:]:
            per[c.url] = per.get(c.url, 0) + 1
        for url, n in per.items():
            run.hit('single_fetch_checks')
            if n > 1:
                problems.append(('multiple_fetches', '%d identical upstream requests from threads of one process: %s' % (n, url[:200])))
        if variant == 'dimensions' and not problems:
            # afterwards the cache holds every requested (tile, value): the right picture, and no further upstream request
            n1 = len(up.log)
            asked = sorted(set((tuple(c), v) for p_, dp_ in zip(plans, dplans) for c, v in zip(p_, dp_)))
            for c, v in asked:
                with tm.session():
                    t = tm.load_tile_coord(c, dimensions={'time': v})
                ok, detail = (False, 'no image') if t.source is None else flat_colour(t, DIMCOL[v])
                run.hit('dimension_tiles_read_back')
                if not ok:
                    problems.append(('wrong_image', 'read back %r time=%s: %s' % (c, v, detail)))
                    break
            if len(up.log) != n1:
                problems.append(('cached_tile_fetched_again', '%d upstream requests while reading back tiles that were just served: %s'
                                 % (len(up.log) - n1, up.log[n1].url[:200])))
            if len(set(v for c, v in asked)) > 1:
                run.hit('thread_stress_rounds_with_several_dimension_values')
        seen = set()
        for kind, pdesc in problems:
            if kind in seen:
                continue
            seen.add(kind)
            run.violation({'problem': kind, 'backend': spec['backend'], 'src': spec['src_kind'],
                           'meta': spec['cache']['meta_size'], 'mode': 'thread_stress', 'variant': variant},
                          dict(case, spec=spec, variant=variant), '%s | variant %s | plans %r' % (pdesc, variant, plans))
    finally:
        sys.setswitchinterval(old_switch)
        up.before, up.after = old_before, old_after
        shutil.rmtree(d, ignore_errors=True)


if __name__ == '__main__':
    core.main(sys.modules[__name__])
