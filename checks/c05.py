"""C05 - every cache backend behaves like a map from tile address to bytes.

History + sequential model: operation histories are executed against the real backend objects; a python
dict is the reference.  After every operation its observable result is compared with the model, after
every history a fresh backend object sweeps the address universe (load_tile / load_tiles / is_cached).
"""
import io
import itertools
import os
import shutil
import sys

from vlib import core

PID = 'C05'
LEVEL = 'exploration'
BUDGET_S = {'quick': 40, 'thorough': 600}
FLOORS = {'quick': {'evaluations': 2000000, 'readback_of_written': 300000, 'sweep_reads': 2000000, 'directed_histories': 300,
                    'exhaustive_histories': 65216, 'random_histories': 800, 'handle_switches': 4000},
          'thorough': {'evaluations': 300000, 'readback_of_written': 80000, 'sweep_reads': 300000, 'handle_switches': 4000}}
RULE = ("case = one operation history (store, store_tiles, load, load_tiles +-metadata, is_cached, remove, "
        "remove_tiles, cleanup, reopen, continue through another backend object on the same files) on one backend configuration over addresses chosen to collide in that "
        "backend's addressing; exhaustive: every history of length <=2 (quick) / <=3 (thorough) over a 4-address "
        "alphabet per configuration, plus random histories of length 5-40. evaluations = oracle comparisons "
        "(per-op result vs dict model + final sweep through a fresh object). distinct = (backend config, "
        "sequence of op kinds with address-collision classes); non-trivial = the history reads back at least one "
        "address it wrote or removed")
ASSUMPTIONS = [
    "return values of store/remove calls are not judged (only what loads/existence checks return)",
    "single-colour tiles in link modes are produced by one fixed encoder, so identical tiles are byte-identical",
    "quadkey layout is exercised inside its domain x,y < 2**z only",
    "redis/couchdb/s3/azure backends need servers and are not reachable offline",
    "single-threaded histories; concurrency is C07/C08's subject",
]

FILE_LAYOUTS = ['tc', 'mp', 'tms', 'reverse_tms', 'quadkey', 'arcgis']
LINKS = [None, 'symlink', 'hardlink']


def all_configs():
    cfgs = []
    for lay in FILE_LAYOUTS:
        for link in LINKS:
            for dims in (False, True):
                cfgs.append({'kind': 'file', 'layout': lay, 'link': link, 'dims': dims})
    for k in ('mbtiles', 'mbtiles_ts', 'sqlite', 'geopackage', 'geopackage_levels', 'compact1', 'compact2'):
        cfgs.append({'kind': k, 'layout': None, 'link': None, 'dims': False})
    return cfgs


_VALS = {}


def value(vid):
    """vid < 1000: unique multi-colour PNG; vid >= 1000: single-colour PNG (3 colours), fixed encoder."""
    if vid not in _VALS:
        from PIL import Image
        if vid >= 1000:
            col = [(255, 0, 0), (0, 128, 255), (255, 255, 255)][(vid - 1000) % 3]
            img = Image.new('RGB', (8, 8), col)
        else:
            img = Image.new('RGB', (8, 8), (10, 20, 30))
            img.putpixel((0, 0), (vid % 256, (vid // 256) % 256, 77))
            img.putpixel((7, 7), (1, 2, 3))
        b = io.BytesIO()
        img.save(b, 'PNG')
        _VALS[vid] = b.getvalue()
    return _VALS[vid]


_GRID = None


SQLITE_TIMEOUT = 0.5   # busy timeout of the sqlite backends; single-threaded histories never wait legitimately


def make_cache(cfg, d):
    global _GRID
    k = cfg['kind']
    if k == 'file':
        from mapproxy.cache.file import FileCache
        return FileCache(os.path.join(d, 'c'), 'png', directory_layout=cfg['layout'],
                         link_single_color_images=cfg['link'] or False)
    if k in ('mbtiles', 'mbtiles_ts'):
        from mapproxy.cache.mbtiles import MBTilesCache
        return MBTilesCache(os.path.join(d, 'c.mbtiles'), with_timestamps=(k == 'mbtiles_ts'), timeout=SQLITE_TIMEOUT)
    if k == 'sqlite':
        from mapproxy.cache.mbtiles import MBTilesLevelCache
        return MBTilesLevelCache(os.path.join(d, 'c'), timeout=SQLITE_TIMEOUT)
    if k in ('geopackage', 'geopackage_levels'):
        from mapproxy.grid import tile_grid
        if _GRID is None:
            _GRID = tile_grid(3857, num_levels=24)
        if k == 'geopackage':
            from mapproxy.cache.geopackage import GeopackageCache
            return GeopackageCache(os.path.join(d, 'c.gpkg'), _GRID, 'tiles', timeout=SQLITE_TIMEOUT)
        from mapproxy.cache.geopackage import GeopackageLevelCache
        return GeopackageLevelCache(os.path.join(d, 'c'), _GRID, 'tiles', timeout=SQLITE_TIMEOUT)
    if k == 'compact1':
        from mapproxy.cache.compact import CompactCacheV1
        return CompactCacheV1(os.path.join(d, 'c'))
    if k == 'compact2':
        from mapproxy.cache.compact import CompactCacheV2
        return CompactCacheV2(os.path.join(d, 'c'))
    raise ValueError(k)


def dimdict(dim):
    if dim is None:
        return None
    return {'time': dim}


def read_source(tile):
    if tile.source is None:
        return None
    buf = tile.source.as_buffer()
    try:
        buf.seek(0)
    except Exception:
        pass
    data = buf.read()
    tile.source.close_buffers()
    return data


# ---- address universes -------------------------------------------------------------------------------

def quartets(cfg):
    """4-address alphabets for the exhaustive tier, chosen to collide in this backend's addressing."""
    k, lay = cfg['kind'], cfg['layout']
    qs = []
    if cfg['dims']:
        qs.append([[0, 0, 0, None], [0, 0, 0, 'A'], [0, 0, 0, 'B'], [0, 0, 1, 'A']])
        qs.append([[1, 1, 1, 'A'], [1, 1, 1, 'B'], [1, 0, 1, 'A'], [1, 1, 2, None]])
    else:
        qs.append([[0, 0, 0, None], [0, 0, 1, None], [1, 0, 1, None], [1, 1, 1, None]])
    if lay == 'quadkey':
        if not cfg['dims']:
            qs.append([[1, 0, 1, None], [2, 0, 2, None], [0, 1, 1, None], [0, 2, 2, None]])
        return qs
    if k in ('compact1', 'compact2'):
        qs.append([[127, 127, 8, None], [128, 127, 8, None], [127, 128, 8, None], [127, 127, 9, None]])
        qs.append([[0, 127, 8, None], [127, 0, 8, None], [1, 0, 8, None], [0, 1, 8, None]])
    elif k == 'file' and not cfg['dims']:
        qs.append([[999, 1000, 12, None], [1000, 999, 12, None], [1999, 0, 12, None], [999, 1000, 13, None]])
        qs.append([[9999, 10000, 15, None], [10000, 9999, 15, None], [1, 10, 15, None], [10, 1, 15, None]])
    elif k != 'file':
        qs.append([[3, 5, 0, None], [3, 5, 1, None], [3, 5, 2, None], [5, 3, 2, None]])
    return qs


XY = [0, 1, 100, 101, 127, 128, 129, 255, 256, 999, 1000, 1001, 1100, 1101, 9999, 10000, 10100, 999999, 1000000, 1000100]


def random_universe(cfg, rng, n):
    addrs = []
    dims = [None, 'A', 'B'] if cfg['dims'] else [None]
    if cfg['layout'] == 'quadkey':
        while len(addrs) < n:
            z = rng.choice([0, 1, 2, 3, 8, 20])
            m = (1 << z)
            x = min(m - 1, rng.choice(XY + [m - 1])) if rng.random() < 0.7 else rng.randrange(m)
            y = min(m - 1, rng.choice(XY + [m - 1])) if rng.random() < 0.7 else rng.randrange(m)
            a = [x, y, z, rng.choice(dims)]
            if a not in addrs:
                addrs.append(a)
        return addrs
    base_xy = [(rng.choice(XY), rng.choice(XY)) for _ in range(3)]
    levels = rng.sample([0, 1, 2, 7, 10, 22], 3)
    tries = 0
    while len(addrs) < n and tries < 200:
        tries += 1
        r = rng.random()
        if r < 0.5 and addrs:
            # neighbour of an existing address: same xy other level / swapped xy / other dim / +-1
            a = list(rng.choice(addrs))
            m = rng.randrange(5)
            if m == 0:
                a[2] = rng.choice(levels)
            elif m == 1:
                a[0], a[1] = a[1], a[0]
            elif m == 2:
                a[3] = rng.choice(dims)
            elif m == 3:
                a[0] = max(0, a[0] + rng.choice([-1, 1, 128, -128, 1000, -1000, 100, -100, 10, 10000, 127]))
            else:
                a[1] = max(0, a[1] + rng.choice([-1, 1, 128, -128, 1000, -1000, 100, -100, 10, 10000, 127]))
        else:
            x, y = rng.choice(base_xy) if rng.random() < 0.5 else (rng.choice(XY), rng.choice(XY))
            a = [x, y, rng.choice(levels), rng.choice(dims)]
        if a not in addrs:
            addrs.append(a)
    return addrs


def exhaustive_alphabet(q, link=False):
    ops = []
    for a in q:
        ops.append(['store', a, 'U'])
        if link:
            ops.append(['store', a, 'S'])
        ops.append(['load', a, False])
        ops.append(['cached', a])
        ops.append(['remove', a])
    for a, b in itertools.combinations(q, 2):
        if a[3] == b[3]:
            ops.append(['store_many', [a, b]])
    bydim = {}
    for a in q:
        bydim.setdefault(a[3], []).append(a)
    for d, group in bydim.items():
        if len(group) > 1:
            ops.append(['load_many', group, False])
    ops.append(['reopen'])
    return ops


def random_history(cfg, rng):
    n_addr = rng.choice([3, 4, 6, 8])
    uni = random_universe(cfg, rng, n_addr)
    length = rng.randint(5, 40)
    ops = []
    single_ok = cfg['link'] is not None
    nh = rng.choice([1, 1, 2, 3])
    for _ in range(length):
        if nh > 1 and rng.random() < 0.3:
            ops.append(['handle', rng.randrange(nh)])
        r = rng.random()
        a = rng.choice(uni)
        same_dim = [b for b in uni if b[3] == a[3]]
        if r < 0.28:
            ops.append(['store', a, 'S' if (single_ok and rng.random() < 0.5) else 'U'])
        elif r < 0.40:
            grp = rng.sample(same_dim, rng.randint(1, len(same_dim)))
            ops.append(['store_many', grp, 'S' if (single_ok and rng.random() < 0.4) else 'U'])
        elif r < 0.55:
            ops.append(['load', a, rng.random() < 0.3])
        elif r < 0.70:
            grp = rng.sample(same_dim, rng.randint(1, len(same_dim)))
            ops.append(['load_many', grp, rng.random() < 0.3])
        elif r < 0.78:
            ops.append(['cached', a])
        elif r < 0.88:
            ops.append(['remove', a])
        elif r < 0.92:
            grp = rng.sample(same_dim, rng.randint(1, len(same_dim)))
            ops.append(['remove_many', grp])
        elif r < 0.96:
            ops.append(['cleanup'])
        else:
            ops.append(['reopen'])
    return ops, uni


# ---- execution -----------------------------------------------------------------------------------------

class Exec(object):
    def __init__(self, run, cfg, ops, universe=None):
        self.run = run
        self.cfg = cfg
        self.ops = ops
        self.universe = [tuple(a) for a in (universe or [])]
        self.model = {}
        self.next_vid = 0
        self.next_sid = 0
        self.touched = set()   # addresses written or removed so far
        self.readback = 0
        self.dir = run.subdir('c05')
        self.cache = make_cache(cfg, self.dir)
        self.handles = {0: self.cache}   # several backend objects on the same files (request threads, seeder + server)
        self.cur = 0
        self.multi = False
        self.failed = False

    def newval(self, kind):
        if kind == 'S':
            self.next_sid += 1
            return 1000 + (self.next_sid % 3)
        self.next_vid += 1
        return self.next_vid

    def flags(self, op, group=None):
        """mechanism-level description of an op (for finding classification / distinct classes)."""
        f = {'backend': self.cfg['kind'], 'layout': self.cfg['layout'], 'link': self.cfg['link'],
             'dims': self.cfg['dims'], 'op': op}
        if self.multi:
            f['handles'] = 'several'
        if group:
            levels = [a[2] for a in group]
            f['bulk_first_level0'] = (levels[0] == 0)
            f['bulk_mixed_levels'] = len(set(levels)) > 1
            xy = {}
            for a in group:
                xy.setdefault((a[0], a[1]), set()).add(a[2])
            f['bulk_same_xy_diff_level'] = any(len(v) > 1 for v in xy.values())
        return f

    def cross_dim(self, a):
        """was the same x,y,z touched with a different dimension value in this history?"""
        return any(t[:3] == tuple(a[:3]) and t[3] != a[3] for t in self.touched)

    def expect(self, a, got, opname, group=None, i=None):
        a = tuple(a)
        want = self.model.get(a)
        self.run.judge()
        if a in self.touched:
            self.readback += 1
            self.run.hit('readback_of_written')
        if got == want:
            return True
        f = self.flags(opname, group)
        if got is None:
            f['obs'] = 'missing'
        elif want is None:
            f['obs'] = 'phantom'
        else:
            f['obs'] = 'wrong_bytes'
        f['cross_dim'] = self.cross_dim(a)
        other = [k for k, v in self.model.items() if v == got and k != a] if got is not None else []
        detail = "op#%s %s addr=%s expected=%s got=%s (bytes of %s)" % (
            i, opname, a, _h(want), _h(got), other[:3])
        self.fail(f, detail)
        return False

    def fail(self, mech, detail):
        self.failed = True
        self.run.violation(mech, {'cfg': self.cfg, 'kind': 'explicit', 'ops': self.ops,
                                  'universe': [list(a) for a in self.universe]}, detail)

    def tile(self, a, vid=None):
        from mapproxy.cache.tile import Tile
        from mapproxy.image import ImageSource
        t = Tile((a[0], a[1], a[2]))
        if vid is not None:
            t.source = ImageSource(io.BytesIO(value(vid)))
        return t

    def do(self, i, op):
        c = self.cache
        k = op[0]
        try:
            if k == 'handle':
                # continue through another backend object on the same files
                self.multi = True
                self.handles[self.cur] = self.cache
                self.cur = op[1]
                if self.cur not in self.handles:
                    self.handles[self.cur] = make_cache(self.cfg, self.dir)
                self.cache = self.handles[self.cur]
                self.run.hit('handle_switches')
            elif k == 'store':
                a = op[1]
                vid = self.newval(op[2] if len(op) > 2 else 'U')
                c.store_tile(self.tile(a, vid), dimensions=dimdict(a[3]))
                self.model[tuple(a)] = value(vid)
                self.touched.add(tuple(a))
            elif k == 'store_many':
                grp = op[1]
                vids = [self.newval(op[2] if len(op) > 2 else 'U') for _ in grp]
                c.store_tiles([self.tile(a, v) for a, v in zip(grp, vids)], dimensions=dimdict(grp[0][3]))
                for a, v in zip(grp, vids):
                    self.model[tuple(a)] = value(v)
                    self.touched.add(tuple(a))
            elif k == 'load':
                a = op[1]
                t = self.tile(a)
                c.load_tile(t, with_metadata=bool(op[2]), dimensions=dimdict(a[3]))
                self.expect(a, read_source(t), 'load_tile', i=i)
            elif k == 'load_many':
                grp = op[1]
                tiles = [self.tile(a) for a in grp]
                c.load_tiles(tiles, with_metadata=bool(op[2]), dimensions=dimdict(grp[0][3]))
                for a, t in zip(grp, tiles):
                    self.expect(a, read_source(t), 'load_tiles', group=grp, i=i)
            elif k == 'cached':
                a = op[1]
                got = bool(c.is_cached(self.tile(a), dimensions=dimdict(a[3])))
                want = tuple(a) in self.model
                self.run.judge()
                if tuple(a) in self.touched:
                    self.run.hit('readback_of_written')
                    self.readback += 1
                if got != want:
                    f = self.flags('is_cached')
                    f['obs'] = 'phantom' if got else 'missing'
                    f['cross_dim'] = self.cross_dim(a)
                    self.fail(f, "op#%s is_cached addr=%s expected=%s got=%s" % (i, a, want, got))
            elif k == 'remove':
                a = op[1]
                c.remove_tile(self.tile(a), dimensions=dimdict(a[3]))
                self.model.pop(tuple(a), None)
                self.touched.add(tuple(a))
            elif k == 'remove_many':
                grp = op[1]
                c.remove_tiles([self.tile(a) for a in grp], dimensions=dimdict(grp[0][3]))
                for a in grp:
                    self.model.pop(tuple(a), None)
                    self.touched.add(tuple(a))
            elif k == 'cleanup':
                if hasattr(c, 'cleanup'):
                    c.cleanup()
            elif k == 'reopen':
                if hasattr(c, 'cleanup'):
                    c.cleanup()
                self.cache = make_cache(self.cfg, self.dir)
                self.handles[self.cur] = self.cache
        except Exception as ex:
            import traceback
            f = self.flags(k, op[1] if k.endswith('_many') else None)
            f['obs'] = 'exception'
            f['exc'] = type(ex).__name__
            self.fail(f, "op#%s %s raised %r\n%s" % (i, op, ex, traceback.format_exc()[-1500:]))

    def sweep(self):
        """fresh object; read back the whole universe through every read path."""
        self.handles[self.cur] = self.cache
        if self.multi:
            # every object that took part must give the same answers as the fresh one
            for h in sorted(self.handles):
                if h == self.cur:
                    continue
                for a in sorted(set(self.model) | self.touched, key=lambda a: (str(a[3]), a[2], a[0], a[1])):
                    t = self.tile(a)
                    try:
                        self.handles[h].load_tile(t, dimensions=dimdict(a[3]))
                        self.expect(a, read_source(t), 'load_tile', i='sweep-handle%d' % h)
                    except Exception as ex:
                        f = self.flags('sweep')
                        f['obs'] = 'exception'
                        f['exc'] = type(ex).__name__
                        self.fail(f, "sweep through handle %d raised %r" % (h, ex))
                        break
        for h, c in self.handles.items():
            if hasattr(c, 'cleanup'):
                c.cleanup()
        self.cache = make_cache(self.cfg, self.dir)
        self.handles = {0: self.cache}
        self.cur = 0
        uni = set(self.universe) | set(self.model) | self.touched
        # neighbours in the backend's addressing of everything touched
        for a in list(self.touched):
            x, y, z, d = a
            for nb in ((y, x, z, d), (x, y, z + 1, d), (x + 1, y, z, d), (x, y + 1, z, d)):
                if self.cfg['layout'] == 'quadkey' and (nb[0] >= (1 << nb[2]) or nb[1] >= (1 << nb[2])):
                    continue
                uni.add(nb)
        uni = sorted(uni, key=lambda a: (str(a[3]), a[2], a[0], a[1]))
        n = 0
        try:
            for a in uni:
                t = self.tile(a)
                self.cache.load_tile(t, dimensions=dimdict(a[3]))
                self.expect(a, read_source(t), 'load_tile', i='sweep')
                got = bool(self.cache.is_cached(self.tile(a), dimensions=dimdict(a[3])))
                self.run.judge()
                if got != (a in self.model):
                    f = self.flags('is_cached')
                    f['obs'] = 'phantom' if got else 'missing'
                    f['cross_dim'] = self.cross_dim(a)
                    self.fail(f, "sweep is_cached addr=%s expected=%s got=%s" % (a, a in self.model, got))
                n += 2
            # bulk: per (dim, level) groups, then per dim with mixed levels
            bydim = {}
            for a in uni:
                bydim.setdefault(a[3], []).append(a)
            for d, grp in bydim.items():
                bylev = {}
                for a in grp:
                    bylev.setdefault(a[2], []).append(a)
                for lev, g in bylev.items():
                    tiles = [self.tile(a) for a in g]
                    self.cache.load_tiles(tiles, dimensions=dimdict(d))
                    for a, t in zip(g, tiles):
                        self.expect(a, read_source(t), 'load_tiles', group=g, i='sweep')
                        n += 1
                if len(bylev) > 1:
                    tiles = [self.tile(a) for a in grp]
                    self.cache.load_tiles(tiles, with_metadata=True, dimensions=dimdict(d))
                    for a, t in zip(grp, tiles):
                        self.expect(a, read_source(t), 'load_tiles', group=grp, i='sweep-mixed')
                        n += 1
        except Exception as ex:
            import traceback
            f = self.flags('sweep')
            f['obs'] = 'exception'
            f['exc'] = type(ex).__name__
            self.fail(f, "sweep raised %r\n%s" % (ex, traceback.format_exc()[-1500:]))
        self.run.hit('sweep_reads', n)

    def execute(self):
        try:
            for i, op in enumerate(self.ops):
                self.do(i, op)
            self.sweep()
        finally:
            for c in [self.cache] + list(self.handles.values()):
                try:
                    if hasattr(c, 'cleanup'):
                        c.cleanup()
                except Exception:
                    pass
            shutil.rmtree(self.dir, ignore_errors=True)
        # class of the history: config + op kinds with collision class of each address vs. earlier ones
        seen = []
        sig = []
        for op in self.ops:
            if op[0] in ('cleanup', 'reopen', 'handle'):
                sig.append(op[0])
                continue
            addrs = [op[1]] if op[0] in ('store', 'load', 'cached', 'remove') else op[1]
            cl = []
            for a in addrs:
                rel = 'new'
                for s in seen:
                    if s == a:
                        rel = 'same'
                        break
                    if s[:3] == a[:3]:
                        rel = 'dimtwin'
                    elif s[:2] == a[:2] and rel == 'new':
                        rel = 'xytwin'
                cl.append(rel + ('@0' if a[2] == 0 else ''))
                seen.append(a)
            sig.append((op[0], tuple(cl)))
        self.run.judge((self.cfg, sig), nontrivial=self.readback > 0, n=0)
        self.run.hit('histories')
        return not self.failed


def _h(b):
    if b is None:
        return None
    import hashlib
    return 'len%d:%s' % (len(b), hashlib.md5(b).hexdigest()[:8])


# ---- cases -------------------------------------------------------------------------------------------------

def directed_histories(cfg):
    """hand-written histories aimed at each backend's internal addressing; always run."""
    hs = []
    d = 'A' if cfg['dims'] else None
    qk = cfg['layout'] == 'quadkey'
    # level 0 bulk load
    hs.append([['store', [0, 0, 0, d]], ['load_many', [[0, 0, 0, d]], False], ['load_many', [[0, 0, 0, d]], True]])
    # same x,y at different levels inside one bulk load
    hs.append([['store', [1, 1, 1, d]], ['store', [1, 1, 2, d]], ['store', [1, 1, 3, d]],
               ['load_many', [[1, 1, 1, d], [1, 1, 2, d], [1, 1, 3, d]], False],
               ['load_many', [[1, 1, 3, d], [1, 1, 1, d]], False]])
    # bulk store across levels
    hs.append([['store_many', [[0, 0, 0, d], [1, 0, 1, d], [1, 0, 2, d]]],
               ['load', [0, 0, 0, d], False], ['load', [1, 0, 1, d], False], ['load', [1, 0, 2, d], True]])
    # several backend objects on the same files: an operation through one must not keep the others from working
    a1, a2, a3 = [0, 0, 0, d], [1, 1, 1, d], [1, 0, 1, d]
    for first in (['remove', a3], ['remove', a1], ['load', a3, False], ['load', a1, True], ['cached', a3],
                  ['remove_many', [a3, a2]], ['load_many', [a2, a3], False], ['store', a3], ['cleanup']):
        hs.append([['store', a1], ['handle', 1], ['load', a1, False], ['handle', 0], first, ['handle', 1],
                   ['store', a2], ['store', a1], ['load', a2, False], ['handle', 0], ['load', a1, False],
                   ['load', a2, False], ['remove', a2], ['handle', 2], ['cached', a2], ['store_many', [a2, a3]],
                   ['handle', 1], ['load_many', [a2, a3], False]])
    if cfg['dims']:
        hs.append([['store', [0, 0, 0, 'A']], ['store', [0, 0, 0, 'B']], ['load', [0, 0, 0, 'A'], False],
                   ['load', [0, 0, 0, None], False], ['remove', [0, 0, 0, 'B']], ['load', [0, 0, 0, 'A'], False]])
        hs.append([['store', [1, 1, 1, None]], ['cached', [1, 1, 1, 'A']], ['store', [1, 1, 1, 'A']],
                   ['remove', [1, 1, 1, None]], ['load', [1, 1, 1, 'A'], False]])
    if cfg['link']:
        hs.append([['store', [0, 0, 1, d], 'S'], ['store', [1, 0, 1, d], 'S'], ['store', [1, 1, 1, d], 'S'],
                   ['store', [0, 0, 1, d], 'U'], ['load', [1, 0, 1, d], False], ['remove', [1, 0, 1, d]],
                   ['load', [1, 1, 1, d], False], ['store', [1, 1, 1, d], 'S'], ['store', [0, 0, 1, d], 'S']])
    if not qk:
        hs.append([['store', [127, 128, 9, d]], ['store', [128, 127, 9, d]], ['store', [255, 255, 9, d]],
                   ['store_many', [[127, 127, 9, d], [128, 128, 9, d]]], ['remove', [128, 127, 9, d]],
                   ['load_many', [[127, 128, 9, d], [128, 127, 9, d], [127, 127, 9, d], [128, 128, 9, d]], False]])
        hs.append([['store', [999, 1000, 12, d]], ['store', [1000, 999, 12, d]], ['store', [1999, 1, 12, d]],
                   ['store', [1000999, 10000, 22, d]], ['store', [999, 1000999, 22, d]],
                   ['store', [10000, 9999, 22, d]], ['store', [9999, 10000, 22, d]],
                   ['remove', [1000, 999, 12, d]], ['cached', [999, 1000, 12, d]]])
        hs.append([['store', [1001, 5, 12, d]], ['store', [1101, 5, 12, d]], ['store', [1011, 5, 12, d]],
                   ['store', [5, 1001, 12, d]], ['store', [5, 1101, 12, d]], ['store', [5, 2001, 12, d]],
                   ['store', [10001, 20001, 16, d]], ['store', [20001, 10001, 16, d]], ['store', [1, 10001, 16, d]],
                   ['store', [1000001, 1, 22, d]], ['store', [1, 1000001, 22, d]], ['store', [1001001, 1, 22, d]],
                   ['remove', [1101, 5, 12, d]], ['load', [1001, 5, 12, d], False]])
    return hs


def gen_cases(run):
    cfgs = all_configs()
    for ci, cfg in enumerate(cfgs):
        yield {'cfg': cfg, 'kind': 'directed', 'must': True}
    maxlen = run.pick(2, 3)
    for ci, cfg in enumerate(cfgs):
        for qi, q in enumerate(quartets(cfg)):
            alpha = exhaustive_alphabet(q, bool(cfg['link']))
            # split the first-op choice into separate cases so shards balance
            for first in range(len(alpha)):
                yield {'cfg': cfg, 'kind': 'exh', 'q': q, 'first': first, 'maxlen': maxlen, 'must': True}
    nrand = run.pick(60, 2400)
    for r in range(nrand):
        for ci, cfg in enumerate(cfgs):
            yield {'cfg': cfg, 'kind': 'rand', 'hseed': r}


def run_case(run, case):
    cfg = case['cfg']
    kind = case['kind']
    if kind == 'explicit':
        Exec(run, cfg, case['ops'], case.get('universe')).execute()
    elif kind == 'directed':
        for ops in directed_histories(cfg):
            Exec(run, cfg, ops).execute()
            run.count('directed_histories')
    elif kind == 'exh':
        alpha = exhaustive_alphabet(case['q'], bool(cfg['link']))
        first = alpha[case['first']]
        n = 0
        for ln in range(1, case['maxlen'] + 1):
            for rest in itertools.product(alpha, repeat=ln - 1):
                ops = [first] + list(rest)
                Exec(run, cfg, ops, case['q']).execute()
                n += 1
                if n == 1 and case['first'] == 0:
                    run.sample({'backend': cfg, 'kind': 'exhaustive', 'ops': ops})
        run.count('exhaustive_histories', n)
    elif kind == 'rand':
        rng = run.rng('rand', core.jhash(cfg), case['hseed'])
        ops, uni = random_history(cfg, rng)
        ok = Exec(run, cfg, ops, uni).execute()
        run.count('random_histories')
        if case['hseed'] == 0 and cfg['kind'] in ('sqlite', 'compact2', 'file') and cfg['layout'] in (None, 'tc'):
            run.sample({'backend': cfg, 'kind': 'random', 'ops': ops, 'held': ok})


def evidence_extra(total):
    return {'exhaustive': False,
            'exhaustive_subspace': 'all histories up to the tier length over the 4-address alphabets of '
                                   'quartets(cfg) for every backend configuration: %d histories' %
                                   total.extra.get('exhaustive_histories', 0),
            'backend_configurations': len(all_configs())}


if __name__ == '__main__':
    core.main(sys.modules[__name__])
