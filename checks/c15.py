"""C15 - parallel fan-out returns every result exactly once and in input order.

The real ThreadPool runs under the cooperative scheduler: consumer and workers park at every queue operation and
inside the work function; completion orders / interleavings are chosen by strategies (all permutations of worker
completion, random, PCT, bounded DFS)."""
import itertools
import queue
import sys
import types

from vlib import core, sched

PID = 'C15'
LEVEL = 'exploration'
BUDGET_S = {'quick': 40, 'thorough': 500}
FLOORS = {'quick': {'schedules': 8000, 'schedules_with_failures': 2000, 'completion_orders': 1000,
                    'worker_steps': 20000},
          'thorough': {'schedules': 300000, 'schedules_with_failures': 80000, 'completion_orders': 4500,
                       'worker_steps': 1000000}}
RULE = ("case = one call of ThreadPool.imap/map/starmap/starcall (or the module-level helpers) with n items, a pool "
        "size, a set of failing positions and a result mode, executed under one forced schedule. evaluations = "
        "schedules executed and judged; distinct = distinct (configuration, schedule trace) pairs; non-trivial = at "
        "least two workers were inside the work function at the same time or finished out of input order. "
        "Strategies: every completion permutation for n<=5, random walk, PCT, and exhaustive DFS for n<=3/pool 2")
ASSUMPTIONS = [
    "scheduling points: every Queue.put/get/empty/join/task_done of the pool's two queues and one point inside "
    "each work item; python code between them runs atomically (preemptive stress covers the rest in C08)",
    "worker threads left blocked after the call returned are counted (leaked_workers), not judged",
]


class Boom(Exception):
    pass


class Boom2(ValueError):
    pass


def make_queue_module():
    class IQ(queue.Queue):
        def put(self, item, block=True, timeout=None):
            sched.point('put')
            return queue.Queue.put(self, item, block, timeout)

        def get(self, block=True, timeout=None):
            if block:
                sched.point('get', enabled=lambda: self._qsize() > 0)
            else:
                sched.point('get_nowait')
            return queue.Queue.get(self, block, timeout)

        def empty(self):
            sched.point('empty')
            return queue.Queue.empty(self)

        def task_done(self):
            sched.point('task_done')
            return queue.Queue.task_done(self)

        def join(self):
            sched.point('join', enabled=lambda: self.unfinished_tasks == 0)
            return queue.Queue.join(self)
    return types.SimpleNamespace(Queue=IQ, Empty=queue.Empty)


_PATCHED = False


def patch():
    global _PATCHED
    if _PATCHED:
        return
    from mapproxy.util import async_
    async_.Queue = make_queue_module()

    def start(self):
        s = sched.CUR
        if s is not None and s.me() is not None:
            s.adopt(self)
        else:
            import threading
            threading.Thread.start(self)
    async_.ThreadWorker.start = start
    _PATCHED = True


def setup_shard(run):
    patch()


FALSY = {'none': None, 'zero': 0, 'false': False, 'empty': '', 'emptylist': []}


def value_of(cfg, i):
    """result of item i: legitimate results include None / 0 / False / '' (blank tiles are None in the repository)"""
    kinds = cfg.get('vals')
    if kinds:
        k = kinds[i % len(kinds)]
        if k in FALSY:
            return FALSY[k]
    return ('r', i)


class OneRun(object):
    """executes one call under one chooser and judges it"""

    def __init__(self, cfg, chooser, release_order=None):
        self.cfg = cfg
        self.chooser = chooser
        self.release = list(release_order) if release_order is not None else None
        self.inside = set()
        self.max_inside = 0
        self.finish_order = []
        self.yielded = []
        self.raised = None
        self.consumer_done = False
        self.problems = []
        self.leaked = False

    def work(self, i):
        self.inside.add(i)
        self.max_inside = max(self.max_inside, len(self.inside))
        if self.release is not None:
            sched.point('work%d' % i, enabled=lambda: bool(self.release) and self.release[0] == i or
                        (i not in self.release))
            if self.release and self.release[0] == i:
                self.release.pop(0)
        else:
            sched.point('work%d' % i)
        self.inside.discard(i)
        self.finish_order.append(i)
        if i in self.cfg['fail']:
            raise (Boom if i % 2 == 0 else Boom2)('item %d' % i)
        return value_of(self.cfg, i)

    def consumer(self):
        from mapproxy.util import async_
        cfg = self.cfg
        n = cfg['n']
        items = list(range(n))
        kw = {'use_result_objects': True} if cfg['mode'] == 'objects' else {}
        api = cfg['api']
        try:
            if api == 'imap':
                gen = async_.ThreadPool(cfg['pool']).imap(self.work, items, **kw)
            elif api == 'map':
                gen = iter(async_.ThreadPool(cfg['pool']).map(self.work, items, **kw))
            elif api == 'starmap':
                gen = async_.ThreadPool(cfg['pool']).starmap(self.work, [(i,) for i in items], **kw)
            elif api == 'starcall':
                gen = async_.ThreadPool(cfg['pool']).starcall([(self.work, i) for i in items], **kw)
            elif api == 'mod_imap':
                gen = async_.imap(self.work, items)
            elif api == 'mod_starmap':
                gen = async_.starmap(self.work, [(i,) for i in items])
            else:
                gen = async_.starcall([(self.work, i) for i in items])
            for v in gen:
                self.yielded.append(v)
        except (Boom, Boom2) as ex:
            self.raised = ex
        finally:
            self.consumer_done = True

    def execute(self):
        s = sched.Sched(self.chooser, max_steps=3000)
        self.sched = s
        s.spawn('c', self.consumer)
        outcome = 'ok'
        try:
            s.run()
        except sched.Deadlock as ex:
            if self.consumer_done:
                self.leaked = True
            else:
                outcome = 'deadlock'
                self.problems.append(('deadlock', str(ex)))
        except sched.StepLimit as ex:
            outcome = 'steplimit'
            self.problems.append(('no_termination', str(ex)))
        except sched.Watchdog as ex:
            outcome = 'watchdog'
        self.outcome = outcome
        if outcome in ('ok',) or (outcome == 'ok' and self.leaked):
            self.judge()
        t = s.threads.get('c')
        if t is not None and t.exc is not None and outcome == 'ok':
            self.problems.append(('consumer_exception', repr(t.exc)))
        return outcome

    def judge(self):
        cfg = self.cfg
        n = cfg['n']
        fail = set(cfg['fail'])
        if cfg['mode'] == 'objects':
            if self.raised is not None:
                self.problems.append(('raised_in_object_mode', repr(self.raised)))
                return
            if len(self.yielded) != n:
                self.problems.append(('count', 'yielded %d results for %d inputs: %r' % (len(self.yielded), n, self.yielded)))
                return
            for i, r in enumerate(self.yielded):
                if not hasattr(r, 'result'):
                    self.problems.append(('not_result_object', '%d: %r' % (i, r)))
                    continue
                if i in fail:
                    ex = r.exception
                    ok = (isinstance(ex, tuple) and len(ex) == 3 and isinstance(ex[1], (Boom, Boom2)) and
                          ex[1].args == ('item %d' % i,))
                    if not ok or r.result is not None:
                        self.problems.append(('exception_misattributed', 'position %d: %r' % (i, r)))
                else:
                    if r.exception is not None or r.result != value_of(cfg, i) or type(r.result) is not type(value_of(cfg, i)):
                        self.problems.append(('wrong_result', 'position %d: %r' % (i, r)))
        else:
            want = [value_of(cfg, i) for i in range(n)]
            if not fail:
                if self.raised is not None:
                    self.problems.append(('spurious_exception', repr(self.raised)))
                elif self.yielded != want:
                    self.problems.append(('order', 'yielded %r expected %r' % (self.yielded, want)))
            else:
                if self.raised is None:
                    self.problems.append(('exception_swallowed', 'failing items %r, call returned %r' % (
                        sorted(fail), [y if not isinstance(y, tuple) or len(y) != 3 else 'exc_info' + repr(y[1]) for y in self.yielded])))
                    return
                if self.raised.args[0] not in ['item %d' % i for i in fail]:
                    self.problems.append(('foreign_exception', repr(self.raised)))
                k = len(self.yielded)
                if self.yielded != want[:k]:
                    self.problems.append(('prefix', 'yielded before the exception: %r' % (self.yielded,)))
                # nothing at or after the first failing position may have been yielded as a value
                if k > min(fail):
                    self.problems.append(('yielded_past_failure', 'yielded %r although item %d fails' % (self.yielded, min(fail))))


def configs(rng_all=None):
    cfgs = []
    for api in ('imap', 'map', 'starmap', 'starcall', 'mod_imap', 'mod_starmap', 'mod_starcall'):
        for n in range(1, 7):
            pools = [1, 2, 3, 4] if not api.startswith('mod_') else [0]
            for pool in pools:
                for mode in (('values', 'objects') if not api.startswith('mod_') else ('values',)):
                    cfgs.append((api, n, pool, mode))
    return cfgs


def fail_sets(n, rng, k):
    sets = [()]
    for i in range(n):
        sets.append((i,))
    allsub = [c for r in range(2, n + 1) for c in itertools.combinations(range(n), r)]
    rng.shuffle(allsub)
    sets += allsub[:k]
    return sets


def gen_cases(run):
    rng = run.rng('cfg')
    reps = run.pick(6, 60)
    for c in dfs_cases(run):
        yield c
    # directed: sequential branch (pool size 1) in both modes with failures
    for api in ('imap', 'map', 'starmap', 'starcall'):
        for mode in ('values', 'objects'):
            yield {'kind': 'rand', 'cfg': {'api': api, 'n': 3, 'pool': 1, 'mode': mode, 'fail': [1]}, 'strategy': 'random', 'k': 0}
    for api, n, pool, mode in configs():
        for fs in fail_sets(n, rng, run.pick(3, 12)):
            cfg = {'api': api, 'n': n, 'pool': pool, 'mode': mode, 'fail': list(fs)}
            if rng.random() < 0.5:
                cfg['vals'] = [rng.choice(['tuple', 'none', 'none', 'zero', 'false', 'empty', 'emptylist']) for _ in range(n)]
            for k in range(reps):
                yield {'kind': 'rand', 'cfg': cfg, 'strategy': 'random' if k % 3 else 'pct', 'k': k}
    # every completion permutation for n <= 5 (thorough: n <= 6), pool = n so that all items can be in flight
    for n in range(2, run.pick(6, 7)):
        for perm in itertools.permutations(range(n)):
            for mode in ('values', 'objects'):
                for fs in ((), (perm[0],), (perm[-1],)):
                    yield {'kind': 'perm', 'cfg': {'api': 'imap', 'n': n, 'pool': n, 'mode': mode,
                                                   'fail': list(fs)}, 'perm': list(perm)}
                # the item that finishes first returns a falsy value (it waits in the re-sequencing buffer)
                vals = ['tuple'] * n
                vals[perm[0]] = ('none', 'zero', 'false', 'empty')[sum(perm[:2]) % 4]
                yield {'kind': 'perm', 'cfg': {'api': 'imap', 'n': n, 'pool': n, 'mode': mode, 'fail': [],
                                               'vals': vals}, 'perm': list(perm)}


def dfs_cases(run):
    # exhaustive DFS with a preemption bound, small sizes
    spaces = ((2, 2, 1), (3, 2, 1)) if run.tier == 'quick' else ((2, 2, 2), (3, 2, 2), (3, 3, 1), (4, 2, 1), (4, 3, 1))
    for n, pool, bound in spaces:
        for mode in ('values', 'objects'):
            for fs in ((), (0,), (n - 1,)):
                yield {'kind': 'dfs', 'cfg': {'api': 'imap', 'n': n, 'pool': pool, 'mode': mode, 'fail': list(fs),
                                              'vals': ['tuple', 'none', 'zero'] if not fs else None},
                       'bound': bound, 'max_runs': run.pick(3000, 150000)}


def record(run, case, one, trace_key):
    cfg = one.cfg
    run.hit('schedules')
    if cfg['fail']:
        run.hit('schedules_with_failures')
    run.hit('worker_steps', len(one.sched.trace))
    nontriv = one.max_inside >= 2 or one.finish_order != sorted(one.finish_order)
    run.judge((cfg, trace_key), nontrivial=nontriv)
    if one.leaked:
        run.count('leaked_workers')
    if one.outcome == 'watchdog':
        run.count('watchdog_runs')
    for kind, detail in one.problems:
        mech = {'problem': kind, 'api': cfg['api'], 'mode': cfg['mode'], 'sequential_branch': cfg['pool'] < 2 and cfg['n'] > 1
                and not cfg['api'].startswith('mod_'), 'has_failures': bool(cfg['fail'])}
        rc = dict(case)
        rc['replay_trace'] = [t[0] for t in one.sched.trace]
        run.violation(mech, rc, '%s: %s | cfg=%r finish_order=%r trace=%r' % (
            kind, detail, cfg, one.finish_order, one.sched.trace[-30:]))


def run_case(run, case):
    patch()
    cfg = case['cfg']
    if 'replay_trace' in case and run.replaying:
        one = OneRun(cfg, sched.ReplayChooser(case['replay_trace']), release_order=case.get('perm'))
        one.execute()
        record(run, case, one, 'replay')
        return
    if case['kind'] == 'rand':
        rng = run.rng('sched', core.jhash(cfg), case['k'])
        ch = sched.RandomChooser(rng, stickiness=rng.choice([0, 0, 0.5, 0.8])) if case['strategy'] == 'random' \
            else sched.PCTChooser(rng, depth=rng.randint(1, 4), est_steps=20 + 12 * cfg['n'])
        one = OneRun(cfg, ch)
        one.execute()
        record(run, case, one, core.jhash(one.sched.trace))
        if case['k'] == 0 and cfg['n'] == 4 and cfg['pool'] == 2 and cfg['fail'] == [1]:
            run.sample({'cfg': cfg, 'strategy': case['strategy'], 'trace': one.sched.trace, 'finish_order': one.finish_order,
                        'yielded': repr(one.yielded)[:300], 'raised': repr(one.raised)})
    elif case['kind'] == 'perm':
        rng = run.rng('perm', core.jhash(case))
        one = OneRun(cfg, sched.RandomChooser(rng, stickiness=0.5), release_order=case['perm'])
        one.execute()
        if one.outcome == 'ok' and one.finish_order == case['perm']:
            run.hit('completion_orders')
        record(run, case, one, ('perm', tuple(case['perm'])))
        if case['perm'] == [2, 0, 1] and cfg['mode'] == 'values' and not cfg['fail']:
            run.sample({'cfg': cfg, 'forced_completion_order': case['perm'], 'finish_order': one.finish_order,
                        'yielded': repr(one.yielded)})
    elif case['kind'] == 'dfs':
        nruns = 0
        complete = True

        def once(ch):
            one = OneRun(cfg, ch)
            one.execute()
            record(run, case, one, core.jhash(one.sched.trace))
        for ch in sched.dfs(once, preemption_bound=case['bound'], max_runs=case['max_runs']):
            nruns += 1
            if run.out_of_time():
                complete = False
                break
        if nruns >= case['max_runs']:
            complete = False
        run.count('dfs_schedules', nruns)
        run.count('dfs_spaces_completed' if complete else 'dfs_spaces_truncated')
        run.sample({'cfg': cfg, 'dfs_schedules': nruns, 'preemption_bound': case['bound'], 'complete': complete})


def evidence_extra(total):
    return {'exhaustive': False,
            'exhaustive_subspaces': 'DFS: all schedules with at most `bound` preemptions for the (n, pool, bound) '
                                    'spaces of dfs_cases(): %d completed, %d truncated, %d schedules; all n! completion '
                                    'orders for n<=5 (quick) / n<=6 (thorough): %d forced' % (
                                        total.extra.get('dfs_spaces_completed', 0), total.extra.get('dfs_spaces_truncated', 0),
                                        total.extra.get('dfs_schedules', 0), total.monitors.get('completion_orders', 0))}


if __name__ == '__main__':
    core.main(sys.modules[__name__])
