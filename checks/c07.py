"""C07 - file locks are exclusive and semaphores bounded under every interleaving.

2-4 contenders (threads, one open-file-description each; flock is per OFD so they contend exactly like processes)
run lock/unlock cycles through the real FileLock/SemLock while the cooperative scheduler owns every open, flock,
stat, close (also the implicit close when the lock object is dropped), remove and sleep."""
import os
import shutil
import sys

from vlib import core, sched, lockpoints

PID = 'C07'
LEVEL = 'exploration'
BUDGET_S = {'quick': 45, 'thorough': 600}
FLOORS = {'quick': {'schedules': 15000, 'contended_schedules': 8000, 'entries': 40000, 'timeouts_judged': 300,
                    'reacquire_checks': 15000, 'stress_rounds': 10, 'stress_entries': 1000, 'holder_killed_rounds': 20, 'reacquire_after_kill': 40},
          'thorough': {'schedules': 500000, 'contended_schedules': 250000, 'entries': 1000000,
                       'timeouts_judged': 10000, 'reacquire_checks': 500000}}
RULE = ("case = one schedule of k contenders x c lock/unlock cycles on one lock path (FileLock keep-file, FileLock "
        "remove-on-unlock, SemLock n=1..3), chosen by random walk / PCT / preemption-bounded DFS over the scheduling "
        "points open, flock, stat, close, gc-close, remove, sleep. evaluations = schedules executed and judged by the "
        "holder-count monitor, the timeout oracle and the re-acquire probe; distinct = distinct (configuration, "
        "schedule trace); non-trivial = some flock attempt failed or two contenders were between open and release "
        "at the same time (contention)")
ASSUMPTIONS = [
    "threads with separate open() calls stand in for processes (flock is per open file description); validated "
    "by real multi-process stress rounds (2-5 forked processes, injected delays, O_EXCL marker as exclusion monitor)",
    "lock objects are dropped right after unlock, as `with locker.lock(tile):` does in the repository",
    "cleanup_lockdir is outside the quantifier and not exercised",
    "virtual clock: time advances only by sleeps",
]


class Mon(object):
    def __init__(self, n):
        self.n = n
        self.holders = []
        self.max_holders = 0
        self.phase = {}
        self.problems = []
        self.entries = 0
        self.failed_attempts = 0
        self.contended = False

    def set_phase(self, name, ph):
        self.phase[name] = ph
        busy = [k for k, v in self.phase.items() if v != 'idle']
        if len(busy) > 1:
            self.contended = True


class OneRun(object):
    def __init__(self, cfg, chooser, base_dir, rseed=0):
        self.cfg = cfg
        self.chooser = chooser
        self.dir = os.path.join(base_dir, 'locks')
        os.makedirs(self.dir, exist_ok=True)
        for f in os.listdir(self.dir):
            os.unlink(os.path.join(self.dir, f))
        self.path = os.path.join(self.dir, 'x.lck')
        self.mon = Mon(cfg['n'] if cfg['kind'] == 'sem' else 1)
        self.timeouts = 0
        self.rseed = rseed

    def make_lock(self, timeout):
        from mapproxy.util.lock import FileLock, SemLock
        cfg = self.cfg
        if cfg['kind'] == 'sem':
            return SemLock(self.path, cfg['n'], timeout=timeout, step=0.01)
        return FileLock(self.path, timeout=timeout, step=0.01, remove_on_unlock=(cfg['kind'] == 'remove'))

    def contender(self, name, idx):
        from mapproxy.util.lock import LockTimeout
        mon = self.mon
        s = self.sched
        for cyc in range(self.cfg['cycles']):
            timeout = self.cfg['timeouts'][idx % len(self.cfg['timeouts'])]
            lk = self.make_lock(timeout)
            mon.set_phase(name, 'acquiring')
            t0 = lockpoints.STATE['vtime']
            try:
                lk.lock()
            except LockTimeout:
                el = lockpoints.STATE['vtime'] - t0
                self.timeouts += 1
                if el < timeout - 1e-9:
                    mon.problems.append(('early_timeout', '%s timed out after %.3f of %.3f' % (name, el, timeout)))
                mon.set_phase(name, 'releasing')
                del lk
                mon.set_phase(name, 'idle')
                continue
            # ---- inside ----
            mon.holders.append(name)
            mon.entries += 1
            mon.set_phase(name, 'inside')
            if len(mon.holders) > mon.n:
                mon.problems.append(('too_many_holders', '%r inside at once (limit %d) at step %d' % (
                    list(mon.holders), mon.n, len(s.trace))))
            mon.max_holders = max(mon.max_holders, len(mon.holders))
            for _ in range(self.cfg.get('inside_points', 1)):
                sched.point('inside')
            mon.holders.remove(name)
            mon.set_phase(name, 'releasing')
            lk.unlock()
            del lk
            mon.set_phase(name, 'idle')

    def on_flock_fail(self, fd):
        me = self.sched.me()
        if me is None:
            return
        self.mon.failed_attempts += 1
        self.mon.contended = True
        others = [k for k, v in self.mon.phase.items() if k != me.name and v != 'idle']
        if not others:
            self.mon.problems.append(('unavailable_while_free', '%s: flock failed although every other contender is idle '
                                      '(nobody holds, acquires or releases)' % me.name))

    def execute(self):
        lockpoints.install()
        lockpoints.seed_random(self.rseed)
        lockpoints.STATE['vtime'] = 1000.0
        lockpoints.STATE['on_flock_fail'] = self.on_flock_fail
        s = sched.Sched(self.chooser, max_steps=1500)
        self.sched = s
        for i in range(self.cfg['k']):
            name = 'c%d' % i
            self.mon.phase[name] = 'idle'
            s.spawn(name, (lambda n=name, i=i: self.contender(n, i)))
        self.outcome = 'ok'
        try:
            s.run()
        except sched.Deadlock as ex:
            self.outcome = 'deadlock'
            self.mon.problems.append(('deadlock', str(ex)))
        except sched.StepLimit as ex:
            self.outcome = 'steplimit'
        except sched.Watchdog:
            self.outcome = 'watchdog'
        finally:
            lockpoints.STATE['on_flock_fail'] = None
        for t in s.threads.values():
            if t.exc is not None:
                self.mon.problems.append(('exception', '%s: %r' % (t.name, t.exc)))
        # a released lock can always be taken again (uncontrolled thread: points are no-ops)
        self.reacquired = None
        if self.outcome == 'ok':
            from mapproxy.util.lock import LockTimeout
            lk = self.make_lock(0.0)
            try:
                lk.lock()
                lk.unlock()
                self.reacquired = True
            except LockTimeout:
                self.reacquired = False
                self.mon.problems.append(('not_reacquirable', 'all contenders finished but a fresh lock attempt fails'))
            del lk
        return self.outcome


def base_configs():
    cfgs = []
    for kind in ('keep', 'remove'):
        for k, cycles in ((2, 1), (2, 2), (3, 1), (3, 2), (4, 1), (2, 3), (4, 2)):
            for timeouts in ([50.0], [0.03], [0.03, 50.0], [0.0, 50.0]):
                cfgs.append({'kind': kind, 'k': k, 'cycles': cycles, 'timeouts': timeouts, 'n': 1})
    for n in (1, 2, 3):
        for k, cycles in ((2, 1), (3, 1), (4, 1), (3, 2), (4, 2)):
            for timeouts in ([50.0], [0.03, 50.0]):
                cfgs.append({'kind': 'sem', 'k': k, 'cycles': cycles, 'timeouts': timeouts, 'n': n})
    return cfgs


def gen_cases(run):
    # directed: the 3-contender remove-on-unlock configuration first
    for c in dfs_cases(run):
        yield c
    for i in range(run.pick(24, 400)):
        yield {'kind': 'stress', 'i': i}
    for i in range(run.pick(48, 800)):
        yield {'kind': 'holder_dies', 'i': i}
    reps = run.pick(200, 7000)
    for cfg in base_configs():
        for k in range(reps):
            yield {'kind': 'rand', 'cfg': cfg, 'k': k, 'strategy': ('random', 'sticky', 'pct')[k % 3]}


def dfs_cases(run):
    if run.tier == 'quick':
        spaces = [('remove', 2, 1, 3), ('keep', 2, 1, 3), ('remove', 3, 1, 2), ('remove', 2, 2, 2), ('keep', 3, 1, 2)]
        sems = [(3, 1, 1), (3, 2, 2)]
    else:
        spaces = [('remove', 2, 1, 5), ('keep', 2, 1, 5), ('remove', 3, 1, 3), ('remove', 2, 2, 3), ('keep', 3, 1, 3),
                  ('remove', 4, 1, 2), ('remove', 3, 2, 2), ('remove', 2, 3, 2), ('keep', 4, 1, 2)]
        sems = [(3, 1, 2), (3, 2, 3), (4, 2, 2), (4, 3, 2)]
    for kind, k, cycles, bound in spaces:
        yield {'kind': 'dfs', 'cfg': {'kind': kind, 'k': k, 'cycles': cycles, 'timeouts': [50.0], 'n': 1},
               'bound': bound, 'max_runs': run.pick(6000, 400000)}
    for k, n, bound in sems:
        yield {'kind': 'dfs', 'cfg': {'kind': 'sem', 'k': k, 'cycles': 1, 'timeouts': [50.0], 'n': n},
               'bound': bound, 'max_runs': run.pick(6000, 300000)}


_BASE = None


def setup_shard(run):
    global _BASE
    _BASE = run.subdir('c07')


def record(run, case, one, key):
    cfg = one.cfg
    mon = one.mon
    run.hit('schedules')
    if mon.contended:
        run.hit('contended_schedules')
    run.hit('entries', mon.entries)
    if one.timeouts:
        run.hit('timeouts_judged', one.timeouts)
    if one.reacquired is not None:
        run.hit('reacquire_checks')
    run.count('failed_flock_attempts', mon.failed_attempts)
    run.count('steps', len(one.sched.trace))
    if one.outcome in ('steplimit', 'watchdog'):
        run.count('runs_' + one.outcome)
        run.dc('run_cut_by_' + one.outcome)
    run.judge((cfg, key), nontrivial=mon.contended)
    seen = set()
    for kind, detail in mon.problems:
        if kind in seen:
            continue
        seen.add(kind)
        mech = {'problem': kind, 'lock': cfg['kind'], 'contenders': cfg['k'], 'cycles': cfg['cycles'],
                'needs_third_party': cfg['k'] * cfg['cycles'] >= 3}
        rc = dict(case)
        rc['replay_trace'] = [t[0] for t in one.sched.trace]
        run.violation(mech, rc, '%s: %s | cfg=%r | trace=%r' % (kind, detail, cfg, one.sched.trace[-40:]))


def stress_child(path, kind, n, cycles, seed, marker, result):
    """real process, real clock: lock/unlock cycles with random delays injected at the lock's file-system calls;
    exclusion is observed with an O_EXCL marker file (atomic), never with timing"""
    import random
    import time
    from mapproxy.util.ext import lockfile
    from mapproxy.util import lock as lockmod
    rng = random.Random(seed)
    real_open = open

    def dopen(p, mode='r', *a, **kw):
        time.sleep(rng.choice([0, 0, 0.0003, 0.001]))
        f = real_open(p, mode, *a, **kw)
        time.sleep(rng.choice([0, 0, 0.0003, 0.001]))
        return f
    lockfile.open = dopen

    class OsP(object):
        path = os.path

        def __getattr__(self, k):
            real = getattr(os, k)
            if k == 'remove':
                def f(*a, **kw):
                    time.sleep(rng.choice([0, 0, 0.0005]))
                    return real(*a, **kw)
                return f
            return real
    lockmod.os = OsP()
    bad = 0
    entries = 0
    for c in range(cycles):
        if kind == 'sem':
            lk = lockmod.SemLock(path, n, timeout=20.0, step=0.001)
        else:
            lk = lockmod.FileLock(path, timeout=20.0, step=0.001, remove_on_unlock=(kind == 'remove'))
        try:
            lk.lock()
        except lockmod.LockTimeout:
            del lk
            continue
        entries += 1
        slots = []
        try:
            # at most n markers may exist at once
            got = None
            for j in range(n):
                try:
                    fd = os.open('%s.%d' % (marker, j), os.O_CREAT | os.O_EXCL | os.O_WRONLY)
                    os.close(fd)
                    got = j
                    break
                except FileExistsError:
                    continue
            if got is None:
                bad += 1
            time.sleep(rng.choice([0, 0.0002, 0.001]))
            if got is not None:
                os.unlink('%s.%d' % (marker, got))
        finally:
            lk.unlock()
            del lk
    with real_open(result, 'w') as f:
        f.write('%d %d' % (bad, entries))


def run_stress(run, case):
    rng = run.rng('stress', case['i'])
    kind = rng.choice(['remove', 'remove', 'keep', 'sem'])
    n = rng.choice([1, 2]) if kind == 'sem' else 1
    k = rng.randint(2, 5)
    d = run.subdir('c07s')
    try:
        path = os.path.join(d, 'x.lck')
        marker = os.path.join(d, 'inside')
        pids = []
        for p in range(k):
            res = os.path.join(d, 'res%d' % p)
            pid = os.fork()
            if pid == 0:
                code = 0
                try:
                    stress_child(path, kind, n, 40, rng.random() + p, marker, res)
                except BaseException:   # noqa
                    code = 1
                finally:
                    os._exit(code)
            pids.append((pid, res))
        bad = entries = 0
        crashed = 0
        for pid, res in pids:
            _, st = os.waitpid(pid, 0)
            if st != 0 or not os.path.exists(res):
                crashed += 1
                continue
            b, e = open(res).read().split()
            bad += int(b)
            entries += int(e)
        run.hit('stress_rounds')
        run.hit('stress_entries', entries)
        run.judge(('stress', kind, n, k), nontrivial=True)
        if crashed:
            run.dc('stress_child_crashed')
        if bad:
            run.violation({'problem': 'too_many_holders', 'lock': kind, 'mode': 'multiprocess_stress', 'contenders': k},
                          case, '%d of %d critical-section entries found all %d marker slots taken (%d processes, %s lock)' % (
                              bad, entries, n, k, kind))
    finally:
        shutil.rmtree(d, ignore_errors=True)


def run_holder_dies(run, case):
    """a process is killed (SIGKILL) while it holds the lock: the kernel drops its flock, the lock file stays behind.
    The lock is then free: another process must get it without waiting for a timeout, and get it again after unlocking.
    Real processes, no scheduler; the only clock involved is the generous timeout of the second contender."""
    import signal
    import time
    rng = run.rng('dies', case['i'])
    kind = case.get('lock') or rng.choice(['remove', 'remove', 'keep', 'sem'])
    n = rng.choice([1, 2]) if kind == 'sem' else 1
    victims = n if kind == 'sem' else 1
    where = rng.choice(['holding', 'holding', 'after_unlock_started'])
    d = run.subdir('c07d')
    try:
        from mapproxy.util import lock as lockmod
        path = os.path.join(d, 'sub', 'x.lck') if rng.random() < 0.3 else os.path.join(d, 'x.lck')
        os.makedirs(os.path.dirname(path), exist_ok=True)

        def mk(timeout):
            if kind == 'sem':
                return lockmod.SemLock(path, n, timeout=timeout, step=0.005)
            return lockmod.FileLock(path, timeout=timeout, step=0.005, remove_on_unlock=(kind == 'remove'))
        pids = []
        for v in range(victims):
            r, w = os.pipe()
            pid = os.fork()
            if pid == 0:
                try:
                    os.close(r)
                    lk = mk(10.0)
                    lk.lock()
                    os.write(w, b'L')
                    time.sleep(60)
                finally:
                    os._exit(3)
            os.close(w)
            got = os.read(r, 1)
            os.close(r)
            pids.append(pid)
            if got != b'L':
                run.dc('victim_did_not_get_the_lock')
                for p_ in pids:
                    try:
                        os.kill(p_, signal.SIGKILL)
                        os.waitpid(p_, 0)
                    except Exception:
                        pass
                return
        # while the victims live the lock is taken: a try-lock must fail (sanity of the setup, not judged)
        probe = mk(0.0)
        try:
            probe.lock()
            probe.unlock()
            run.count('holder_dies_probe_got_lock_while_held')
        except lockmod.LockTimeout:
            pass
        del probe
        for p_ in pids:
            os.kill(p_, signal.SIGKILL)
            os.waitpid(p_, 0)
        left = sorted(os.listdir(os.path.dirname(path)))
        run.hit('holder_killed_rounds')
        run.judge(('holder_dies', kind, n), nontrivial=True)
        t0 = time.time()
        for attempt in ('first', 'again'):
            lk = mk(8.0)
            try:
                lk.lock()
            except lockmod.LockTimeout:
                run.violation({'problem': 'not_reacquirable', 'lock': kind, 'mode': 'holder_killed', 'attempt': attempt},
                              case, 'the holder of the %s lock was killed with SIGKILL (files left behind: %r); a new contender '
                              'timed out after %.1f s although nobody holds the lock (attempt: %s)' % (kind, left, time.time() - t0, attempt))
                return
            run.hit('reacquire_after_kill')
            lk.unlock()
            del lk
    finally:
        shutil.rmtree(d, ignore_errors=True)


def run_case(run, case):
    global _BASE
    if case['kind'] == 'stress':
        return run_stress(run, case)
    if case['kind'] == 'holder_dies':
        return run_holder_dies(run, case)
    if _BASE is None:
        _BASE = run.subdir('c07')
    cfg = case['cfg']
    if 'replay_trace' in case and run.replaying:
        one = OneRun(cfg, sched.ReplayChooser(case['replay_trace']), _BASE, rseed=case.get('rseed', 0))
        one.execute()
        record(run, case, one, 'replay')
        return
    if case['kind'] == 'rand':
        rng = run.rng('s', core.jhash(cfg), case['k'])
        st = case['strategy']
        if st == 'random':
            ch = sched.RandomChooser(rng)
        elif st == 'sticky':
            ch = sched.RandomChooser(rng, stickiness=rng.choice([0.5, 0.8, 0.9]))
        else:
            ch = sched.PCTChooser(rng, depth=rng.randint(1, 4), est_steps=12 * cfg['k'] * cfg['cycles'])
        case = dict(case, rseed=case['k'])
        one = OneRun(cfg, ch, _BASE, rseed=case['k'])
        one.execute()
        record(run, case, one, core.jhash(one.sched.trace))
        if case['k'] == 1 and cfg['k'] == 3 and cfg['kind'] == 'remove' and cfg['timeouts'] == [50.0]:
            run.sample({'cfg': cfg, 'strategy': st, 'trace': one.sched.trace[:60], 'entries': one.mon.entries,
                        'max_holders': one.mon.max_holders, 'failed_flock_attempts': one.mon.failed_attempts})
    else:
        nruns = 0
        complete = True

        def once(ch):
            one = OneRun(cfg, ch, _BASE)
            one.execute()
            record(run, case, one, core.jhash(one.sched.trace))
        for ch in sched.dfs(once, preemption_bound=case['bound'], max_runs=case['max_runs']):
            nruns += 1
            if run.out_of_time():
                complete = False
                break
        if nruns >= case['max_runs']:
            complete = False
        run.count('dfs_schedules', nruns)
        run.count('dfs_spaces_completed' if complete else 'dfs_spaces_truncated')
        run.sample({'cfg': cfg, 'dfs_schedules': nruns, 'preemption_bound': case['bound'], 'complete': complete})


def evidence_extra(total):
    return {'exhaustive': False,
            'exhaustive_subspaces': 'DFS over all schedules (bound None) or all schedules with at most `bound` '
                                    'preemptions for the spaces in dfs_cases(): %d completed, %d truncated, %d schedules' % (
                                        total.extra.get('dfs_spaces_completed', 0), total.extra.get('dfs_spaces_truncated', 0),
                                        total.extra.get('dfs_schedules', 0))}


if __name__ == '__main__':
    core.main(sys.modules[__name__])
