"""C19 - compact bundles stay structurally valid, and defragmentation loses nothing.

History + sequential model + structural invariant at quiescent points: operation histories (store, bulk store
within / across bundles, overwrite, remove) run against the real CompactCacheV1 / CompactCacheV2.  After EVERY
operation every bundle file of the cache is parsed by the independent reader vlib/bundle.py; the structural
invariant is checked and the parser's view is compared slot by slot, byte by byte with a python dict.  At
checkpoints a fresh cache object is swept through load_tile / load_tiles / is_cached.  Then the real
defragmentation (mapproxy.script.defrag.defrag_compact_cache, sometimes through the defrag_command CLI entry)
runs with thresholds from "never" to "always": afterwards every address must return identical bytes, no file
may have grown, the invariant must still hold and no temporary file may be left.  More operations and further
defragmentations follow.
"""
import hashlib
import io
import os
import shutil
import sys

from vlib import core
from vlib import bundle as vb

PID = 'C19'
LEVEL = 'exploration'
BUDGET_S = {'quick': 40, 'thorough': 600}
FLOORS = {'quick': {'evaluations': 170000, 'histories': 160, 'nontrivial_histories': 160, 'quiescent_checks': 6800,
                    'bundles_parsed': 13500, 'records_verified': 90000, 'api_reads': 110000, 'overwrites': 3500,
                    'remove_live': 1500, 'bulk_within': 1100, 'bulk_across': 350, 'defrag_runs': 440,
                    'defrag_bundles_rewritten': 300, 'defrag_bundle_shrank': 280, 'defrag_bundles_left_alone': 590,
                    'defrag_addresses_compared': 11000, 'defrag_file_sizes_compared': 1300},
          'thorough': {'evaluations': 3500000, 'histories': 2000, 'nontrivial_histories': 1900,
                       'quiescent_checks': 220000, 'bundles_parsed': 460000, 'records_verified': 4000000,
                       'api_reads': 2300000, 'overwrites': 138000, 'remove_live': 54000, 'bulk_within': 39000,
                       'bulk_across': 12500, 'defrag_runs': 5400, 'defrag_bundles_rewritten': 4200,
                       'defrag_bundle_shrank': 3900, 'defrag_bundles_left_alone': 7200,
                       'defrag_addresses_compared': 138000, 'defrag_file_sizes_compared': 17000}}
RULE = ("case = one history of 10-120 (quick) / 10-400 (thorough) operations on one CompactCacheV1 or V2 directory: "
        "store_tile (new address or overwrite), store_tiles within one bundle and across bundles, remove_tile (live "
        "or absent address), interleaved with 2-3 runs of the real defragmentation with a threshold setting from "
        "never..always; addresses from 1-4 bundles (rows/columns 0..0xff80, also >= 0x10000) using slot classes "
        "corner/edge/128k/last/interior/mirror; payloads 100 B - 300 kB (real PNGs, random bytes, all-zero, all-0xff). "
        "evaluations = quiescent-point judgements (one per operation: every bundle parsed by the independent reader, "
        "invariant + dict comparison) + per-address comparisons of API sweeps + per-defrag judgements. distinct = "
        "(version, collapsed op-kind sequence, slot classes used, defrag threshold classes); non-trivial = the history "
        "contains an overwrite or a remove of a live tile before its first defragmentation")
ASSUMPTIONS = [
    "a v1 index entry equal to 0 (what remove_tile writes) counts as empty, like an entry pointing at a zero length",
    "header fields (file size, max record size, tile count, row/column range) are recorded as notes, not judged: "
    "the property speaks about index entries and records only",
    "a v1 .bundlx without .bundle (remove_tile on a never-written bundle) whose entries are all pristine/null is a "
    "don't-care, not a structural violation: no entry claims a record",
    "single-threaded histories, no crashes (C06/C07 cover those); tile payloads are never empty (0.1-300 kB)",
    "an exception raised by store/remove ends the history as don't-care (the property presumes completed operations); "
    "an exception raised by defragmentation is judged by its consequences (tiles, sizes, temp files)",
    "bundles whose row/column needs more than 4 hex digits are not matched by defrag's glob and stay untouched; "
    "that is inside the property (nothing changes) and is only counted",
]

MB = 1024 * 1024
BYTE_BUDGET = {'quick': 10 * MB, 'thorough': 20 * MB}

# ---- payloads (deterministic functions of the op, independent of run.rng) ----------------------------------

_PNG = {}


def payload(spec):
    kind, size, pseed = spec
    if kind == 'png':
        key = (size, pseed)
        if key not in _PNG:
            import random
            from PIL import Image
            r = random.Random('png:%d:%d' % (size, pseed))
            img = Image.frombytes('RGB', (size, size), r.randbytes(size * size * 3))
            b = io.BytesIO()
            img.save(b, 'PNG')
            if len(_PNG) > 64:
                _PNG.clear()
            _PNG[key] = b.getvalue()
        return _PNG[key]
    if kind == 'zero':
        return b'\x00' * size
    if kind == 'ff':
        return b'\xff' * size
    import random
    data = random.Random('raw:%d:%d' % (size, pseed)).randbytes(size)
    # make every raw payload unique and recognisable: first 8 bytes carry the payload id
    return (b'%08x' % (pseed & 0xffffffff)) + data[8:] if size >= 8 else data


def payload_len(spec):
    if spec[0] == 'png':
        return len(payload(spec))
    return spec[1]


# ---- history generation ----------------------------------------------------------------------------------------

ROWCOL = [0, 0, 0x80, 0x100, 0x380, 0x1380, 0xbd80, 0xe00, 0xde80, 0xff80, 0x10000, 0x1ab80]


def slot_class(sx, sy):
    c = []
    if (sx, sy) == (0, 0):
        return 'slot0'
    if (sx, sy) == (127, 127):
        return 'last'
    if (sx, sy) in ((127, 0), (0, 127)):
        return 'slot127'
    if sx == 0 or sy == 0:
        return '128k'
    if sx == 127 or sy == 127:
        return 'edge127'
    return 'interior'


def gen_universe(rng):
    nb = rng.choice([1, 1, 2, 2, 3, 4])
    bundles = []
    while len(bundles) < nb:
        if bundles and rng.random() < 0.5:
            # neighbour bundle of an existing one (same level, adjacent row/col) or same row/col at another level
            z, r0, c0 = rng.choice(bundles)
            m = rng.randrange(3)
            if m == 0:
                c0 += 128
            elif m == 1:
                r0 += 128
            else:
                z = (z + 1) % 23
            b = (z, r0, c0)
        else:
            b = (rng.choice([0, 1, 7, 8, 9, 12, 16, 17, 22]), rng.choice(ROWCOL), rng.choice(ROWCOL))
        if b not in bundles:
            bundles.append(b)
    addrs = []
    for (z, r0, c0) in bundles:
        slots = set()
        for s in rng.sample([(0, 0), (127, 0), (0, 127), (127, 127)], rng.randint(1, 4)):
            slots.add(s)
        k = rng.randint(1, 126)
        for s in rng.sample([(k, 0), (0, k), (127, k), (k, 127), (1, 0), (0, 1), (126, 127), (127, 126)], rng.randint(1, 4)):
            slots.add(s)
        for _ in range(rng.randint(1, 5)):
            s = (rng.randint(1, 126), rng.randint(1, 126))
            slots.add(s)
            if rng.random() < 0.5:
                slots.add((s[1], s[0]))     # mirror: exposes x/y transposition in slot arithmetic
        if rng.random() < 0.3:
            # a full index row / column segment, exercised by bulk stores
            y = rng.choice([0, 127, rng.randint(1, 126)])
            x0 = rng.choice([0, 120, rng.randint(0, 120)])
            for x in range(x0, x0 + 8):
                slots.add((x, y))
        for (sx, sy) in sorted(slots):
            addrs.append((c0 + sx, r0 + sy, z))
    return bundles, addrs


def gen_size(rng, left):
    r = rng.random()
    if r < 0.40:
        s = rng.randint(100, 1000)
    elif r < 0.70:
        s = rng.randint(1000, 8000)
    elif r < 0.90:
        s = rng.randint(8000, 64000)
    else:
        s = rng.randint(64000, 300000)
    if s > left:
        s = rng.randint(100, 400)
    return s


class Gen(object):
    """generates the steps; keeps a size-only simulation so thresholds can be aimed at the real fragmentation."""

    def __init__(self, rng, tier):
        self.rng = rng
        self.left = BYTE_BUDGET[tier]
        self.bundles, self.addrs = gen_universe(rng)
        self.live = {}      # addr -> size
        self.garbage = {}   # bundle key -> dead bytes
        self.next_p = 0
        self.steps = []

    def bkey(self, a):
        return (a[2], a[1] // 128 * 128, a[0] // 128 * 128)

    def spec(self):
        rng = self.rng
        self.next_p += 1
        r = rng.random()
        if r < 0.25:
            sp = ['png', rng.choice([2, 4, 8, 16, 24, 32, 48, 64, 96]), self.next_p]
        elif r < 0.31:
            sp = ['zero', gen_size(rng, self.left), self.next_p]
        elif r < 0.35:
            sp = ['ff', gen_size(rng, self.left), self.next_p]
        else:
            sp = ['raw', gen_size(rng, self.left), self.next_p]
        self.left -= payload_len(sp) if sp[0] != 'png' else sp[1] * sp[1] * 3 + 100
        return sp

    def pick_addr(self, want_live):
        rng = self.rng
        if want_live and self.live and rng.random() < 0.85:
            return rng.choice(sorted(self.live))
        return rng.choice(self.addrs)

    def _stored(self, a, sp):
        k = self.bkey(a)
        if a in self.live:
            self.garbage[k] = self.garbage.get(k, 0) + self.live[a] + 4
        self.live[a] = payload_len(sp) if sp[0] != 'png' else sp[1] * sp[1] * 3
        # (png size is only an estimate for the simulation; thresholds need not be exact)

    def op(self):
        rng = self.rng
        r = rng.random()
        if r < 0.30:
            a = self.pick_addr(False)
            sp = self.spec()
            self._stored(a, sp)
            self.steps.append(['store', list(a), sp])
        elif r < 0.50:
            a = self.pick_addr(True)          # mostly overwrite
            sp = self.spec()
            self._stored(a, sp)
            self.steps.append(['store', list(a), sp])
        elif r < 0.64:
            # bulk within one bundle
            k = self.bkey(rng.choice(self.addrs))
            pool = [a for a in self.addrs if self.bkey(a) == k]
            grp = rng.sample(pool, rng.randint(2, min(len(pool), 9))) if len(pool) >= 2 else pool
            items = []
            for a in grp:
                sp = self.spec()
                self._stored(a, sp)
                items.append([list(a), sp])
            self.steps.append(['store_many', items])
        elif r < 0.74:
            grp = rng.sample(self.addrs, rng.randint(2, min(len(self.addrs), 8)))
            items = []
            for a in grp:
                sp = self.spec()
                self._stored(a, sp)
                items.append([list(a), sp])
            self.steps.append(['store_many', items])
        else:
            a = self.pick_addr(True)
            if a in self.live:
                k = self.bkey(a)
                self.garbage[k] = self.garbage.get(k, 0) + self.live.pop(a) + 4
            self.steps.append(['remove', list(a)])

    def defrag(self):
        rng = self.rng
        r = rng.random()
        g = sorted(v for v in self.garbage.values() if v) or [4096]
        gb = rng.choice(g)
        if r < 0.10:
            d = {'cls': 'never_pct', 'min_percent': 1.01, 'min_bytes': 0}
        elif r < 0.18:
            d = {'cls': 'never_bytes', 'min_percent': 0.0, 'min_bytes': 1 << 40}
        elif r < 0.45:
            d = {'cls': 'always', 'min_percent': 0.0, 'min_bytes': 0}
        elif r < 0.53:
            d = {'cls': 'default', 'min_percent': 0.1, 'min_bytes': MB}
        elif r < 0.65:
            d = {'cls': 'pct', 'min_percent': rng.choice([0.01, 0.05, 0.1, 0.3, 0.5, 0.9]), 'min_bytes': 0}
        elif r < 0.77:
            d = {'cls': 'bytes', 'min_percent': 0.0, 'min_bytes': rng.choice([1, 1000, 20000, 200000, MB])}
        elif r < 0.89:
            # aimed at the simulated garbage of one bundle: exactly at / just above / just below
            d = {'cls': 'edge_bytes', 'min_percent': 0.0, 'min_bytes': gb + rng.choice([-1, 0, 1])}
        elif r < 0.95:
            d = {'cls': 'both', 'min_percent': rng.choice([0.02, 0.2]), 'min_bytes': max(1, gb // 2)}
        else:
            d = {'cls': 'dry_run', 'min_percent': 0.0, 'min_bytes': 0, 'dry_run': True}
        d['cli'] = (not d.get('dry_run')) and d['cls'] not in ('edge_bytes',) and rng.random() < 0.12
        if not d.get('dry_run') and d['cls'] not in ('never_pct', 'never_bytes'):
            # what will (roughly) be rewritten is compacted in the simulation
            for k in list(self.garbage):
                self.garbage[k] = 0
        self.steps.append(['defrag', d])


def gen_history(rng, tier):
    g = Gen(rng, tier)
    if tier == 'thorough':
        total = rng.choice([10, 20, 40, 80, 120, 200, 300, 400])
    else:
        total = rng.choice([10, 15, 25, 40, 60, 90, 120])
    total = rng.randint(max(10, total // 2), total)
    n1 = max(3, int(total * rng.uniform(0.3, 0.7)))
    n2 = max(2, int((total - n1) * rng.uniform(0.4, 0.9)))
    n3 = max(0, total - n1 - n2)
    for _ in range(n1):
        g.op()
    g.defrag()
    if rng.random() < 0.2:
        g.defrag()          # twice in a row
    for _ in range(n2):
        g.op()
    g.defrag()
    for _ in range(n3):
        g.op()
    if n3 and rng.random() < 0.5:
        g.defrag()
    return g.steps, [list(b) for b in g.bundles], [list(a) for a in g.addrs]


# ---- execution ----------------------------------------------------------------------------------------------

def bkey(a):
    return (a[2], a[1] // 128 * 128, a[0] // 128 * 128)


def bundle_relpath(key):
    z, r0, c0 = key
    return os.path.join('L%02d' % z, 'R%04xC%04x.bundle' % (r0, c0))


def read_source(tile):
    if tile.source is None:
        return None
    buf = tile.source.as_buffer()
    try:
        buf.seek(0)
    except Exception:
        pass
    data = buf.read()
    tile.source.close_buffers()
    return data


def _h(b):
    if b is None:
        return None
    return 'len%d:%s' % (len(b), hashlib.md5(b).hexdigest()[:8])


class Exec(object):
    def __init__(self, run, version, steps, universe):
        self.run = run
        self.version = version
        self.steps = steps
        self.universe = set(tuple(a) for a in universe)
        self.model = {}                 # addr -> bytes
        self.by_bundle = {}             # bundle key -> {(sx, sy): bytes}
        self.dir = run.subdir('c19')
        self.cdir = os.path.join(self.dir, 'cache')
        self.failed = False
        self.aborted = False
        self.kinds = []                 # op-kind sequence
        self.slot_classes = set()
        self.thr_classes = []
        self.nontrivial = False
        self.seen_defrag = False
        self.step_i = -1
        self.notes = {}

    # ---- plumbing ----
    def make_cache(self):
        from mapproxy.cache.compact import CompactCacheV1, CompactCacheV2
        return (CompactCacheV1 if self.version == 1 else CompactCacheV2)(self.cdir)

    def tile(self, a, data=None):
        from mapproxy.cache.tile import Tile
        from mapproxy.image import ImageSource
        t = Tile((a[0], a[1], a[2]))
        if data is not None:
            t.source = ImageSource(io.BytesIO(data))
        return t

    def case(self):
        return {'kind': 'explicit', 'version': self.version, 'steps': self.steps,
                'universe': [list(a) for a in sorted(self.universe)]}

    def fail(self, mech, detail):
        self.failed = True
        m = {'version': self.version}
        m.update(mech)
        hist = ' | '.join(_fmt_step(s) for s in self.steps[max(0, self.step_i - 6):self.step_i + 1])
        self.run.violation(m, self.case(), "step#%s of %d (v%d): %s\n  last steps: %s" % (
            self.step_i, len(self.steps), self.version, detail, hist))

    def set_model(self, a, data):
        a = tuple(a)
        k = bkey(a)
        s = (a[0] - k[2], a[1] - k[1])
        if data is None:
            self.model.pop(a, None)
            self.by_bundle.get(k, {}).pop(s, None)
        else:
            self.model[a] = data
            self.by_bundle.setdefault(k, {})[s] = data
        self.universe.add(a)
        self.slot_classes.add(slot_class(*s))

    # ---- the structural invariant + model agreement, through the independent parser ----
    def list_files(self):
        files = {}
        for root, dirs, fns in os.walk(self.cdir):
            for fn in fns:
                p = os.path.join(root, fn)
                try:
                    st = os.stat(p)
                except OSError:
                    continue
                files[os.path.relpath(p, self.cdir)] = (st.st_size, st.st_ino)
        return files

    def quiescent(self, after, files=None):
        """parse every bundle; invariant; dict agreement.  `after` = op kind that just finished."""
        run = self.run
        files = files if files is not None else self.list_files()
        run.judge()
        run.hit('quiescent_checks')
        ok = True
        seen_keys = set()
        for rel in sorted(files):
            if rel.endswith('.bundle'):
                pass
            elif rel.endswith('.bundlx') and self.version == 1:
                if rel[:-1] + 'e' in files:
                    continue
                # index without data file
                if os.path.basename(rel).startswith('tmp_defrag'):
                    continue    # judged as temp file by the defrag check
                v = vb.parse_bundle(os.path.join(self.cdir, rel[:-1] + 'e'), 1)
                key = vb.bundle_address(rel[:-1] + 'e')
                if v.orphan_index_all_empty and not self.by_bundle.get(key):
                    run.dc('v1_index_without_data_all_entries_empty')
                    continue
                ok = False
                self.fail({'clause': 'structure', 'problem': 'index_without_data', 'after': after},
                          "%s has no data file but %s" % (rel, 'non-empty entries' if not v.orphan_index_all_empty
                                                           else 'the model holds tiles for it'))
                continue
            else:
                if rel.endswith('.lck'):
                    run.count('lock_files_seen_at_quiescence')
                else:
                    run.count('other_files_seen_at_quiescence')
                continue
            if os.path.basename(rel).startswith('tmp_defrag'):
                continue
            key = vb.bundle_address(rel)
            if key is None or bundle_relpath(key) != rel:
                run.count('bundle_files_with_unexpected_name')
                self.fail({'clause': 'structure', 'problem': 'unexpected_bundle_name', 'after': after},
                          "bundle file %s does not follow Lzz/RrrrrCcccc.bundle" % rel)
                ok = False
                continue
            seen_keys.add(key)
            run.hit('bundles_parsed')
            with vb.parse_bundle(os.path.join(self.cdir, rel), self.version) as v:
                for n in v.notes:
                    run.count('note_' + n['kind'])
                if v.null_slots:
                    run.count('bundle_parses_with_null_entries')
                if v.problems:
                    ok = False
                    kinds = sorted(set(p['kind'] for p in v.problems))
                    self.fail({'clause': 'structure', 'problem': kinds[0], 'after': after},
                              "%s: %d structural problems, e.g. %s" % (rel, len(v.problems), v.problems[:3]))
                want = self.by_bundle.get(key, {})
                bad_slots = set(tuple(p['slot']) for p in v.problems if 'slot' in p)
                nrec = 0
                for s, (off, size) in v.slots.items():
                    data = want.get(s)
                    if data is None:
                        ok = False
                        self.fail({'clause': 'model', 'obs': 'phantom', 'view': 'parser', 'after': after},
                                  "%s slot %s holds a record (offset %d, size %d) but the address was never "
                                  "stored or was removed" % (rel, s, off, size))
                        continue
                    mv = v.view(*s)
                    same = (mv is not None and size == len(data) and mv == data)
                    if mv is not None:
                        mv.release()
                    nrec += 1
                    if not same:
                        ok = False
                        got = v.get(*s)
                        self.fail({'clause': 'model', 'obs': 'wrong_size' if size != len(data) else 'wrong_bytes',
                                   'view': 'parser', 'after': after},
                                  "%s slot %s: record at offset %d size %d = %s, expected %s" % (
                                      rel, s, off, size, _h(got[2]) if got else None, _h(data)))
                run.hit('records_verified', nrec)
                for s in want:
                    if s not in v.slots and s not in bad_slots:
                        ok = False
                        self.fail({'clause': 'model', 'obs': 'missing', 'view': 'parser', 'after': after},
                                  "%s slot %s is empty in the file but the model holds %s" % (rel, s, _h(want[s])))
        for key, want in self.by_bundle.items():
            if want and key not in seen_keys:
                ok = False
                self.fail({'clause': 'model', 'obs': 'missing', 'view': 'parser', 'after': after,
                           'bundle_file': 'absent'},
                          "no bundle file %s although the model holds %d tiles for it" % (bundle_relpath(key), len(want)))
        return ok

    # ---- the cache API through a fresh object ----
    def api_sweep(self, after, reference=None):
        """load_tile / is_cached / load_tiles for the whole universe; compared with the model (and `reference`)."""
        run = self.run
        cache = self.make_cache()
        uni = sorted(self.universe)
        got_all = {}
        ok = True
        try:
            for a in uni:
                t = self.tile(a)
                cache.load_tile(t)
                got = read_source(t)
                got_all[a] = got
                ok &= self.expect(a, got, 'load_tile', after)
                c = bool(cache.is_cached(self.tile(a)))
                run.judge()
                if c != (a in self.model):
                    ok = False
                    self.fail({'clause': 'model', 'obs': 'phantom' if c else 'missing', 'view': 'is_cached',
                               'after': after}, "is_cached(%s) = %s, model says %s" % (a, c, a in self.model))
            groups = {}
            for a in uni:
                groups.setdefault(bkey(a), []).append(a)
            for k, grp in groups.items():
                tiles = [self.tile(a) for a in grp]
                cache.load_tiles(tiles)
                for a, t in zip(grp, tiles):
                    ok &= self.expect(a, read_source(t), 'load_tiles', after)
            if len(groups) > 1:
                tiles = [self.tile(a) for a in uni]
                cache.load_tiles(tiles)
                for a, t in zip(uni, tiles):
                    ok &= self.expect(a, read_source(t), 'load_tiles_across', after)
        except Exception as ex:
            import traceback
            ok = False
            self.fail({'clause': 'model', 'obs': 'exception', 'view': 'api', 'after': after,
                       'exc': type(ex).__name__}, "API sweep raised %r\n%s" % (ex, traceback.format_exc()[-1200:]))
        run.hit('api_sweeps')
        if reference is not None:
            for a, before in reference.items():
                run.judge()
                run.hit('defrag_addresses_compared')
                if got_all.get(a, before) != before:
                    ok = False
                    self.fail({'clause': 'defrag_changed_tile', 'after': after,
                               'obs': 'missing' if got_all.get(a) is None else
                                      ('phantom' if before is None else 'wrong_bytes')},
                              "address %s returned %s before defrag and %s after" % (a, _h(before), _h(got_all.get(a))))
        return got_all, ok

    def expect(self, a, got, via, after):
        self.run.judge()
        self.run.hit('api_reads')
        want = self.model.get(a)
        if got == want:
            return True
        obs = 'missing' if got is None else ('phantom' if want is None else 'wrong_bytes')
        other = [k for k, v in self.model.items() if v == got and k != a][:3] if got is not None else []
        self.fail({'clause': 'model', 'obs': obs, 'view': via, 'after': after},
                  "%s(%s) returned %s, model says %s%s" % (via, a, _h(got), _h(want),
                                                          (' (bytes of %s)' % other) if other else ''))
        return False

    # ---- steps ----
    def do_op(self, step):
        k = step[0]
        cache = self.make_cache() if self.step_i % 7 == 0 or self.cache is None else self.cache
        self.cache = cache
        try:
            if k == 'store':
                a = tuple(step[1])
                data = payload(step[2])
                kind = 'overwrite' if a in self.model else 'store_new'
                cache.store_tile(self.tile(a, data))
                self.set_model(a, data)
            elif k == 'store_try':
                # a store that the cache may refuse (payload at the limits of the format's size fields): a refusal leaves
                # the address as it was, a success must be readable; either way the bundle must stay valid
                a = tuple(step[1])
                data = payload(step[2])
                kind = 'store_at_size_limit'
                try:
                    res = cache.store_tile(self.tile(a, data))
                except Exception as ex:
                    res = False
                    self.run.count('store_at_size_limit_raised_%s' % type(ex).__name__)
                    self.cache = None      # a fresh cache object after a failed store
                if res is False:
                    self.run.count('store_at_size_limit_refused')
                else:
                    self.run.count('store_at_size_limit_accepted')
                    self.set_model(a, data)
            elif k == 'store_many':
                items = [(tuple(a), payload(sp)) for a, sp in step[1]]
                keys = set(bkey(a) for a, _ in items)
                kind = 'bulk_within' if len(keys) == 1 else 'bulk_across'
                if any(a in self.model for a, _ in items):
                    kind += '_ow'
                cache.store_tiles([self.tile(a, d) for a, d in items])
                for a, d in items:
                    self.set_model(a, d)
            elif k == 'remove':
                a = tuple(step[1])
                kind = 'remove_live' if a in self.model else 'remove_absent'
                cache.remove_tile(self.tile(a))
                self.set_model(a, None)
            else:
                raise ValueError(k)
        except Exception as ex:
            import traceback
            self.run.dc('operation_raised_%s_%s' % (k, type(ex).__name__))
            self.run.count('op_exceptions')
            self.notes['exception'] = "%s raised %r %s" % (_fmt_step(step), ex, traceback.format_exc()[-600:])
            self.aborted = True
            return None
        if not self.seen_defrag and (kind in ('overwrite', 'remove_live') or kind.endswith('_ow')):
            self.nontrivial = True
        self.run.hit(kind.replace('_ow', ''))
        if kind.endswith('_ow') or kind == 'overwrite':
            self.run.hit('overwrites')
        self.kinds.append(kind)
        return kind

    def do_defrag(self, d):
        run = self.run
        self.seen_defrag = True
        self.thr_classes.append(d['cls'] + ('/cli' if d.get('cli') else ''))
        self.kinds.append('defrag')
        before_api, ok = self.api_sweep('pre_defrag')
        if not ok:
            return
        before_files = self.list_files()      # after the sweep: v1 creates an empty data file when it reads
                                              # through an index whose data file is missing
        hashes = None
        if d.get('dry_run'):
            hashes = {rel: _file_md5(os.path.join(self.cdir, rel)) for rel in before_files}
        exc = None
        try:
            if d.get('cli'):
                self.defrag_cli(d)
            else:
                from mapproxy.script.defrag import defrag_compact_cache
                defrag_compact_cache(self.make_cache(), min_percent=d['min_percent'], min_bytes=d['min_bytes'],
                                     dry_run=bool(d.get('dry_run')))
        except BaseException as ex:     # SystemExit from the CLI path included
            if isinstance(ex, KeyboardInterrupt):
                raise
            import traceback
            exc = "%r %s" % (ex, traceback.format_exc()[-800:])
            run.count('defrag_exceptions')
        run.hit('defrag_runs')
        mech = {'thr': d['cls'], 'cli': bool(d.get('cli')), 'raised': exc is not None}
        after_files = self.list_files()
        good = True
        # 1. no temporary files left behind, nothing new
        for rel in sorted(after_files):
            base = os.path.basename(rel)
            if base.startswith('tmp_defrag') or (rel not in before_files):
                good = False
                self.fail(dict(mech, clause='defrag_temp_left' if base.startswith('tmp_defrag') else 'defrag_new_file'),
                          "after defrag(%s) the cache directory holds %s (%d bytes) which was not there before%s" % (
                              _fmt_thr(d), rel, after_files[rel][0], ('; defrag raised ' + exc) if exc else ''))
        # 2. no file grew
        rewrote = 0
        for rel, (size, ino) in sorted(before_files.items()):
            if rel not in after_files:
                run.count('defrag_removed_files')
                continue
            run.judge()
            run.hit('defrag_file_sizes_compared')
            nsize, nino = after_files[rel]
            if nino != ino and rel.endswith('.bundle'):
                rewrote += 1
                if nsize < size:
                    run.hit('defrag_bundle_shrank')
            if nsize > size:
                good = False
                self.fail(dict(mech, clause='defrag_file_grew'),
                          "defrag(%s): %s grew from %d to %d bytes" % (_fmt_thr(d), rel, size, nsize))
        run.hit('defrag_bundles_rewritten', rewrote)
        if d.get('cli'):
            run.count('defrag_bundles_rewritten_via_cli', rewrote)
        nb = len([r for r in before_files if r.endswith('.bundle')])
        run.hit('defrag_bundles_left_alone', nb - rewrote)
        unmatched = [r for r in before_files if r.endswith('.bundle') and len(os.path.basename(r)) != len('R0000C0000.bundle')]
        if unmatched:
            run.count('bundles_with_5_hex_digit_names_not_globbed_by_defrag', len(unmatched))
        if d.get('dry_run'):
            for rel, hsh in hashes.items():
                run.judge()
                if rel not in after_files or _file_md5(os.path.join(self.cdir, rel)) != hsh:
                    good = False
                    self.fail(dict(mech, clause='dry_run_modified'), "dry-run defrag modified %s" % rel)
        # 3. invariant still holds + dict agreement (parser view)
        good &= self.quiescent('defrag', after_files)
        # 4. every address returns identical bytes (API view, fresh object)
        _, ok2 = self.api_sweep('defrag', reference=before_api)
        good &= ok2
        if exc is not None and good:
            run.dc('defrag_raised_without_damage')
            self.notes['defrag_exception'] = exc

    def defrag_cli(self, d):
        from mapproxy.script.defrag import defrag_command
        conf = os.path.join(self.dir, 'mapproxy.yaml')
        with open(conf, 'w') as f:
            f.write("services:\n  demo:\n"
                    "layers:\n  - name: l\n    title: l\n    sources: [c]\n"
                    "caches:\n  c:\n    grids: [GLOBAL_MERCATOR]\n    sources: []\n"
                    "    cache:\n      type: compact\n      version: %d\n      directory: %s\n" % (self.version, self.cdir))
        # CLI units: percent and megabytes
        args = ['defrag-compact', '-f', conf, '--min-percent', repr(d['min_percent'] * 100.0),
                '--min-mb', repr(d['min_bytes'] / float(MB))]
        defrag_command(args)
        self.run.count('defrag_via_cli')

    def execute(self):
        run = self.run
        self.cache = None
        try:
            for i, step in enumerate(self.steps):
                self.step_i = i
                if step[0] == 'defrag':
                    self.do_defrag(step[1])
                else:
                    kind = self.do_op(step)
                    if self.aborted:
                        break
                    self.quiescent(kind.replace('_ow', ''))
                    if (i * 7 + len(self.steps)) % 11 == 0:
                        self.api_sweep(kind.replace('_ow', ''))
                if self.failed:
                    break       # the model can no longer be trusted after a disagreement
            if not self.failed and not self.aborted:
                self.step_i = len(self.steps) - 1
                self.api_sweep('end')
        finally:
            shutil.rmtree(self.dir, ignore_errors=True)
        sig = []
        for k in self.kinds:
            if not sig or sig[-1] != k:
                sig.append(k)
        cls = (self.version, sig[:14], sorted(set(self.kinds)), sorted(self.slot_classes), self.thr_classes)
        run.judge(cls, nontrivial=self.nontrivial and not self.aborted, n=0)
        run.hit('histories')
        if self.nontrivial:
            run.hit('nontrivial_histories')
        return not self.failed


def _file_md5(p):
    h = hashlib.md5()
    with open(p, 'rb') as f:
        while True:
            b = f.read(1 << 20)
            if not b:
                break
            h.update(b)
    return h.hexdigest()


def _fmt_thr(d):
    return "%s: min_percent=%s min_bytes=%s%s%s" % (d['cls'], d['min_percent'], d['min_bytes'],
                                                  ' dry_run' if d.get('dry_run') else '', ' via CLI' if d.get('cli') else '')


def _fmt_step(s):
    if s[0] in ('store', 'store_try'):
        return "%s%s %s%d" % (s[0], tuple(s[1]), s[2][0], s[2][1])
    if s[0] == 'store_many':
        return "store_tiles[%s]" % ', '.join("%s %s%d" % (tuple(a), sp[0], sp[1]) for a, sp in s[1])
    if s[0] == 'remove':
        return "remove%s" % (tuple(s[1]),)
    return "defrag(%s)" % _fmt_thr(s[1])


# ---- cases ---------------------------------------------------------------------------------------------------

def directed():
    """hand-written histories: slot extremes, bundle borders, full rewrite, everything removed."""
    hs = []
    A = {'cls': 'always', 'min_percent': 0.0, 'min_bytes': 0}
    N = {'cls': 'never_pct', 'min_percent': 1.01, 'min_bytes': 0}
    D = {'cls': 'default', 'min_percent': 0.1, 'min_bytes': MB}
    p = [0]

    def sp(kind='raw', size=300):
        p[0] += 1
        return [kind, size, p[0]]
    # corners of one bundle, overwrite, remove, defrag always, more ops, defrag again
    c = [[0, 0, 8], [127, 0, 8], [0, 127, 8], [127, 127, 8], [128, 127, 8], [127, 128, 8]]
    hs.append([['store', a, sp()] for a in c] + [['store', c[0], sp('raw', 5000)], ['remove', c[1]],
              ['defrag', A], ['store', c[1], sp('png', 16)], ['store', c[3], sp('zero', 700)], ['remove', c[2]],
              ['defrag', A], ['defrag', A]])
    # everything removed -> bundle vanishes on defrag; then stored again
    hs.append([['store', [5, 6, 3], sp()], ['store', [6, 5, 3], sp()], ['remove', [5, 6, 3]], ['remove', [6, 5, 3]],
               ['defrag', A], ['store', [5, 6, 3], sp()], ['defrag', A]])
    # remove on a never-written bundle, then defrag, then store
    hs.append([['remove', [0x380 + 1, 0x1380 + 2, 14]], ['defrag', A], ['store', [0x380 + 1, 0x1380 + 2, 14], sp()],
               ['store', [0x380 + 1, 0x1380 + 2, 14], sp()], ['defrag', A]])
    # bulk rows, large payloads, default thresholds (1 MB garbage needed)
    row = [[x, 127, 9] for x in range(120, 128)]
    hs.append([['store_many', [[a, sp('raw', 150000)] for a in row]], ['store_many', [[a, sp('raw', 150000)] for a in row]],
               ['defrag', N], ['defrag', D], ['store_many', [[a, sp('ff', 1000)] for a in row[:3]]], ['defrag', D],
               ['defrag', A]])
    # names with hex letters from the rstrip set, and 5-digit names
    hs.append([['store', [0xbd80 + 3, 0xde80 + 4, 16], sp()], ['store', [0xbd80 + 3, 0xde80 + 4, 16], sp()],
               ['store', [0xe00, 0xbe00, 16], sp()], ['store', [0xe00, 0xbe00, 16], sp()],
               ['store', [0x10000, 0x1ab80, 18], sp()], ['store', [0x10000, 0x1ab80, 18], sp()], ['defrag', A],
               ['remove', [0xe00, 0xbe00, 16]], ['defrag', A]])
    # payloads at the limit of the v2 index size field (24 bits) and beyond: accepted and readable, or refused
    L = 1 << 24
    hs.append([['store', [3, 4, 5], sp()], ['store_try', [4, 4, 5], sp('raw', L - 1)], ['store_try', [5, 4, 5], sp('raw', L)],
               ['store', [6, 4, 5], sp()], ['store_try', [7, 4, 5], sp('raw', L + 5)], ['store', [3, 4, 5], sp()],
               ['defrag', A], ['store_try', [4, 4, 5], sp('raw', L + 300)], ['defrag', A]])
    return hs


def gen_cases(run):
    for v in (1, 2):
        for i in range(len(directed())):
            yield {'kind': 'directed', 'version': v, 'i': i}
    n = run.pick(200, 2500)
    for h in range(n):
        for v in (1, 2):
            yield {'kind': 'rand', 'version': v, 'hseed': h}


def run_case(run, case):
    v = case['version']
    if case['kind'] == 'explicit':
        Exec(run, v, case['steps'], case.get('universe', [])).execute()
        return
    if case['kind'] == 'directed':
        steps = directed()[case['i']]
        uni = []
    else:
        rng = run.rng('h', case['hseed'])      # the same history for v1 and v2
        steps, bundles, uni = gen_history(rng, run.tier)
    ex = Exec(run, v, steps, uni)
    ok = ex.execute()
    run.count('%s_histories' % case['kind'])
    run.count('operations', len([s for s in steps if s[0] != 'defrag']))
    if case['kind'] == 'directed' or case.get('hseed', 99) < 2:
        run.sample({'version': v, 'kind': case['kind'], 'steps': [_fmt_step(s) for s in steps][:40],
                    'n_steps': len(steps), 'op_kinds': ex.kinds[:60], 'slot_classes': sorted(ex.slot_classes),
                    'thresholds': ex.thr_classes, 'held': ok, 'notes': ex.notes})


def evidence_extra(total):
    return {'exhaustive': False}


if __name__ == '__main__':
    core.main(sys.modules[__name__])
