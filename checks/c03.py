"""C03 - tile grids tile the plane.  The public grid API is called with generated grids / points / rectangles /
resolutions and every return value is judged by an exact rational model (vlib.gridmodel)."""
import math
import sys
from fractions import Fraction as F

from vlib import core
from vlib.gridmodel import GridModel, fr, overlap

PID = 'C03'
LEVEL = 'exploration'
BUDGET_S = {'quick': 40, 'thorough': 600}
FLOORS = {'quick': {'affected_other_srs_rects': 120, 'affected_other_srs_points': 25000, 'level_order_checked': 100, 'shared_object_rounds': 150, 'shared_object_answers_compared': 100000, 'point_in_tile': 20000, 'shared_edges': 20000, 'flip': 10000, 'affected_required': 20000,
                    'affected_forbidden': 20000, 'affected_layout': 5000, 'level_choice': 20000,
                    'origin_support_true': 50, 'origin_support_false': 50, 'traffic_requests': 150,
                    'monitored_affected_calls': 150, 'monitored_tile_bbox_calls': 500, 'monitored_level_calls': 100},
          'thorough': {'point_in_tile': 400000, 'shared_edges': 400000, 'flip': 200000,
                       'affected_required': 400000, 'affected_forbidden': 400000, 'affected_layout': 100000,
                       'level_choice': 400000, 'origin_support_true': 1000, 'origin_support_false': 1000,
                       'traffic_requests': 4000, 'monitored_affected_calls': 4000, 'monitored_tile_bbox_calls': 12000,
                       'monitored_level_calls': 2500}}
RULE = ("case = one generated grid (srs, bbox class, tile size, resolution ladder class, origin, stretch) probed "
        "with points (uniform, on tile edges, one ulp beside edges, corners), rectangles (inside, touching edges "
        "exactly, overlapping by +-{0,.05,.1,.11,1} px, across the grid border, far outside) and resolutions (on, "
        "between, one ulp beside level resolutions and stretch thresholds). evaluations = oracle judgements of "
        "the exact model; distinct = (grid-shape class, clause, edge class); trivial = judgements whose rectangle "
        "/point was generated without reference to a tile edge, level resolution or grid border")
ASSUMPTIONS = [
    "exact model over Fractions of the float inputs is the specification of the grid",
    "tolerance tau = res*1e-3 for point/edge comparisons; overlap in (0, 0.1px+tau] is don't-care (documented inset)",
    "threshold_res is outside the statement and not generated",
    "grids restricted to the numerically meaningful range: resolution >= 1e-9 of the coordinate magnitude",
]


def gen_grid_spec(rng):
    srs = rng.choice(['EPSG:3857', 'EPSG:4326', 'EPSG:25832', 'EPSG:3035', 'EPSG:900913'])
    bclass = rng.choice(['global', 'regional', 'integer', 'irrational', 'offset', 'tiny', 'nearly_aligned', 'nearly_aligned'])
    if srs in ('EPSG:3857', 'EPSG:900913'):
        world = (-20037508.342789244, -20037508.342789244, 20037508.342789244, 20037508.342789244)
    elif srs == 'EPSG:4326':
        world = (-180.0, -90.0, 180.0, 90.0)
    elif srs == 'EPSG:25832':
        world = (-46133.17, 5048875.26857567, 1206211.10142433, 6301219.54)
    else:
        world = (2000000.0, 1000000.0, 6500000.0, 5500000.0)
    W, H = world[2] - world[0], world[3] - world[1]
    if bclass == 'global':
        bbox = world
    elif bclass == 'regional':
        x0 = world[0] + rng.random() * W * 0.7
        y0 = world[1] + rng.random() * H * 0.7
        bbox = (x0, y0, x0 + W * rng.uniform(0.01, 0.3), y0 + H * rng.uniform(0.01, 0.3))
    elif bclass == 'integer':
        x0 = math.floor(world[0] + rng.random() * W * 0.5)
        y0 = math.floor(world[1] + rng.random() * H * 0.5)
        bbox = (float(x0), float(y0), float(x0 + rng.choice([1, 10, 40, 1000, 12345])),
                float(y0 + rng.choice([1, 10, 40, 777, 20000])))
    elif bclass == 'irrational':
        x0 = world[0] + math.pi * rng.uniform(0, W / 8)
        y0 = world[1] + math.e * rng.uniform(0, H / 8)
        bbox = (x0, y0, x0 + math.sqrt(2) * rng.uniform(W / 100, W / 3), y0 + math.sqrt(3) * rng.uniform(H / 100, H / 3))
    elif bclass == 'offset':
        # large coordinates, small extent
        x0 = world[2] - W * 0.01 * rng.random() - 5000
        y0 = world[3] - H * 0.01 * rng.random() - 5000
        bbox = (x0, y0, x0 + rng.uniform(100, 4000), y0 + rng.uniform(100, 4000))
        if srs == 'EPSG:4326':
            bbox = (170.0 + rng.random(), 80.0 + rng.random(), 175.0 + rng.random(), 85.0 + rng.random())
    else:
        bbox = (0.0, 0.0, rng.uniform(0.5, 3.0), rng.uniform(0.5, 3.0))
    if bclass == 'nearly_aligned':
        bbox = (0.0, 0.0, 1.0, 1.0)   # replaced below
    tile_size = rng.choice([(256, 256), (256, 256), (512, 512), (256, 128), (100, 300), (64, 64)])
    origin = rng.choice(['ll', 'ul', 'sw', 'nw', None])
    lclass = rng.choice(['f2', 'f2', 'sqrt2', 'free', 'list', 'single', 'minres'])
    near = None
    if bclass == 'nearly_aligned':
        # rows of every level fill the bbox exactly, or miss it by a small fraction of a pixel
        r0 = rng.choice([100.0, 50.0, 0.5, 1000.0, 0.703125])
        div = rng.choice([[1, 2, 5], [1, 2, 4, 8], [1, 2], [1, 5, 10], [1]])
        nx0, ny0 = rng.randint(1, 3), rng.randint(1, 3)
        x0 = rng.choice([0.0, 0.0, 500000.0, -20037508.0, 3.5e6]) if r0 > 1 else rng.choice([0.0, -180.0, 10.0])
        y0 = rng.choice([0.0, 0.0, 5.2e6, -20037508.0]) if r0 > 1 else rng.choice([0.0, -90.0, 40.0])
        rl = r0 / div[-1]
        eps = rng.choice([0.0, 0.0, 1e-9, 1e-6, 0.005, 0.01, 0.03, 0.05, 0.09, 0.2, 0.5]) * rl
        exs = rng.choice([0.0, 0.0, 0.01, 0.3]) * rl
        bbox = (x0, y0, x0 + nx0 * tile_size[0] * r0 - exs, y0 + ny0 * tile_size[1] * r0 - eps)
        near = [r0 / d_ for d_ in div]
        lclass = 'list'
    spec = {'srs': srs, 'bbox': list(bbox), 'tile_size': list(tile_size), 'origin': origin, 'bclass': bclass,
            'lclass': lclass, 'stretch': rng.choice([1.15, 1.15, 1.0, 1.01, 1.5, 1.3])}
    w, h = bbox[2] - bbox[0], bbox[3] - bbox[1]
    r0 = max(w / tile_size[0], h / tile_size[1])
    mag = max(abs(v) for v in bbox)
    floor_res = max(mag * 1e-9, r0 / 2 ** 24)
    if lclass == 'f2':
        spec['res_factor'] = 2.0
        spec['num_levels'] = rng.randint(1, 22)
    elif lclass == 'sqrt2':
        spec['res_factor'] = 'sqrt2'
        spec['num_levels'] = rng.randint(2, 40)
    elif lclass == 'free':
        spec['res_factor'] = rng.uniform(1.1, 3.0)
        spec['num_levels'] = rng.randint(2, 18)
    elif lclass == 'single':
        spec['res'] = [r0 * rng.uniform(0.05, 1.0)]
    elif lclass == 'minres':
        spec['res_factor'] = 2.0
        spec['min_res'] = r0 * rng.uniform(0.3, 3.0)
        spec['num_levels'] = rng.randint(2, 16)
    elif near is not None:
        spec['res'] = near
    else:
        n = rng.randint(2, 14)
        rs = set()
        r = r0 * rng.uniform(0.5, 1.5)
        for _ in range(n):
            rs.add(r)
            r = r / rng.choice([2.0, 1.05, 1.1, 1.5, 3.0, 10.0, 1.2])
        spec['res'] = sorted(rs, reverse=True)
        how = rng.random()
        if how < 0.2 and len(spec['res']) > 2:
            # the list as people write it: a resolution appended later, ascending, or in no order at all. The levels of a grid
            # are the configured resolutions from coarse to fine whatever the order in the file
            lst = list(spec['res'])
            k = rng.randrange(len(lst))
            lst.append(lst.pop(k))
            spec['res'] = lst
            spec['lclass'] = 'list_unsorted'
        elif how < 0.3:
            spec['res'] = sorted(rs)
            spec['lclass'] = 'list_unsorted'
        elif how < 0.35:
            lst = list(spec['res'])
            rng.shuffle(lst)
            spec['res'] = lst
            spec['lclass'] = 'list_unsorted'
    spec['floor_res'] = floor_res
    return spec


def build_grid(spec):
    from mapproxy.grid import tile_grid
    kw = dict(srs=spec['srs'], bbox=tuple(spec['bbox']), tile_size=tuple(spec['tile_size']),
              origin=spec['origin'], stretch_factor=spec['stretch'])
    if 'res' in spec:
        kw['res'] = list(spec['res'])
    else:
        kw['res_factor'] = spec['res_factor']
        kw['num_levels'] = spec.get('num_levels')
        if 'min_res' in spec:
            kw['min_res'] = spec['min_res']
    return tile_grid(**kw)


def gen_cases(run):
    n = run.pick(1600, 40000)
    for i in range(n):
        yield {'kind': 'grid', 'i': i}
    # call monitor: the model judges the arguments that real request traffic passes to the grid API
    for i in range(run.pick(60, 1500)):
        yield {'kind': 'traffic', 'i': i}


def nxt(v, k=1):
    for _ in range(abs(k)):
        v = math.nextafter(v, math.inf if k > 0 else -math.inf)
    return v


class Probe(object):
    def __init__(self, run, case, spec, grid):
        self.run = run
        self.case = case
        self.spec = spec
        self.g = grid
        res = [grid.resolution(z) for z in range(grid.levels)]
        if 'res' in spec:
            want = sorted(spec['res'], reverse=True)
            run.hit('level_order_checked')
            if res != want:
                run.violation({'clause': 'levels_not_the_configured_resolutions_coarse_to_fine', 'origin': grid.origin, 'lclass': spec['lclass']},
                              dict(case, spec=spec), 'configured res %r: the grid has levels %r, expected %r' % (spec['res'][:12], res[:12], want[:12]))
            res = want
        self.m = GridModel(grid.bbox, res, grid.tile_size, grid.origin)
        self.levels = [z for z in range(grid.levels) if res[z] >= spec['floor_res']]
        self.shape = (spec['srs'], spec['bclass'], tuple(spec['tile_size']), spec['lclass'], grid.origin)

    def bad(self, clause, detail, **extra):
        mech = {'clause': clause, 'origin': self.g.origin, 'lclass': self.spec['lclass']}
        mech.update(extra)
        self.run.violation(mech, dict(self.case, spec=self.spec), detail)

    # ---- clause 1 + 2 -------------------------------------------------------------------------------
    def points(self, rng, z, n):
        g = self.g
        b = g.bbox
        nx, ny = g.grid_sizes[z]
        sx = g.resolution(z) * g.tile_size[0]
        sy = g.resolution(z) * g.tile_size[1]
        out = []
        for _ in range(n):
            r = rng.random()
            if r < 0.35:
                out.append(('uniform', b[0] + rng.random() * (b[2] - b[0]), b[1] + rng.random() * (b[3] - b[1])))
            else:
                ix = rng.choice([0, 1, nx - 1, nx, rng.randrange(nx + 1)])
                iy = rng.choice([0, 1, ny - 1, ny, rng.randrange(ny + 1)])
                px = b[0] + ix * sx
                py = (b[3] - iy * sy) if g.flipped_y_axis else (b[1] + iy * sy)
                k = rng.choice([0, 1, -1, 2, -2])
                cls = 'edge' if k == 0 else 'ulp'
                px, py = nxt(px, k), nxt(py, rng.choice([0, 1, -1]) if k else 0)
                if rng.random() < 0.3:
                    px = b[0] + rng.random() * (b[2] - b[0])
                    cls += '-y'
                elif rng.random() < 0.3:
                    py = b[1] + rng.random() * (b[3] - b[1])
                    cls += '-x'
                out.append((cls, px, py))
        return out

    def clause_points(self, rng):
        g, m = self.g, self.m
        for z in rng.sample(self.levels, min(len(self.levels), 4)):
            tau = fr(g.resolution(z)) / 1000
            nx, ny = g.grid_sizes[z]
            for cls, px, py in self.points(rng, z, 12):
                if not (g.bbox[0] <= px <= g.bbox[2] and g.bbox[1] <= py <= g.bbox[3]):
                    continue
                try:
                    t = g.tile(px, py, z)
                    bb = g.tile_bbox(t)
                except Exception as ex:
                    self.bad('point_in_tile', 'tile/tile_bbox raised %r for %r level %d' % (ex, (px, py), z), obs='exception')
                    continue
                self.run.hit('point_in_tile')
                self.run.judge((self.shape, 'point', cls), nontrivial=(cls != 'uniform'))
                ok = (fr(bb[0]) - tau <= fr(px) <= fr(bb[2]) + tau) and (fr(bb[1]) - tau <= fr(py) <= fr(bb[3]) + tau)
                # and the tile's rectangle is the model's rectangle
                mr = m.tile_rect(t[0], t[1], z)
                ok2 = all(abs(fr(a) - b_) <= tau for a, b_ in zip(bb, mr))
                if not ok or not ok2:
                    self.bad('point_in_tile', 'point %r level %d -> tile %r bbox %r model rect %r' % (
                        (px, py), z, t, bb, tuple(float(v) for v in mr)), cls=cls, contains=ok, rect_ok=ok2)
                # neighbours share edges
                x, y = t[0], t[1]
                for dx, dy in ((1, 0), (0, 1)):
                    nb = (x + dx, y + dy, z)
                    bb2 = g.tile_bbox(nb)
                    self.run.hit('shared_edges')
                    self.run.judge((self.shape, 'edge', dx, cls), nontrivial=True)
                    if dx:
                        good = abs(fr(bb[2]) - fr(bb2[0])) <= tau and abs(fr(bb[1]) - fr(bb2[1])) <= tau
                    else:
                        if g.flipped_y_axis:
                            good = abs(fr(bb[1]) - fr(bb2[3])) <= tau
                        else:
                            good = abs(fr(bb[3]) - fr(bb2[1])) <= tau
                        good = good and abs(fr(bb[0]) - fr(bb2[0])) <= tau
                    if not good:
                        self.bad('shared_edges', 'tiles %r %r do not share an edge: %r %r' % (t, nb, bb, bb2))

    # ---- clause 3 ----------------------------------------------------------------------------------------
    def clause_flip(self, rng):
        g, m = self.g, self.m
        other = 'ul' if g.origin == 'll' else 'll'
        try:
            sup_same = g.supports_access_with_origin(g.origin)
            sup = g.supports_access_with_origin(other)
        except Exception as ex:
            self.bad('flip', 'supports_access_with_origin raised %r' % ex, obs='exception')
            return
        if not sup_same:
            self.bad('flip', 'grid does not support access with its own origin')
        delta = fr(max(abs(g.bbox[1]), abs(g.bbox[3]))) / 10**12
        worst = max(m.misalignment(z, g.grid_sizes[z][1]) for z in range(g.levels))
        # The statement only binds the service when it *offers* the other origin: then rectangles must be
        # preserved (checked per tile below).  Refusing although the rows align is not a violation (counted).
        self.run.hit('origin_support_true' if sup else 'origin_support_false')
        self.run.judge((self.shape, 'origin_support', sup), nontrivial=True)
        if not sup and worst == 0:
            self.run.dc('other_origin_refused_though_rows_align_exactly')
        for z in rng.sample(range(g.levels), min(g.levels, 5)):
            nx, ny = g.grid_sizes[z]
            tau = fr(g.resolution(z)) / 1000
            for _ in range(6):
                x = rng.choice([0, nx - 1, rng.randrange(nx)])
                y = rng.choice([0, ny - 1, rng.randrange(ny)])
                t = (x, y, z)
                f1 = g.flip_tile_coord(t)
                f2 = g.flip_tile_coord(f1)
                self.run.hit('flip')
                self.run.judge((self.shape, 'flip', y in (0, ny - 1)), nontrivial=True)
                if f2 != t or f1[0] != x or f1[2] != z or not (0 <= f1[1] < ny):
                    self.bad('flip', 'flip(%r)=%r flip(flip)=%r' % (t, f1, f2), sub='involution')
                    continue
                if sup:
                    # a client counting rows from the other corner computes this rectangle for the flipped address
                    r_other = m.tile_rect_other_origin(f1[0], f1[1], z, ny)
                    bb = g.tile_bbox(t)
                    if any(abs(fr(a) - b_) > tau + delta * 4 for a, b_ in zip(bb, r_other)):
                        self.bad('flip', 'flipped address %r seen from %s covers %r, tile_bbox(%r)=%r' % (
                            f1, other, tuple(float(v) for v in r_other), t, bb), sub='rect_preserved')

    # ---- clause 4 ------------------------------------------------------------------------------------------
    def rects(self, rng, z, n):
        g = self.g
        b = g.bbox
        res = g.resolution(z)
        nx, ny = g.grid_sizes[z]
        sx, sy = res * g.tile_size[0], res * g.tile_size[1]
        offs = [0.0, 0.05, -0.05, 0.1, -0.1, 0.11, -0.11, 1.0, -1.0, 0.0999, 0.5]

        def edge_x(i):
            return b[0] + i * sx

        def edge_y(i):
            return (b[3] - i * sy) if g.flipped_y_axis else (b[1] + i * sy)
        out = []
        for _ in range(n):
            kind = rng.choice(['edges', 'edges', 'edges', 'inside', 'border', 'outside', 'bbox'])
            if kind == 'edges':
                i0 = rng.choice([0, nx - 1, rng.randrange(nx)])
                j0 = rng.choice([0, ny - 1, rng.randrange(ny)])
                i1 = i0 + rng.randint(1, 3)
                j1 = j0 + rng.randint(1, 3)
                xs = sorted([edge_x(i0) + rng.choice(offs) * res, edge_x(i1) + rng.choice(offs) * res])
                ys = sorted([edge_y(j0) + rng.choice(offs) * res, edge_y(j1) + rng.choice(offs) * res])
            elif kind == 'inside':
                i0 = rng.randrange(nx)
                j0 = rng.randrange(ny)
                x = edge_x(i0) + rng.random() * sx
                y = edge_y(j0) + (-1 if g.flipped_y_axis else 1) * rng.random() * sy
                xs = [x, x + rng.uniform(0.3, 2.5) * sx]
                ys = sorted([y, y + rng.uniform(0.3, 2.5) * sy])
            elif kind == 'border':
                side = rng.choice(['l', 'r', 'b', 't', 'corner'])
                x = rng.choice([b[0], b[2]]) if side in ('l', 'r', 'corner') else b[0] + rng.random() * (b[2] - b[0])
                y = rng.choice([b[1], b[3]]) if side in ('b', 't', 'corner') else b[1] + rng.random() * (b[3] - b[1])
                xs = [x - rng.uniform(0.2, 2) * sx, x + rng.uniform(0.2, 2) * sx]
                ys = [y - rng.uniform(0.2, 2) * sy, y + rng.uniform(0.2, 2) * sy]
            elif kind == 'outside':
                x = b[2] + rng.uniform(3, 10) * sx if rng.random() < 0.5 else b[0] - rng.uniform(6, 10) * sx
                y = b[3] + rng.uniform(3, 10) * sy if rng.random() < 0.5 else b[1] - rng.uniform(6, 10) * sy
                xs = [x, x + rng.uniform(0.5, 2) * sx]
                ys = [y, y + rng.uniform(0.5, 2) * sy]
            else:
                if nx * ny > 64:
                    continue
                xs = [b[0], b[2]]
                ys = [b[1], b[3]]
            if xs[1] - xs[0] < res or ys[1] - ys[0] < res:
                continue
            out.append((kind, (xs[0], ys[0], xs[1], ys[1])))
        return out

    def clause_affected(self, rng):
        g, m = self.g, self.m
        for z in rng.sample(self.levels, min(len(self.levels), 4)):
            res = fr(g.resolution(z))
            tau = res / 1000
            inset = res / 10 + tau
            nx, ny = g.grid_sizes[z]
            for kind, rect in self.rects(rng, z, 10):
                try:
                    abbox, (cx, cy), it = g.get_affected_level_tiles(rect, z)
                    tiles = list(it)
                except Exception as ex:
                    self.bad('affected', 'get_affected_level_tiles(%r, %d) raised %r' % (rect, z, ex), obs='exception')
                    continue
                self.judge_affected(kind, rect, z, abbox, cx, cy, tiles)

    def clause_affected_other_srs(self, rng):
        """get_affected_tiles for a rectangle given in ANOTHER SRS: every point of the rectangle lies in a tile of the
        returned set. Oracle: points on the border and inside the rectangle, each transformed on its own with pyproj,
        located by the exact model; points within a tenth of a pixel of a tile edge or of the grid bbox are not judged."""
        import pyproj
        from mapproxy.srs import SRS
        from mapproxy.grid import NoTiles, GridError
        g, m = self.g, self.m
        gsrs = self.spec['srs']
        cand = [c for c in ('EPSG:3857', 'EPSG:25832', 'EPSG:3035', 'EPSG:4326') if c != gsrs and not (c == 'EPSG:3857' and gsrs == 'EPSG:900913')]
        # an area of interest where all of these are defined, in lon/lat; the grid must reach into it
        to_ll = pyproj.Transformer.from_crs(gsrs, 'EPSG:4326', always_xy=True)
        try:
            glo, gla = to_ll.transform([float(m.bbox[0]), float(m.bbox[2])], [float(m.bbox[1]), float(m.bbox[3])])
            lo_a, lo_b = max(min(glo), -8.0), min(max(glo), 28.0)
            la_a, la_b = max(min(gla), 36.0), min(max(gla), 64.0)
        except Exception:
            lo_a, lo_b, la_a, la_b = 2.0, 14.0, 44.0, 56.0
        if not (lo_b - lo_a > 0.2 and la_b - la_a > 0.2):
            self.run.count('other_srs_grid_outside_the_common_area')
            return
        for _ in range(3):
            rs = rng.choice(cand)
            dlon, dlat = min(rng.uniform(0.5, 9.0), (lo_b - lo_a) * 0.9), min(rng.uniform(0.5, 6.0), (la_b - la_a) * 0.9)
            lon0, lat0 = rng.uniform(lo_a, lo_b - dlon), rng.uniform(la_a, la_b - dlat)
            fwd = pyproj.Transformer.from_crs('EPSG:4326', rs, always_xy=True)
            xs, ys = fwd.transform([lon0, lon0 + dlon, lon0, lon0 + dlon], [lat0, lat0, lat0 + dlat, lat0 + dlat])
            rect = (min(xs), min(ys), max(xs), max(ys))
            togrid = pyproj.Transformer.from_crs(rs, gsrs, always_xy=True)
            cx_, cy_ = togrid.transform((rect[0] + rect[2]) / 2, (rect[1] + rect[3]) / 2)
            if not (float(m.bbox[0]) < cx_ < float(m.bbox[2]) and float(m.bbox[1]) < cy_ < float(m.bbox[3])):
                self.run.count('other_srs_rect_outside_grid')
                continue
            size = (rng.randint(200, 800), rng.randint(200, 800))
            try:
                abbox, (nx_, ny_), it = g.get_affected_tiles(rect, size, req_srs=SRS(rs))
                tiles = set(t for t in it if t is not None)
            except (NoTiles, GridError):
                self.run.count('other_srs_no_tiles')
                continue
            except Exception as ex:
                self.bad('affected_other_srs', 'get_affected_tiles(%r, %r, req_srs=%s) raised %r' % (rect, size, rs, ex), obs='exception')
                continue
            if not tiles:
                continue
            z = next(iter(tiles))[2]
            if len(tiles) > 20000:
                continue
            self.run.hit('affected_other_srs_rects')
            self.run.judge((self.shape, 'affected_other_srs', rs), nontrivial=True)
            n = 40
            pts = []
            for i in range(n + 1):
                t_ = i / n
                pts += [(rect[0] + t_ * (rect[2] - rect[0]), rect[1]), (rect[0] + t_ * (rect[2] - rect[0]), rect[3]),
                        (rect[0], rect[1] + t_ * (rect[3] - rect[1])), (rect[2], rect[1] + t_ * (rect[3] - rect[1]))]
            for _k in range(60):
                pts.append((rng.uniform(rect[0], rect[2]), rng.uniform(rect[1], rect[3])))
            gx, gy = togrid.transform([p_[0] for p_ in pts], [p_[1] for p_ in pts])
            res = float(g.resolution(z))
            sx, sy = res * g.tile_size[0], res * g.tile_size[1]
            missing = []
            for (px_, py_), x_, y_ in zip(pts, gx, gy):
                if not (math.isfinite(x_) and math.isfinite(y_)):
                    continue
                if not (float(m.bbox[0]) + res < x_ < float(m.bbox[2]) - res and float(m.bbox[1]) + res < y_ < float(m.bbox[3]) - res):
                    continue
                fx = (x_ - float(m.bbox[0])) / sx
                fy = ((float(m.bbox[3]) - y_) if m.ul else (y_ - float(m.bbox[1]))) / sy
                # not within a tenth of a pixel of a tile edge (the documented inset) plus the accuracy of the projection
                if min(fx % 1, 1 - fx % 1) * g.tile_size[0] < 0.6 or min(fy % 1, 1 - fy % 1) * g.tile_size[1] < 0.6:
                    continue
                t = (int(math.floor(fx)), int(math.floor(fy)), z)
                nxg, nyg = g.grid_sizes[z]
                if not (0 <= t[0] < nxg and 0 <= t[1] < nyg):
                    continue
                self.run.hit('affected_other_srs_points')
                if t not in tiles:
                    missing.append((px_, py_, t))
            if missing:
                self.bad('affected_other_srs', 'get_affected_tiles(%r, %r, req_srs=%s) on level %d returned %d tiles; %d of the sampled points of '
                         'the rectangle lie in tiles that are not among them, e.g. point %r -> tile %r' % (
                             rect, size, rs, z, len(tiles), len(missing), missing[0][:2], missing[0][2]), sub='missing_tile')

    def judge_affected(self, kind, rect, z, abbox, cx, cy, tiles):
        g, m = self.g, self.m
        res = fr(g.resolution(z))
        tau = res / 1000
        inset = res / 10 + tau
        nx, ny = g.grid_sizes[z]
        for _once in (1,):
            for _once2 in (1,):
                listed = set(t for t in tiles if t is not None)
                nontriv = kind in ('edges', 'border', 'bbox')
                # layout: count, order, None positions, reported bbox
                self.run.hit('affected_layout')
                self.run.judge((self.shape, 'layout', kind), nontrivial=nontriv)
                if len(tiles) != cx * cy or cx < 1 or cy < 1:
                    self.bad('affected', 'rect %r level %d: %d tiles for grid %r' % (rect, z, len(tiles), (cx, cy)),
                             sub='count')
                    continue
                sxs, sys_ = m.span(z)
                ix0 = (fr(abbox[0]) - m.bbox[0]) / sxs
                ix0r = round(ix0)
                if m.ul:
                    iyt = (m.bbox[3] - fr(abbox[3])) / sys_
                else:
                    iyt = (fr(abbox[3]) - m.bbox[1]) / sys_ - 1
                iytr = round(iyt)
                if abs(ix0 - ix0r) > F(1, 1000) or abs(iyt - iytr) > F(1, 1000):
                    self.bad('affected', 'rect %r level %d: reported bbox %r is not on tile edges' % (rect, z, abbox),
                             sub='bbox')
                    continue
                want = []
                for r in range(cy):
                    iy = iytr + r if m.ul else iytr - r
                    for c in range(cx):
                        ix = ix0r + c
                        if 0 <= ix < nx and 0 <= iy < ny:
                            want.append((ix, iy, z))
                        else:
                            want.append(None)
                if want != tiles:
                    self.bad('affected', 'rect %r level %d origin %s: listed %r, expected row-major from the top %r' % (
                        rect, z, g.origin, tiles[:12], want[:12]), sub='order')
                    continue
                ur = m.tile_rect(ix0r + cx - 1, iytr, z)
                ll = m.tile_rect(ix0r, iytr + (cy - 1 if m.ul else -(cy - 1)), z)
                union = (ll[0], ll[1], ur[2], ur[3])
                if any(abs(fr(a) - b_) > tau for a, b_ in zip(abbox, union)):
                    self.bad('affected', 'rect %r level %d: reported bbox %r != union of cells %r' % (
                        rect, z, abbox, tuple(float(v) for v in union)), sub='bbox')
                # the reported mosaic must cover the query rectangle (less the documented inset)
                self.run.hit('affected_bbox_covers')
                if not (fr(abbox[0]) <= fr(rect[0]) + inset and fr(abbox[1]) <= fr(rect[1]) + inset and
                        fr(abbox[2]) >= fr(rect[2]) - inset and fr(abbox[3]) >= fr(rect[3]) - inset):
                    self.bad('affected', 'rect %r level %d: reported bbox %r does not cover the rectangle' % (
                        rect, z, abbox), sub='bbox_covers_rect')
                # required / forbidden tiles in the neighbourhood of the rectangle
                jx0, jy0 = m.tile_index(rect[0], rect[1], z)
                jx1, jy1 = m.tile_index(rect[2], rect[3], z)
                for ix in range(min(jx0, jx1) - 1, max(jx0, jx1) + 2):
                    for iy in range(min(jy0, jy1) - 1, max(jy0, jy1) + 2):
                        if not (0 <= ix < nx and 0 <= iy < ny):
                            continue
                        tr = m.tile_rect(ix, iy, z)
                        ox = overlap(tr[0], tr[2], fr(rect[0]), fr(rect[2]))
                        oy = overlap(tr[1], tr[3], fr(rect[1]), fr(rect[3]))
                        t = (ix, iy, z)
                        if ox > inset and oy > inset:
                            self.run.hit('affected_required')
                            self.run.judge((self.shape, 'required', kind), nontrivial=nontriv)
                            if t not in listed:
                                self.bad('affected', 'rect %r level %d: tile %r overlaps by (%g,%g) px but is not listed %r' % (
                                    rect, z, t, float(ox / res), float(oy / res), tiles[:12]), sub='missing_tile')
                        elif ox <= 0 or oy <= 0:
                            self.run.hit('affected_forbidden')
                            self.run.judge((self.shape, 'forbidden', kind), nontrivial=nontriv)
                            if t in listed:
                                self.bad('affected', 'rect %r level %d: tile %r listed but overlap is (%g,%g) px' % (
                                    rect, z, t, float(ox / res), float(oy / res)), sub='touching_tile')
                        else:
                            self.run.dc('overlap_within_inset')

    # ---- clause 5 ------------------------------------------------------------------------------------------
    def clause_level(self, rng):
        g, m = self.g, self.m
        rs = [g.resolution(z) for z in range(g.levels)]
        st = g.stretch_factor
        cands = []
        for r in rs:
            cands += [('on', r), ('ulp', nxt(r, 1)), ('ulp', nxt(r, -1)), ('stretch', r / st), ('stretch', nxt(r / st, 2)),
                      ('stretch', nxt(r / st, -2)), ('between', r * rng.uniform(0.5, 1.0)), ('near', r * 0.999),
                      ('near', r * 1.001)]
        cands += [('beyond', rs[0] * 3.7), ('beyond', rs[-1] / 5), ('beyond', rs[0] * 1.2)]
        rng.shuffle(cands)
        for cls, res in cands[:40]:
            want, dc = m.closest_level(res, st)
            try:
                got = g.closest_level(res)
            except Exception as ex:
                self.bad('level_choice', 'closest_level(%r) raised %r' % (res, ex), obs='exception')
                continue
            if dc:
                self.run.dc('level_threshold_within_1e-12')
                continue
            self.run.hit('level_choice')
            self.run.judge((self.shape, 'level', cls, self.spec['stretch']), nontrivial=True)
            if got != want:
                self.bad('level_choice', 'closest_level(%r)=%r, rule says %r; resolutions=%r stretch=%r' % (
                    res, got, want, rs, st), cls=cls)
        # through get_affected_bbox_and_level with a request rectangle inside the grid
        from mapproxy.grid import NoTiles
        b = g.bbox
        for _ in range(6):
            z = rng.randrange(g.levels)
            res = rs[z] * rng.choice([1.0, 1.0, 0.7, 1.1, 1.16, 2.0, 0.51])
            w, h = rng.randint(16, 600), rng.randint(16, 600)
            cx = b[0] + rng.random() * (b[2] - b[0])
            cy = b[1] + rng.random() * (b[3] - b[1])
            rect = (cx - res * w / 2, cy - res * h / 2, cx + res * w / 2, cy + res * h / 2)
            try:
                _, lvl = g.get_affected_bbox_and_level(rect, (w, h))
            except NoTiles:
                self.run.dc('no_tiles')
                continue
            rres = min(abs(fr(rect[0]) - fr(rect[2])) / w, abs(fr(rect[1]) - fr(rect[3])) / h)
            want, dc = m.closest_level(rres, st)
            # the float division inside get_resolution may move res by an ulp: accept the rule for both neighbours
            alts = {want, m.closest_level(rres * (1 + F(1, 10**13)), st)[0], m.closest_level(rres * (1 - F(1, 10**13)), st)[0]}
            if dc:
                self.run.dc('level_threshold_within_1e-12')
                continue
            self.run.hit('level_choice')
            self.run.judge((self.shape, 'level_via_bbox'), nontrivial=True)
            if lvl not in alts:
                self.bad('level_choice', 'get_affected_bbox_and_level(%r,%r) chose %r, rule says %r' % (
                    rect, (w, h), lvl, want), cls='via_bbox')

    def clause_cover(self):
        """the in-grid tiles cover the grid bbox up to the last (partial) pixel and none lies wholly outside"""
        g, m = self.g, self.m
        for z in range(g.levels):
            nx, ny = g.grid_sizes[z]
            res = fr(g.resolution(z))
            sx, sy = m.span(z)
            self.run.judge((self.shape, 'cover'), nontrivial=True)
            self.run.hit('grid_cover')
            if (nx, ny) != m.grid_size(z):
                self.bad('cover', 'level %d grid size %r, documented rule gives %r' % (z, (nx, ny), m.grid_size(z)))
            gap_x = m.width - nx * sx
            gap_y = m.height - ny * sy
            if gap_x >= res or gap_y >= res:
                self.bad('cover', 'level %d: tiles leave %g x %g px of the grid uncovered' % (
                    z, float(gap_x / res), float(gap_y / res)))
            if (nx > 1 and (nx - 1) * sx >= m.width) or (ny > 1 and (ny - 1) * sy >= m.height):
                self.bad('cover', 'level %d: last row/column lies outside the grid' % z)


class CallMonitor(object):
    """wraps TileGrid.tile / tile_bbox / get_affected_level_tiles / closest_level; every call made by the code under
    test while a request is served is judged by the exact model of the grid it was made on"""

    def __init__(self, run, case):
        self.run = run
        self.case = case
        self.probes = {}
        self.active = False
        self.busy = False

    def probe(self, grid):
        p = self.probes.get(id(grid))
        if p is None:
            spec = {'srs': grid.srs.srs_code, 'bclass': 'traffic', 'tile_size': list(grid.tile_size), 'lclass': 'traffic',
                    'stretch': grid.stretch_factor, 'floor_res': 0.0, 'bbox': list(grid.bbox)}
            p = Probe(self.run, self.case, spec, grid)
            self.probes[id(grid)] = p
        return p

    def install(self):
        from mapproxy.grid import TileGrid
        mon = self
        orig = {n: getattr(TileGrid, n) for n in ('tile', 'tile_bbox', 'get_affected_level_tiles', 'closest_level')}
        self.orig = orig

        def tile(g, x, y, level):
            t = orig['tile'](g, x, y, level)
            if mon.active and not mon.busy and g.bbox[0] <= x <= g.bbox[2] and g.bbox[1] <= y <= g.bbox[3]:
                mon.busy = True
                try:
                    p = mon.probe(g)
                    bb = orig['tile_bbox'](g, t)
                    tau = fr(g.resolution(level)) / 1000
                    mon.run.hit('monitored_tile_calls')
                    mon.run.judge((p.shape, 'mon_tile'), nontrivial=True)
                    if not ((fr(bb[0]) - tau <= fr(x) <= fr(bb[2]) + tau) and (fr(bb[1]) - tau <= fr(y) <= fr(bb[3]) + tau)):
                        p.bad('point_in_tile', 'traffic: tile(%r, %r, %r) = %r with bbox %r' % (x, y, level, t, bb), cls='traffic')
                finally:
                    mon.busy = False
            return t

        def tile_bbox(g, coord, limit=False):
            bb = orig['tile_bbox'](g, coord, limit)
            if mon.active and not mon.busy and not limit and coord is not None:
                mon.busy = True
                try:
                    p = mon.probe(g)
                    z = coord[2]
                    if isinstance(z, int) and 0 <= z < g.levels:
                        mr = p.m.tile_rect(coord[0], coord[1], z)
                        tau = fr(g.resolution(z)) / 1000
                        mon.run.hit('monitored_tile_bbox_calls')
                        mon.run.judge((p.shape, 'mon_tile_bbox'), nontrivial=True)
                        if any(abs(fr(a) - b_) > tau for a, b_ in zip(bb, mr)):
                            p.bad('point_in_tile', 'traffic: tile_bbox(%r) = %r, model %r' % (coord, bb, tuple(float(v) for v in mr)),
                                  cls='traffic', rect_ok=False)
                finally:
                    mon.busy = False
            return bb

        def get_affected_level_tiles(g, bbox, level):
            r = orig['get_affected_level_tiles'](g, bbox, level)
            if mon.active and not mon.busy:
                abbox, (cx, cy), it = r
                tiles = list(it)
                r = (abbox, (cx, cy), iter(tiles))
                res = g.resolution(level)
                if bbox[2] - bbox[0] >= res and bbox[3] - bbox[1] >= res and cx * cy <= 400:
                    mon.busy = True
                    try:
                        mon.run.hit('monitored_affected_calls')
                        mon.probe(g).judge_affected('traffic', tuple(bbox), level, abbox, cx, cy, tiles)
                    finally:
                        mon.busy = False
            return r

        def closest_level(g, res):
            lvl = orig['closest_level'](g, res)
            if mon.active and not mon.busy and not g.threshold_res:
                mon.busy = True
                try:
                    p = mon.probe(g)
                    want, dc = p.m.closest_level(res, g.stretch_factor)
                    if dc:
                        mon.run.dc('level_threshold_within_1e-12')
                    else:
                        mon.run.hit('monitored_level_calls')
                        mon.run.judge((p.shape, 'mon_level'), nontrivial=True)
                        if lvl != want:
                            p.bad('level_choice', 'traffic: closest_level(%r)=%r, rule says %r' % (res, lvl, want), cls='traffic')
                finally:
                    mon.busy = False
            return lvl
        TileGrid.tile = tile
        TileGrid.tile_bbox = tile_bbox
        TileGrid.get_affected_level_tiles = get_affected_level_tiles
        TileGrid.closest_level = closest_level

    def uninstall(self):
        from mapproxy.grid import TileGrid
        for n, f in self.orig.items():
            setattr(TileGrid, n, f)


def run_traffic(run, case):
    """a small map/tile workload on a generated cache (configurations of C04) with the call monitor attached"""
    import shutil
    from checks import c04
    from vlib import upstream
    rng = run.rng('traffic', case['i'])
    spec = case.get('spec') or c04.gen_conf(rng)
    d = run.subdir('c03t')
    mon = CallMonitor(run, case)
    mon.install()
    try:
        try:
            sc, grid, lat = c04.build(run, spec, d)
        except Exception:
            run.dc('config_rejected_by_loader')
            return
        mon.active = True
        srs = spec['grid']['srs']
        b = grid.bbox
        for _ in range(8):
            z = rng.randrange(grid.levels)
            res = grid.resolution(z) * rng.choice([1.0, 1.0, 0.7, 1.3, 2.1, 0.4])
            w, h = rng.randint(20, 300), rng.randint(20, 300)
            cx = b[0] + rng.random() * (b[2] - b[0])
            cy = b[1] + rng.random() * (b[3] - b[1])
            bbox = (cx - res * w / 2, cy - res * h / 2, cx + res * w / 2, cy + res * h / 2)
            sc.get('/service?SERVICE=WMS&VERSION=1.1.1&REQUEST=GetMap&LAYERS=l&STYLES=&SRS=%s&BBOX=%s&WIDTH=%d&HEIGHT=%d&FORMAT=image/png' % (
                srs, ','.join(repr(v) for v in bbox), w, h))
            run.hit('traffic_requests')
        mon.active = False
        upstream.UP.reset_log()
    finally:
        mon.active = False
        mon.uninstall()
        shutil.rmtree(d, ignore_errors=True)


def shared_object_phase(run, case, spec, grid, levels, rng):
    """a TileGrid is one object shared by all request threads of a server. Its answers must not depend on who else asks:
    a list of calls (tile, tile_bbox, flip, affected tiles, closest level) is answered by a fresh grid object alone
    (reference), then four real threads put the same calls to ONE shared object at once (interpreter switch interval
    1 microsecond), and afterwards the shared object answers them once more alone. All three must agree exactly."""
    import threading
    b = grid.bbox
    calls = []
    for _ in range(60):
        z = rng.choice(levels)
        x = b[0] + (b[2] - b[0]) * rng.random()
        y = b[1] + (b[3] - b[1]) * rng.random()
        kind = rng.choice(['tile', 'tile', 'tile_bbox', 'flip', 'affected', 'closest'])
        if kind == 'tile':
            calls.append(('tile', (x, y, z)))
        elif kind == 'tile_bbox':
            nx, ny = grid.grid_sizes[z]
            calls.append(('tile_bbox', ((rng.randrange(nx), rng.randrange(ny), z),)))
        elif kind == 'flip':
            nx, ny = grid.grid_sizes[z]
            calls.append(('flip_tile_coord', ((rng.randrange(nx), rng.randrange(ny), z),)))
        elif kind == 'affected':
            # a rectangle of a few tiles of that level (the tile list is materialised)
            w_ = min(b[2] - b[0], grid.resolution(z) * grid.tile_size[0] * rng.uniform(0.3, 4.5))
            h_ = min(b[3] - b[1], grid.resolution(z) * grid.tile_size[1] * rng.uniform(0.3, 4.5))
            x0 = max(b[0], min(x, b[2] - w_))
            y0 = max(b[1], min(y, b[3] - h_))
            calls.append(('get_affected_level_tiles', ((x0, y0, x0 + w_, y0 + h_), z)))
        else:
            calls.append(('closest_level', (grid.resolution(z) * rng.uniform(0.6, 1.6),)))

    def ask(g, c):
        try:
            r = getattr(g, c[0])(*c[1])
            if c[0] == 'get_affected_level_tiles':
                r = (r[0], r[1], list(r[2]))
            return ('ok', r)
        except Exception as ex:
            return ('raised', type(ex).__name__)
    fresh = build_grid(spec)
    ref = [ask(fresh, c) for c in calls]
    shared = build_grid(spec)
    diffs = []
    lock = threading.Lock()
    nthreads = 4
    start = threading.Barrier(nthreads)

    def client(k):
        order = list(range(len(calls)))
        order = order[k * 7:] + order[:k * 7]
        try:
            start.wait(20)
            for _ in range(3):
                for i in order:
                    got = ask(shared, calls[i])
                    if got != ref[i]:
                        with lock:
                            diffs.append((i, got, 'concurrently'))
        except Exception as ex:
            with lock:
                diffs.append((-1, ('raised', repr(ex)), 'concurrently'))
    old_switch = sys.getswitchinterval()
    sys.setswitchinterval(1e-6)
    try:
        ths = [threading.Thread(target=client, args=(k,)) for k in range(nthreads)]
        for t in ths:
            t.start()
        for t in ths:
            t.join(120)
    finally:
        sys.setswitchinterval(old_switch)
    for i, c in enumerate(calls):
        got = ask(shared, c)
        if got != ref[i]:
            diffs.append((i, got, 'alone, after the threads'))
    run.hit('shared_object_rounds')
    run.hit('shared_object_answers_compared', len(calls) * (3 * nthreads + 1))
    run.judge(('shared_object', spec.get('srs'), spec.get('origin')), nontrivial=True)
    if diffs:
        i, got, when = diffs[0]
        run.violation({'clause': 'answer_depends_on_other_callers', 'function': calls[i][0] if i >= 0 else 'any',
                       'when': 'after' if when.startswith('alone') else 'during'}, dict(case, spec=spec),
                      '%d of %d answers of a TileGrid shared by %d threads differ from those of a fresh object asked alone; first: %s%r '
                      'answered %r %s, reference %r' % (len(diffs), len(calls) * (3 * nthreads + 1), nthreads,
                                                        calls[i][0] if i >= 0 else '?', calls[i][1] if i >= 0 else '', got, when,
                                                        ref[i] if i >= 0 else None))


def run_case(run, case):
    if case.get('kind') == 'traffic':
        return run_traffic(run, case)
    rng = run.rng('grid', case['i'])
    spec = case.get('spec') or gen_grid_spec(rng)
    try:
        grid = build_grid(spec)
    except Exception as ex:
        run.dc('grid_rejected_by_constructor:' + type(ex).__name__)
        return
    p = Probe(run, case, spec, grid)
    if not p.levels:
        run.dc('no_level_in_numeric_range')
        return
    prng = run.rng('probe', case['i'])
    p.clause_cover()
    p.clause_points(prng)
    p.clause_flip(prng)
    p.clause_affected(prng)
    if spec['srs'] != 'EPSG:4326' and case['i'] % 2 == 0:
        p.clause_affected_other_srs(run.rng('othersrs', case['i']))
    p.clause_level(prng)
    if case['i'] % 4 == 0 or run.replaying:
        shared_object_phase(run, case, spec, grid, p.levels, run.rng('threads', case['i']))
    run.hit('grids')
    if case['i'] < 3:
        run.sample({'grid': spec, 'levels': grid.levels, 'grid_sizes_first': [list(s) for s in list(grid.grid_sizes)[:4]],
                    'probed': 'points, neighbours, flips, rectangles, resolutions (see rule)'})


if __name__ == '__main__':
    core.main(sys.modules[__name__])
