"""C11 - seeding creates every selected tile, nothing else, and survives interruption.

The REAL mapproxy.seed.seeder.seed() / seed_task() / TileWorkerPool.process() / TileWalker / SeedProgress and
mapproxy.seed.util.ProgressLog / ProgressStore are driven with generated seed tasks.  Observation point: the
tile lists that TileWorkerPool.process puts on its queue (seeder.queue_class is replaced by a recording queue,
concurrency=0 so no worker process is started).  The tile manager is a recording stand-in with the real
TileGrid / MetaGrid.  The oracle is shapely + pyproj on tile rectangles computed from the grid's parameters.

Fault enumeration: after an uninterrupted run the same seed() call is repeated with an exception raised at the
k-th queue put (before / after the list is handed over) and at the k-th progress report (before / after the
progress file is written; the logger persists at every report), the progress file is re-read by a fresh
ProgressStore (continue_seed=True) and seed() is called again.
"""
import contextlib
import io
import math
import os
import queue
import sys

import numpy as np
import pyproj
import shapely
import shapely.geometry as sg
import shapely.ops

from vlib import core

PID = 'C11'
LEVEL = 'fault_enumeration'
BUDGET_S = {'quick': 40, 'thorough': 600}
FLOORS = {'quick': {'tasks': 190, 'required_tiles_checked': 9500, 'forbidden_tiles_checked': 2600,
                    'interruption_points': 4300, 'resumed_runs': 2500, 'resume_with_saved_progress': 1900,
                    'resume_skipped_work': 2700, 'double_interruptions': 600, 'cases_with_tasks_from_seed_configuration': 12},
          'thorough': {'tasks': 780, 'required_tiles_checked': 33000, 'forbidden_tiles_checked': 25000,
                       'interruption_points': 39000, 'resumed_runs': 12000, 'resume_with_saved_progress': 9000,
                       'resume_skipped_work': 30000, 'double_interruptions': 4000}}
RULE = ("3 directed cases on standard grids (witnesses of the mechanisms found) + generated cases. case = one seed() "
        "call: grid (srs 3857/4326/25832, global/regional/integer bbox, tile size, ll/ul "
        "origin, ladder factor 2 / sqrt2 / free factor 1.3..3 / explicit list), meta size 1x1..3x2, 1-2 seed tasks with "
        "level subsets (contiguous, gaps, single, all) and coverages (none, bbox, bbox with edges placed within "
        "+-{0,.05,.09,.11,.5,2,5} px of tile edges of any level, strips along the grid edge, polygons, holes, "
        "multipolygons, thin slivers, coverage in another SRS, multi-coverages), skip_geoms_for_last_levels 0..2, "
        "refresh_all / uncached / stale handling, partly cached. evaluations = per meta tile one required/forbidden "
        "judgement of the completed run + one judgement per interruption point (union of work before and after >= "
        "uninterrupted work). distinct = (ladder class, srs, coverage class, meta size, levels shape, interruption "
        "kind); trivial = coverage not a proper subset of the grid or fewer than 2 levels")
ASSUMPTIONS = [
    "work is observed when it is handed to the worker pool (queue put); tile lists still queued in a killed worker "
    "are outside what is observable here",
    "required = meta tile (clipped to the grid bbox) whose intersection with the coverage contains a disc of 1 px "
    "radius at that level; forbidden = unclipped meta tile rectangle farther than 1 px from the coverage; the band "
    "between is don't-care",
    "coverage given in another SRS: required is judged against the intersection, forbidden against the union of the "
    "vertex-wise and the densified (32 points per edge) pyproj transformation (bbox: envelope of 16 / 256 points)",
    "skip_geoms_for_last_levels=N: on the last N chosen levels every tile that touches the coverage extent and a "
    "non-forbidden meta tile of the chosen level before them is don't-care; required tiles stay required",
    "the extent of a multi-coverage is the union of its parts' lon/lat bounding boxes (only used to widen the "
    "skip_geoms don't-care band and to label causes)",
    "a seed() that raises something other than an interruption is continued twice from its progress file; it is a "
    "violation only if required tiles were never handed over by the union of these runs",
    "a meta tile is cached / stale as a whole (the walker asks the tile manager for the main tile only)",
    "seed() is deterministic for a given task and progress file: a continued run for a progress file already "
    "observed for the same task is taken from the first observation (10% of these are re-executed and compared)",
    "tile grid arithmetic itself (tile rectangles, grid sizes) is C03's subject and taken from the grid's parameters",
]

WORLD = {
    'EPSG:3857': (-20037508.342789244, -20037508.342789244, 20037508.342789244, 20037508.342789244),
    'EPSG:4326': (-180.0, -90.0, 180.0, 90.0),
    'EPSG:25832': (200000.0, 5200000.0, 950000.0, 6100000.0),
}
BLOCK_CAP = 9000          # meta tiles enumerated per level at most
OFFS = [0.0, 0.05, -0.05, 0.09, -0.09, 0.11, -0.11, 0.5, -0.5, 2.0, -2.0, 5.0, -5.0]

_TR = {}


def transformer(a, b):
    k = (a, b)
    if k not in _TR:
        _TR[k] = pyproj.Transformer.from_crs(a, b, always_xy=True)
    return _TR[k]


# =====================================================================================================
# generation
# =====================================================================================================

def gen_grid_spec(rng):
    srs = rng.choice(['EPSG:3857', 'EPSG:3857', 'EPSG:4326', 'EPSG:25832'])
    world = WORLD[srs]
    W, H = world[2] - world[0], world[3] - world[1]
    bclass = rng.choice(['global', 'regional', 'regional', 'integer'])
    if bclass == 'global':
        bbox = world
    elif bclass == 'regional':
        x0 = world[0] + rng.random() * W * 0.6
        y0 = world[1] + (0.1 + rng.random() * 0.5) * H
        bbox = (x0, y0, x0 + W * rng.uniform(0.02, 0.35), y0 + H * rng.uniform(0.02, 0.3))
    else:
        x0 = math.floor(world[0] + (0.2 + rng.random() * 0.4) * W)
        y0 = math.floor(world[1] + (0.3 + rng.random() * 0.3) * H)
        if srs == 'EPSG:4326':
            bbox = (float(x0), float(y0), float(x0 + rng.choice([1, 7, 40])), float(y0 + rng.choice([1, 5, 20])))
        else:
            bbox = (float(x0), float(y0), float(x0 + rng.choice([1000, 12345, 400000])),
                    float(y0 + rng.choice([777, 20000, 300000])))
    tile_size = rng.choice([(256, 256), (256, 256), (512, 512), (256, 128), (100, 300), (64, 64)])
    origin = rng.choice(['ll', 'ul', 'sw', 'nw'])
    lclass = rng.choice(['f2', 'f2', 'sqrt2', 'free', 'list'])
    spec = {'srs': srs, 'bbox': list(bbox), 'tile_size': list(tile_size), 'origin': origin, 'bclass': bclass,
            'lclass': lclass}
    if lclass == 'f2':
        spec['res_factor'] = 2.0
        spec['num_levels'] = rng.randint(3, 14)
    elif lclass == 'sqrt2':
        spec['res_factor'] = 'sqrt2'
        spec['num_levels'] = rng.randint(4, 22)
    elif lclass == 'free':
        spec['res_factor'] = rng.uniform(1.3, 3.0)
        spec['num_levels'] = rng.randint(3, 12)
    else:
        w, h = bbox[2] - bbox[0], bbox[3] - bbox[1]
        r = max(w / tile_size[0], h / tile_size[1]) * rng.uniform(0.5, 1.2)
        rs = []
        for _ in range(rng.randint(3, 11)):
            rs.append(r)
            r = r / rng.choice([2.0, 1.5, 3.0, 1.25, 2.5, 4.0, 1.1])
        spec['res'] = rs
    return spec


def build_grid(gs):
    from mapproxy.grid import tile_grid
    kw = dict(srs=gs['srs'], bbox=tuple(gs['bbox']), tile_size=tuple(gs['tile_size']), origin=gs['origin'])
    if 'res' in gs:
        kw['res'] = list(gs['res'])
    else:
        kw['res_factor'] = gs['res_factor']
        kw['num_levels'] = gs['num_levels']
    return tile_grid(**kw)


class GridInfo(object):
    """plain numbers of a grid, taken from the real grid's parameters (the oracle's view of the grid)"""

    def __init__(self, grid, meta_size):
        self.bbox = tuple(float(v) for v in grid.bbox)
        self.res = [float(grid.resolution(z)) for z in range(grid.levels)]
        self.sizes = [tuple(grid.grid_sizes[z]) for z in range(grid.levels)]
        self.tw, self.th = grid.tile_size
        self.ul = grid.origin in ('ul', 'nw')
        self.levels = grid.levels
        self.meta_size = tuple(meta_size)
        self.srs = grid.srs.srs_code

    def meta(self, z):
        nx, ny = self.sizes[z]
        return min(self.meta_size[0], nx), min(self.meta_size[1], ny)

    def span(self, z):
        return self.res[z] * self.tw, self.res[z] * self.th

    def nblocks(self, z):
        nx, ny = self.sizes[z]
        mx, my = self.meta(z)
        return -(-nx // mx), -(-ny // my)

    def block_rects(self, z, bx, by):
        """unclipped rectangles of meta tiles (arrays)"""
        mx, my = self.meta(z)
        sx, sy = self.span(z)
        x0 = self.bbox[0] + bx * mx * sx
        x1 = self.bbox[0] + (bx + 1) * mx * sx
        if self.ul:
            y1 = self.bbox[3] - by * my * sy
            y0 = self.bbox[3] - (by + 1) * my * sy
        else:
            y0 = self.bbox[1] + by * my * sy
            y1 = self.bbox[1] + (by + 1) * my * sy
        return x0, y0, x1, y1

    def block_range(self, z, bounds, pad=1):
        """index range of the meta tiles around a rectangle, limited to the grid"""
        mx, my = self.meta(z)
        sx, sy = self.span(z)
        nbx, nby = self.nblocks(z)
        i0 = math.floor((bounds[0] - self.bbox[0]) / (mx * sx)) - pad
        i1 = math.floor((bounds[2] - self.bbox[0]) / (mx * sx)) + pad
        if self.ul:
            j0 = math.floor((self.bbox[3] - bounds[3]) / (my * sy)) - pad
            j1 = math.floor((self.bbox[3] - bounds[1]) / (my * sy)) + pad
        else:
            j0 = math.floor((bounds[1] - self.bbox[1]) / (my * sy)) - pad
            j1 = math.floor((bounds[3] - self.bbox[1]) / (my * sy)) + pad
        return max(i0, 0), min(i1, nbx - 1), max(j0, 0), min(j1, nby - 1)

    def tiles_in_block(self, z, bx, by):
        nx, ny = self.sizes[z]
        mx, my = self.meta(z)
        return [(x, y, z) for y in range(by * my, min((by + 1) * my, ny)) for x in range(bx * mx, min((bx + 1) * mx, nx))]

    def edge_x(self, z, i):
        return self.bbox[0] + i * self.span(z)[0]

    def edge_y(self, z, j):
        return (self.bbox[3] - j * self.span(z)[1]) if self.ul else (self.bbox[1] + j * self.span(z)[1])

    def snap_x(self, z, x):
        return self.edge_x(z, round((x - self.bbox[0]) / self.span(z)[0]))

    def snap_y(self, z, y):
        sy = self.span(z)[1]
        j = round((self.bbox[3] - y) / sy) if self.ul else round((y - self.bbox[1]) / sy)
        return self.edge_y(z, j)


def star(rng, cx, cy, rx, ry, n=None, rmin=0.45):
    n = n or rng.randint(4, 9)
    angs = sorted(rng.uniform(0, 2 * math.pi) for _ in range(n))
    # keep the polygon simple: star-shaped around the centre, no angular gap >= pi
    if max((angs[(i + 1) % n] - angs[i]) % (2 * math.pi) for i in range(n)) >= math.pi * 0.95:
        angs = [2 * math.pi * (i + rng.uniform(-0.3, 0.3)) / n for i in range(n)]
    rad = [rng.uniform(rmin, 1.0) for _ in range(n)]
    ring = [[cx + rx * r * math.cos(a), cy + ry * r * math.sin(a)] for a, r in zip(angs, rad)]
    ring.append(list(ring[0]))
    return ring, angs, rad


def polys_of(geom):
    out = []
    gs = [geom] if geom.geom_type == 'Polygon' else [g for g in getattr(geom, 'geoms', []) if g.geom_type == 'Polygon']
    for g in gs:
        if g.is_empty:
            continue
        out.append([[list(map(float, c[:2])) for c in g.exterior.coords]] +
                   [[list(map(float, c[:2])) for c in r.coords] for r in g.interiors])
    return out


def geom_of(polys):
    ps = [sg.Polygon(p[0], p[1:]) for p in polys]
    return ps[0] if len(ps) == 1 else sg.MultiPolygon(ps)


def to_srs(polys, a, b):
    if a == b:
        return polys
    t = transformer(a, b)
    out = []
    for p in polys:
        rings = []
        for ring in p:
            xs, ys = t.transform([c[0] for c in ring], [c[1] for c in ring])
            r = [[float(x), float(y)] for x, y in zip(xs, ys)]
            r[-1] = list(r[0])
            rings.append(r)
        out.append(rings)
    return out


def other_srs_for(gi, rect):
    """an SRS different from the grid's in which `rect` can be expressed safely, or None"""
    if gi.srs == 'EPSG:4326':
        if rect[1] < -80 or rect[3] > 80 or rect[0] < -179 or rect[2] > 179:
            return None
        return 'EPSG:3857'
    if gi.srs == 'EPSG:3857':
        if max(abs(rect[1]), abs(rect[3])) > 15000000 or max(abs(rect[0]), abs(rect[2])) > 19900000:
            return None
        return 'EPSG:4326'
    return 'EPSG:4326' if (rect[0] + rect[1]) % 2 < 1 else 'EPSG:3857'


def gen_coverage(rng, gi, zmax, allow_multi=True):
    """-> coverage spec (JSON-able), kept inside the area where the grid SRS is defined"""
    cov = gen_coverage_(rng, gi, zmax, allow_multi)
    lim = WORLD[gi.srs] if gi.srs != 'EPSG:25832' else (-500000.0, 3000000.0, 1500000.0, 8000000.0)
    if gi.srs == 'EPSG:4326':
        lim = (-180.0, -89.0, 180.0, 89.0)

    def clamp(c):
        if c['kind'] == 'multi':
            for q in c['parts']:
                clamp(q)
        elif c.get('srs') == gi.srs:
            if c['kind'] == 'bbox':
                b = c['bbox']
                nb = [max(b[0], lim[0]), max(b[1], lim[1]), min(b[2], lim[2]), min(b[3], lim[3])]
                if nb[2] - nb[0] > 0 and nb[3] - nb[1] > 0:
                    c['bbox'] = nb
                else:
                    c['bbox'] = [lim[0], lim[1], lim[0] + (b[2] - b[0]), lim[1] + (b[3] - b[1])]
            elif c['kind'] == 'geom':
                g = geom_of(c['polys'])
                if not g.is_valid:
                    g = g.buffer(0)
                g2 = g.intersection(sg.box(*lim))
                ps = polys_of(g2)
                if ps and not g2.equals(g):
                    c['polys'] = ps
    clamp(cov)
    return cov


def gen_coverage_(rng, gi, zmax, allow_multi=True):
    """-> coverage spec (JSON-able). Sized so that the deepest chosen level has at most a few thousand tiles."""
    gb = gi.bbox
    gw, gh = gb[2] - gb[0], gb[3] - gb[1]
    res = gi.res[zmax]
    sx, sy = gi.span(zmax)
    kind = rng.choice(['none', 'bbox', 'bbox', 'bbox_edge', 'bbox_edge', 'bbox_edge', 'strip', 'polygon', 'polygon',
                       'hole', 'multipolygon', 'sliver', 'sliver', 'other_bbox', 'other_polygon', 'multicov', 'small',
                       'small'])
    if kind == 'multicov' and not allow_multi:
        kind = 'polygon'
    if kind == 'none':
        return {'kind': 'none', 'cls': 'none'}
    if kind == 'multicov':
        parts = [gen_coverage_(rng, gi, zmax, allow_multi=False) for _ in range(rng.randint(2, 3))]
        parts = [p for p in parts if p['kind'] != 'none']
        if len(parts) < 2:
            return parts[0] if parts else {'kind': 'none', 'cls': 'none'}
        return {'kind': 'multi', 'cls': 'multicov', 'parts': parts}
    # target rectangle
    w = min(math.exp(rng.uniform(math.log(0.3), math.log(24))) * sx, gw * rng.uniform(0.2, 0.85))
    h = min(math.exp(rng.uniform(math.log(0.3), math.log(24))) * sy, gh * rng.uniform(0.2, 0.85))
    place = rng.choice(['in', 'in', 'in', 'in', 'hug', 'over'])
    x0 = gb[0] + rng.random() * (gw - w)
    y0 = gb[1] + rng.random() * (gh - h)
    if place != 'in':
        side = rng.choice('lrbt')
        shift = 0.0 if place == 'hug' else rng.uniform(0.05, 0.5)
        if side == 'l':
            x0 = gb[0] - shift * w
        elif side == 'r':
            x0 = gb[2] - w + shift * w
        elif side == 'b':
            y0 = gb[1] - shift * h
        else:
            y0 = gb[3] - h + shift * h
    rect = [x0, y0, x0 + w, y0 + h]

    if kind == 'strip':
        side = rng.choice('lrbt')
        width = res * rng.choice([0.3, 1.0, 3.0, 30.0, 300.0])
        inner = rng.choice([0.0, 0.0, 0.05, 0.5, -1.0]) * res      # -1: straddles the grid edge symmetrically
        if side in 'lr':
            ln = min(gh, 30 * sy)
            ya = gb[1] + rng.random() * (gh - ln)
            e = gb[0] if side == 'l' else gb[2]
            sgn = 1 if side == 'l' else -1
            a, b = (e + sgn * inner, e + sgn * (inner + width)) if inner >= 0 else (e - width, e + width)
            rect = [min(a, b), ya, max(a, b), ya + ln]
        else:
            ln = min(gw, 30 * sx)
            xa = gb[0] + rng.random() * (gw - ln)
            e = gb[1] if side == 'b' else gb[3]
            sgn = 1 if side == 'b' else -1
            a, b = (e + sgn * inner, e + sgn * (inner + width)) if inner >= 0 else (e - width, e + width)
            rect = [xa, min(a, b), xa + ln, max(a, b)]
        return {'kind': 'bbox', 'cls': 'strip', 'srs': gi.srs, 'bbox': rect}

    if kind == 'bbox':
        return {'kind': 'bbox', 'cls': 'bbox', 'srs': gi.srs, 'bbox': rect}

    if kind == 'small':
        # a small area (a few pixels of the deepest level) on / next to a tile edge of a much coarser level
        ww, hh = res * rng.uniform(3, 60), res * rng.uniform(3, 60)
        a = rng.randint(0, max(0, zmax - 2))
        cx = rect[0] + w / 2
        cy = rect[1] + h / 2
        if rng.random() < 0.8:
            cx = gi.snap_x(a, cx) + rng.choice(OFFS) * gi.res[a] * rng.choice([1, 1, 0.1])
        if rng.random() < 0.8:
            cy = gi.snap_y(a, cy) + rng.choice(OFFS) * gi.res[a] * rng.choice([1, 1, 0.1])
        r2 = [cx - ww / 2, cy - hh / 2, cx + ww / 2, cy + hh / 2]
        if rng.random() < 0.5:
            return {'kind': 'bbox', 'cls': 'small', 'srs': gi.srs, 'bbox': r2}
        ring = star(rng, cx, cy, ww / 2, hh / 2)[0]
        return {'kind': 'geom', 'cls': 'small', 'srs': gi.srs, 'polys': [[ring]]}

    if kind == 'bbox_edge':
        r2 = list(rect)
        for k in range(4):
            if rng.random() < 0.25:
                continue
            a = rng.randint(0, zmax)
            off = rng.choice(OFFS) * gi.res[a]
            r2[k] = (gi.snap_x(a, rect[k]) if k in (0, 2) else gi.snap_y(a, rect[k])) + off
        if r2[2] - r2[0] < 3 * res:
            r2[0], r2[2] = rect[0], rect[2]
        if r2[3] - r2[1] < 3 * res:
            r2[1], r2[3] = rect[1], rect[3]
        if r2[2] - r2[0] > 30 * sx or r2[3] - r2[1] > 30 * sy:
            r2 = rect
        return {'kind': 'bbox', 'cls': 'bbox_edge', 'srs': gi.srs, 'bbox': r2}

    cx, cy = (rect[0] + rect[2]) / 2, (rect[1] + rect[3]) / 2
    if kind in ('polygon', 'hole', 'other_polygon'):
        ring, angs, rad = star(rng, cx, cy, w / 2, h / 2)
        if rng.random() < 0.4:
            # snap some vertices onto / next to tile edges
            for v in ring[:-1]:
                if rng.random() < 0.5:
                    a = rng.randint(0, zmax)
                    v[0] = gi.snap_x(a, v[0]) + rng.choice(OFFS) * gi.res[a]
                    v[1] = gi.snap_y(a, v[1]) + rng.choice(OFFS) * gi.res[a]
            ring[-1] = list(ring[0])
        rings = [ring]
        if kind == 'hole':
            inner = [[cx + (v[0] - cx) * 0.4, cy + (v[1] - cy) * 0.4] for v in
                     [[cx + w / 2 * r * math.cos(a), cy + h / 2 * r * math.sin(a)] for a, r in zip(angs, rad)]]
            inner.append(list(inner[0]))
            rings.append(inner[::-1])
        g = sg.Polygon(rings[0], rings[1:])
        if not g.is_valid or g.area <= 0:
            g = g.buffer(0)
            if g.is_empty or g.geom_type not in ('Polygon', 'MultiPolygon'):
                return {'kind': 'bbox', 'cls': 'bbox', 'srs': gi.srs, 'bbox': rect}
        polys = polys_of(g)
        cls = 'hole' if kind == 'hole' else 'polygon'
        if kind == 'other_polygon':
            o = other_srs_for(gi, rect)
            lim = WORLD.get(gi.srs) if gi.srs != 'EPSG:25832' else None
            inside = lim is None or all(lim[0] < c[0] < lim[2] and max(lim[1], -85.0) < c[1] < min(lim[3], 85.0) or
                                        (gi.srs != 'EPSG:4326' and lim[0] < c[0] < lim[2] and lim[1] < c[1] < lim[3])
                                        for pp in polys for rr in pp for c in rr)
            if o and inside:
                tp = to_srs(polys, gi.srs, o)
                if all(math.isfinite(v) for pp in tp for rr in pp for c in rr for v in c):
                    return {'kind': 'geom', 'cls': 'polygon@other', 'srs': o, 'polys': tp}
        return {'kind': 'geom', 'cls': cls, 'srs': gi.srs, 'polys': polys}

    if kind == 'multipolygon':
        parts = []
        for _ in range(rng.randint(2, 4)):
            px = rect[0] + rng.random() * w
            py = rect[1] + rng.random() * h
            if rng.random() < 0.3:
                ww, hh = rng.uniform(0.05, 0.4) * w, rng.uniform(0.05, 0.4) * h
                parts.append(sg.box(px - ww, py - hh, px + ww, py + hh))
            else:
                parts.append(sg.Polygon(star(rng, px, py, rng.uniform(0.05, 0.4) * w, rng.uniform(0.05, 0.4) * h)[0]))
        g = shapely.ops.unary_union([p if p.is_valid else p.buffer(0) for p in parts])
        polys = polys_of(g)
        if not polys:
            return {'kind': 'bbox', 'cls': 'bbox', 'srs': gi.srs, 'bbox': rect}
        return {'kind': 'geom', 'cls': 'multipolygon', 'srs': gi.srs, 'polys': polys}

    if kind == 'sliver':
        ln = rng.uniform(2, 20) * max(sx, sy)
        ln = min(ln, 0.8 * min(gw, gh)) if rng.random() < 0.8 else min(ln, 0.8 * max(gw, gh))
        wd = res * rng.choice([0.05, 0.15, 0.3, 1.0, 2.5, 5.0])
        ang = rng.choice([0.0, math.pi / 2, rng.uniform(0, math.pi)])
        if rng.random() < 0.4:
            a = rng.randint(0, zmax)
            cx = gi.snap_x(a, cx) + rng.choice(OFFS) * gi.res[a]
            cy = gi.snap_y(a, cy) + rng.choice(OFFS) * gi.res[a]
        ca, sa = math.cos(ang), math.sin(ang)
        pts = []
        for u, v in ((-ln / 2, -wd / 2), (ln / 2, -wd / 2), (ln / 2, wd / 2), (-ln / 2, wd / 2)):
            pts.append([cx + u * ca - v * sa, cy + u * sa + v * ca])
        pts.append(list(pts[0]))
        return {'kind': 'geom', 'cls': 'sliver', 'srs': gi.srs, 'polys': [[pts]]}

    if kind == 'other_bbox':
        o = other_srs_for(gi, rect)
        if not o:
            return {'kind': 'bbox', 'cls': 'bbox', 'srs': gi.srs, 'bbox': rect}
        t = transformer(gi.srs, o)
        xs, ys = t.transform([rect[0], rect[2], rect[0], rect[2]], [rect[1], rect[1], rect[3], rect[3]])
        return {'kind': 'bbox', 'cls': 'bbox@other', 'srs': o,
                'bbox': [float(min(xs)), float(min(ys)), float(max(xs)), float(max(ys))]}
    raise AssertionError(kind)


def gen_levels(rng, zmax):
    shape = rng.choice(['contig', 'contig', 'gaps', 'gaps', 'all', 'single'])
    if zmax == 0:
        return [0], 'single'
    if shape == 'single':
        return [zmax], 'single'
    if shape == 'all':
        return list(range(zmax + 1)), 'all'
    if shape == 'contig' or zmax < 2:
        a = rng.randint(0, zmax - 1)
        return list(range(a, zmax + 1)), 'contig'
    pool = list(range(zmax))
    k = rng.randint(1, min(len(pool), 4))
    lv = sorted(rng.sample(pool, k)) + [zmax]
    if lv == list(range(lv[0], zmax + 1)):
        lv.remove(lv[-2]) if len(lv) > 2 else None
    return lv, ('gaps' if lv != list(range(lv[0], zmax + 1)) else 'contig')


def gen_spec(rng):
    grid = None
    while grid is None or grid.levels < 2:
        gs = gen_grid_spec(rng)
        try:
            grid = build_grid(gs)
        except Exception:
            grid = None
    meta = rng.choice([(1, 1), (1, 1), (2, 2), (2, 2), (3, 2), (2, 1), (3, 3)])
    gi = GridInfo(grid, meta)
    ntasks = 2 if rng.random() < 0.2 else 1
    tasks = []
    for t in range(ntasks):
        zmax = rng.randint(1, gi.levels - 1)
        cov = gen_coverage(rng, gi, zmax)
        if cov['kind'] == 'none':
            ok = [z for z in range(gi.levels) if gi.sizes[z][0] * gi.sizes[z][1] <= 2500]
            zmax = rng.choice(ok[-3:]) if ok else 0
        levels, lshape = gen_levels(rng, zmax)
        tasks.append({'name': 't%d' % t, 'levels': levels, 'lshape': lshape, 'coverage': cov})
    mode = rng.choice(['all', 'all', 'uncached', 'uncached', 'stale'])
    spec = {'grid': gs, 'meta_size': list(meta), 'meta_buffer': rng.choice([0, 0, 10, 80]), 'tasks': tasks,
            'skip_geoms': rng.choice([0, 0, 0, 1, 2, 2]), 'mode': mode,
            'partial': (rng.choice([0.0, 0.0, 0.3, 0.7]) if mode != 'all' else 0.0),
            'salt': rng.randrange(1 << 30), 'rescale': rng.random() < 0.15}
    if mode == 'all' and not spec['rescale'] and rng.random() < 0.2:
        # the tasks come out of the real SeedConfiguration.seed_tasks(): one seed section per generated task, each with two
        # caches on the grid (sections / caches / grids are what tells tasks apart in the progress file)
        spec['via_config'] = True
        spec['tasks'] = [dict(t, cache=c_, lshape='cfg_' + t['lshape']) for t in tasks for c_ in ('cA', 'cB')]
    if spec['rescale']:
        # what SeedConfiguration.seed_tasks() does for caches with upscale_tiles / downscale_tiles: one SeedTask per
        # level, all with the same name / cache / grid (rescale_tiles > 0: deepest level first)
        split = []
        for t in tasks:
            for z in t['levels'][::-1]:
                split.append({'name': t['name'], 'levels': [z], 'lshape': 'per_level_of_' + t['lshape'], 'coverage': t['coverage']})
        spec['tasks'] = split
    return spec


# =====================================================================================================
# the oracle's coverage geometry
# =====================================================================================================

def densify(ring, n):
    out = []
    for (ax, ay), (bx, by) in zip(ring[:-1], ring[1:]):
        for i in range(n):
            t = i / n
            out.append((ax + (bx - ax) * t, ay + (by - ay) * t))
    out.append(out[0])
    return out


def transform_polys(polys, a, b, n):
    t = transformer(a, b)
    ps = []
    for p in polys:
        rings = []
        for ring in p:
            r = densify(ring, n) if n > 1 else [tuple(c) for c in ring]
            xs, ys = t.transform([c[0] for c in r], [c[1] for c in r])
            rr = list(zip([float(x) for x in xs], [float(y) for y in ys]))
            rr[-1] = rr[0]
            rings.append(rr)
        g = sg.Polygon(rings[0], rings[1:])
        if not g.is_valid:
            g = g.buffer(0)
        ps.append(g)
    g = shapely.ops.unary_union(ps)
    return g


def ll_roundtrip_bounds(b, srs):
    """bounds (in srs) of the lon/lat bounding box of the rectangle b, never smaller than b"""
    if srs == 'EPSG:4326':
        return tuple(b)
    ring = [[b[0], b[1]], [b[2], b[1]], [b[2], b[3]], [b[0], b[3]], [b[0], b[1]]]
    try:
        ll = transform_polys([[ring]], srs, 'EPSG:4326', 64).bounds
        r2 = [[ll[0], ll[1]], [ll[2], ll[1]], [ll[2], ll[3]], [ll[0], ll[3]], [ll[0], ll[1]]]
        bb = transform_polys([[r2]], 'EPSG:4326', srs, 64).bounds
    except Exception:
        return tuple(b)
    if not all(math.isfinite(v) for v in bb):
        return tuple(b)
    return (min(b[0], bb[0]), min(b[1], bb[1]), max(b[2], bb[2]), max(b[3], bb[3]))


def oracle_cov(cov, gi):
    """-> (lo, hi, walk_bounds): surely-covered geometry, possibly-covered geometry (both in the grid SRS) and the
    bounding rectangle of the vertex-wise interpretation (diagnosis only)"""
    k = cov['kind']
    if k == 'none':
        b = sg.box(*gi.bbox)
        return b, b, gi.bbox
    if k == 'multi':
        parts = [oracle_cov(p, gi) for p in cov['parts']]
        lo = shapely.ops.unary_union([p[0] for p in parts])
        hi = shapely.ops.unary_union([p[1] for p in parts])
        # the extent of a multi coverage is the union of the parts' geographic (lon/lat) bounding boxes
        wb = [p[2] for p in parts] + [ll_roundtrip_bounds(p[1].bounds, gi.srs) for p in parts]
        wb = (min(b[0] for b in wb), min(b[1] for b in wb), max(b[2] for b in wb), max(b[3] for b in wb))
        return lo, hi, ll_roundtrip_bounds(wb, gi.srs)
    if k == 'bbox':
        bb = cov['bbox']
        if cov['srs'] == gi.srs:
            b = sg.box(*bb)
            return b, b, tuple(bb)
        ring = [[bb[0], bb[1]], [bb[2], bb[1]], [bb[2], bb[3]], [bb[0], bb[3]], [bb[0], bb[1]]]
        coarse = transform_polys([[ring]], cov['srs'], gi.srs, 4)
        dense = transform_polys([[ring]], cov['srs'], gi.srs, 64)
        env_c = sg.box(*coarse.bounds)
        env_d = sg.box(*dense.bounds)
        return dense.intersection(env_c), env_d.union(env_c), coarse.bounds
    if k == 'geom':
        if cov['srs'] == gi.srs:
            g = geom_of(cov['polys'])
            if not g.is_valid:
                g = g.buffer(0)
            return g, g, g.bounds
        v = transform_polys(cov['polys'], cov['srs'], gi.srs, 1)
        d = transform_polys(cov['polys'], cov['srs'], gi.srs, 32)
        return v.intersection(d), v.union(d), v.bounds
    raise AssertionError(k)


def cov_class(cov):
    return cov['cls']


def mp_coverage(cov, grid):
    """the coverage object the way seed/config.py hands it to SeedTask (transformed to the grid SRS)"""
    from mapproxy.srs import SRS
    from mapproxy.util.coverage import BBOXCoverage, GeomCoverage, MultiCoverage

    def one(c):
        if c['kind'] == 'bbox':
            return BBOXCoverage(list(c['bbox']), SRS(c['srs']))
        if c['kind'] == 'geom':
            return GeomCoverage(geom_of(c['polys']), SRS(c['srs']))
        if c['kind'] == 'multi':
            return MultiCoverage([one(p) for p in c['parts']])
        raise AssertionError(c['kind'])
    if cov['kind'] == 'none':
        return BBOXCoverage(grid.bbox, grid.srs)
    return one(cov).transform_to(grid.srs)


# =====================================================================================================
# recording stand-ins
# =====================================================================================================

class Interrupt(KeyboardInterrupt):
    pass


class Rec(object):
    """state of one seed() call: what was handed over, counters, the fault to inject"""

    def __init__(self, fault=None):
        self.fault = fault            # (kind, index, flavour) or None
        self.queues = []
        self.nput = 0
        self.nrep = 0
        self.fired = False
        self.stop = False             # the running() hook of SeedProgress answers False from now on


REC = Rec()


class RecQueue(object):
    def __init__(self, size=0):
        self.items = []
        REC.queues.append(self)

    def put(self, tiles, timeout=None):
        if tiles is None:       # stop sentinel
            return
        idx = REC.nput
        REC.nput += 1
        f = REC.fault
        if f and f[0] == 'put_before' and f[1] == idx:
            REC.fired = True
            if f[2] == 'full':
                raise queue.Full()   # no worker alive -> the real pool raises SeedInterrupted
            raise Interrupt()
        self.items.append([tuple(t) for t in tiles])
        if f and f[0] == 'put_after' and f[1] == idx:
            REC.fired = True
            if f[2] == 'stop':
                REC.stop = True      # a polite stop: no exception, the walker asks running() and winds down by itself
                return
            raise Interrupt()


def block_hash(salt, z, bx, by):
    v = (salt * 1000003 + z * 7919 + bx * 104729 + by * 1299709) & 0xffffffff
    v ^= v >> 15
    v = (v * 2246822519) & 0xffffffff
    v ^= v >> 13
    return (v % 1000) / 1000.0


class RecTileManager(object):
    def __init__(self, grid, gi, spec):
        from mapproxy.grid import MetaGrid
        self.grid = grid
        self.gi = gi
        ms = tuple(spec['meta_size'])
        self.meta_grid = MetaGrid(grid, ms, meta_buffer=spec['meta_buffer']) if ms != (1, 1) else None
        self.rescale_tiles = 1 if spec['rescale'] else 0
        self.partial = spec['partial']
        self.salt = spec['salt']
        self.minimize_meta_requests = True
        # attributes of the real TileManager that seed_task() reads and writes
        self._expire_timestamp = None
        self._refresh_before = {}
        self.cleanups = 0
        self.asked = 0

    def settled(self, z, bx, by):
        """meta tile needs no work (is cached / is not stale)"""
        return self.partial > 0 and block_hash(self.salt, z, bx, by) < self.partial

    def _settled_tile(self, tile):
        x, y, z = tile
        mx, my = self.gi.meta(z)
        return self.settled(z, x // mx, y // my)

    def is_cached(self, tile, dimensions=None):
        self.asked += 1
        return self._settled_tile(tile)

    def is_stale(self, tile, dimensions=None):
        self.asked += 1
        return not self._settled_tile(tile)

    def cleanup(self):
        self.cleanups += 1

    @contextlib.contextmanager
    def session(self):
        yield


def make_logger(store):
    from mapproxy.seed.util import ProgressLog

    class ForcedLog(ProgressLog):
        def log_progress(self, progress, level, bbox, tiles):
            idx = REC.nrep
            REC.nrep += 1
            f = REC.fault
            if f and f[0] == 'report_before' and f[1] == idx:
                REC.fired = True
                raise Interrupt()
            self._lastprogress = -1e18          # persist at every report
            ProgressLog.log_progress(self, progress, level, bbox, tiles)
            if f and f[0] == 'report_after' and f[1] == idx:
                REC.fired = True
                raise Interrupt()
    return ForcedLog(out=io.StringIO(), silent=True, verbose=False, progress_store=store)


class Outcome(object):
    pass


def run_seed(world, progfile, cont, fault=None):
    """one real seed() call. -> Outcome(handed=[list of tile lists per task], nput, nrep, exc, loaded)"""
    global REC
    from mapproxy.seed import seeder
    from mapproxy.seed.util import ProgressStore
    REC = Rec(fault)
    if not getattr(seeder.SeedProgress, '_c11_running_hook', False):
        seeder.SeedProgress.running = lambda self: not REC.stop
        seeder.SeedProgress._c11_running_hook = True
    store = ProgressStore(progfile, continue_seed=cont)
    o = Outcome()
    o.loaded = dict(store.status)
    logger = make_logger(store)
    o.exc = None
    sink = io.StringIO()
    try:
        with contextlib.redirect_stdout(sink), contextlib.redirect_stderr(sink):
            seeder.seed(world.tasks, concurrency=0, dry_run=False, skip_geoms_for_last_levels=world.spec['skip_geoms'],
                        progress_logger=logger, skip_uncached=(world.spec['mode'] == 'stale'))
    except (Interrupt, seeder.SeedInterrupted) as ex:
        o.exc = ex
        o.interrupted = True
    except Exception as ex:
        o.exc = ex
        o.interrupted = False
    if o.exc is None and REC.stop:
        o.exc = 'stopped through the running() hook'
        o.interrupted = True
    o.handed = [q.items for q in REC.queues]
    while len(o.handed) < len(world.tasks):
        o.handed.append([])
    o.nput = REC.nput
    o.nrep = REC.nrep
    o.fired = REC.fired
    return o


def handed_sets(handed):
    return [set(t for lst in h for t in lst) for h in handed]


# =====================================================================================================
# the world of one case
# =====================================================================================================

class World(object):
    def __init__(self, spec):
        from mapproxy.seed.seeder import SeedTask
        self.spec = spec
        self.grid = build_grid(spec['grid'])
        self.gi = GridInfo(self.grid, spec['meta_size'])
        self.tm = RecTileManager(self.grid, self.gi, spec)
        self.tasks = []
        if spec.get('via_config'):
            self._tasks_via_config(spec)
            return
        for t in spec['tasks']:
            md = dict(name=t['name'], cache_name='cache', grid_name='grid')
            cov = mp_coverage(t['coverage'], self.grid)
            self.tasks.append(SeedTask(md, self.tm, list(t['levels']), None, spec['mode'] == 'all', cov))


class LevelOracle(object):
    """classification of the meta tiles of one level of one task"""

    def __init__(self, gi, z, lo, hi, px_slack=1.0):
        self.gi, self.z, self.lo, self.hi = gi, z, lo, hi
        self.res = gi.res[z]
        self.cls = {}
        self.near = []
        self.too_big = False
        hb = hi.bounds
        i0, i1, j0, j1 = gi.block_range(z, hb, pad=1)
        if i1 < i0 or j1 < j0:
            return
        if (i1 - i0 + 1) * (j1 - j0 + 1) > BLOCK_CAP:
            self.too_big = True
            return
        bx, by = np.meshgrid(np.arange(i0, i1 + 1), np.arange(j0, j1 + 1))
        bx, by = bx.ravel(), by.ravel()
        x0, y0, x1, y1 = gi.block_rects(z, bx, by)
        boxes = shapely.box(x0, y0, x1, y1)
        gb = gi.bbox
        cx0, cy0 = np.maximum(x0, gb[0]), np.maximum(y0, gb[1])
        cx1, cy1 = np.minimum(x1, gb[2]), np.minimum(y1, gb[3])
        valid = (cx1 > cx0) & (cy1 > cy0)
        req = np.zeros(len(bx), dtype=bool)
        if valid.any():
            idx = np.nonzero(valid)[0]
            cb = shapely.box(cx0[idx], cy0[idx], cx1[idx], cy1[idx])
            inter = shapely.intersection(cb, lo)
            area = shapely.area(inter)
            cand = area > 4 * self.res * self.res
            if cand.any():
                er = shapely.buffer(inter[cand], -self.res)
                ok = ~shapely.is_empty(er)
                req[idx[np.nonzero(cand)[0][ok]]] = True
        dist = shapely.distance(boxes, hi)
        forb = dist > px_slack * self.res
        for k in range(len(bx)):
            self.cls[(int(bx[k]), int(by[k]))] = 'R' if req[k] else ('F' if forb[k] else 'D')
        self.near = [(float(x0[k]), float(y0[k]), float(x1[k]), float(y1[k])) for k in range(len(bx)) if not forb[k]]

    def classify(self, bx, by):
        c = self.cls.get((bx, by))
        if c is not None:
            return c
        x0, y0, x1, y1 = self.gi.block_rects(self.z, bx, by)
        d = sg.box(x0, y0, x1, y1).distance(self.hi)
        return 'F' if d > self.res else 'D'

    def rect(self, bx, by):
        return self.gi.block_rects(self.z, bx, by)


def diagnose_missing(gi, z, bx, by, lo, walk_bounds):
    """why could a required meta tile be unreachable for a walk that descends the pyramid from level 0?
    -> (cause, level) or (None, None).
    'coarser_level_leaves_strip_uncovered': the tiles of a coarser level do not reach the far border of the grid bbox
        (grid sizes are computed from whole pixels, so up to one pixel of THAT level stays uncovered) and the overlap
        region lies completely in that strip;
    'coarser_level_inset': on a coarser level every meta tile under the overlap region overlaps the walk rectangle
        (coverage extent) by no more than the 1/10 px inset of THAT level."""
    x0, y0, x1, y1 = gi.block_rects(z, bx, by)
    gb = gi.bbox
    o = sg.box(max(x0, gb[0]), max(y0, gb[1]), min(x1, gb[2]), min(y1, gb[3])).intersection(lo)
    if o.is_empty:
        return None, None
    ob = o.bounds
    for a in range(0, z):
        nx, ny = gi.sizes[a]
        sx, sy = gi.span(a)
        if gi.ul:
            cov_a = sg.box(gb[0], gb[3] - ny * sy, gb[0] + nx * sx, gb[3])
        else:
            cov_a = sg.box(gb[0], gb[1], gb[0] + nx * sx, gb[1] + ny * sy)
        if o.intersection(cov_a).area <= 1e-6 * o.area:
            return 'coarser_level_leaves_strip_uncovered', a
    for a in range(0, z):
        i0, i1, j0, j1 = gi.block_range(a, ob, pad=0)
        if i1 < i0 or j1 < j0 or (i1 - i0 + 1) * (j1 - j0 + 1) > 64:
            continue
        d = gi.res[a] / 10.0 * 1.0001
        allcut = True
        for i in range(i0, i1 + 1):
            for j in range(j0, j1 + 1):
                r = gi.block_rects(a, i, j)
                if sg.box(*r).intersection(o).area <= 1e-6 * o.area:
                    continue
                ox = min(r[2], walk_bounds[2]) - max(r[0], walk_bounds[0])
                oy = min(r[3], walk_bounds[3]) - max(r[1], walk_bounds[1])
                if ox > d and oy > d:
                    allcut = False
        if allcut:
            return 'coarser_level_inset', a
    return None, None


# =====================================================================================================
# judging
# =====================================================================================================

def ladder_class(gs):
    return gs['lclass']


def judge_completed(run, case, world, full, oracles):
    """REQUIRED subset of handed subset of not-FORBIDDEN for every task of the completed run"""
    spec = world.spec
    gi = world.gi
    hsets = handed_sets(full.handed)
    ok = True
    for ti, t in enumerate(spec['tasks']):
        lo, hi, wb, lev = oracles[ti]
        levels = t['levels']
        m = len(levels)
        N = spec['skip_geoms']
        handed = hsets[ti]
        ccls = cov_class(t['coverage'])
        nontrivial = (t['coverage']['kind'] != 'none') and m >= 2
        klass = (ladder_class(spec['grid']), gi.srs, ccls, tuple(spec['meta_size']), t['lshape'], 'none')
        # ---- what was handed, as meta tiles ---------------------------------------------------------------
        by_block = {}
        for (x, y, z) in handed:
            if z not in levels:
                ok = False
                run.violation({'clause': 'handed_level_not_chosen'}, dict(case, spec=spec),
                              'task %s levels %r: tile %r handed to the pool' % (t['name'], levels, (x, y, z)))
                continue
            nx, ny = gi.sizes[z]
            if not (0 <= x < nx and 0 <= y < ny):
                ok = False
                run.violation({'clause': 'handed_tile_outside_grid'}, dict(case, spec=spec),
                              'task %s: tile %r handed, grid size of level %d is %r' % (t['name'], (x, y, z), z, (nx, ny)))
                continue
            mx, my = gi.meta(z)
            by_block.setdefault((z, x // mx, y // my), set()).add((x, y, z))
        # ---- skip_geoms widening --------------------------------------------------------------------------
        last = set(levels[max(0, m - N):]) if N > 0 else set()
        ref_union = None
        if last and m - N - 1 >= 0:
            zr = levels[m - N - 1]
            if lev[zr].near:
                ref_union = shapely.ops.unary_union([sg.box(*r) for r in lev[zr].near])
            else:
                ref_union = sg.Polygon()
        hb = hi.bounds
        extent = sg.box(min(hb[0], wb[0]), min(hb[1], wb[1]), max(hb[2], wb[2]), max(hb[3], wb[3]))
        # ---- required -------------------------------------------------------------------------------------
        nreq = nforb = 0
        for z in levels:
            lo_ = lev[z]
            for (bx, by), c in lo_.cls.items():
                if c == 'R':
                    if spec['mode'] != 'all' and world.tm.settled(z, bx, by):
                        run.dc('meta_tile_already_cached_or_fresh')
                        continue
                    tiles = gi.tiles_in_block(z, bx, by)
                    nreq += len(tiles)
                    got = by_block.get((z, bx, by), set())
                    if spec['rescale']:
                        missing = [tt for tt in tiles if tt not in got]
                    else:
                        missing = [] if got else tiles
                    if missing:
                        ok = False
                        cause, a = diagnose_missing(gi, z, bx, by, lo, wb)
                        r = lo_.rect(bx, by)
                        why = {'coarser_level_inset': 'its ancestors on level %s overlap the coverage extent by <= 0.1 px of '
                                                      'that level (res %.6g)',
                               'coarser_level_leaves_strip_uncovered': 'the tiles of level %s (res %.6g) end before the border '
                                                                       'of the grid bbox and the overlap lies in that strip',
                               None: 'no coarser level explains it%.0s%.0s'}[cause] % (
                            a, gi.res[a] if a is not None else 0.0)
                        run.violation({'clause': 'required_tile_not_handed', 'cause': cause or 'unexplained'},
                                      dict(case, spec=spec),
                                      'task %s levels %r coverage %s: meta tile %r of level %d (rect %r, res %.6g) overlaps the '
                                      'coverage (contains a disc of 1 px radius) but tiles %r were never handed to the pool; '
                                      '%s' % (t['name'], levels, describe_cov(t['coverage']), (bx, by), z,
                                              tuple(round(v, 4) for v in r), gi.res[z], missing[:6], why))
                elif c == 'F':
                    nforb += 1
                    if (z, bx, by) in by_block:
                        if z in last:
                            r = sg.box(*lo_.rect(bx, by))
                            if r.distance(extent) <= lo_.res and (ref_union is None or r.distance(ref_union) <= lo_.res):
                                run.dc('skip_geoms_last_levels_overseed')
                                continue
                        ok = False
                        run.violation({'clause': 'forbidden_tile_handed', 'skip_geoms': N > 0,
                                       'cov': t['coverage']['kind']}, dict(case, spec=spec),
                                      'task %s levels %r coverage %s: tile(s) %r of level %d handed, meta tile rect %r is %.3f px '
                                      'away from the coverage' % (t['name'], levels, describe_cov(t['coverage']),
                                                                  sorted(by_block[(z, bx, by)])[:4], z,
                                                                  tuple(round(v, 4) for v in lo_.rect(bx, by)),
                                                                  sg.box(*lo_.rect(bx, by)).distance(hi) / lo_.res))
                else:
                    run.dc('meta_tile_in_tolerance_band')
        # ---- handed tiles outside the enumerated neighbourhood ----------------------------------------------
        for (z, bx, by), got in by_block.items():
            if (bx, by) in lev[z].cls:
                continue
            nforb += 1
            c = lev[z].classify(bx, by)
            if c == 'F':
                if z in last:
                    r = sg.box(*lev[z].rect(bx, by))
                    if r.distance(extent) <= lev[z].res and (ref_union is None or r.distance(ref_union) <= lev[z].res):
                        run.dc('skip_geoms_last_levels_overseed')
                        continue
                ok = False
                run.violation({'clause': 'forbidden_tile_handed', 'skip_geoms': N > 0, 'cov': t['coverage']['kind']},
                              dict(case, spec=spec),
                              'task %s levels %r coverage %s: tile(s) %r handed, far from the coverage' % (
                                  t['name'], levels, describe_cov(t['coverage']), sorted(got)[:4]))
        run.hit('required_tiles_checked', nreq)
        run.hit('forbidden_tiles_checked', nforb)
        run.hit('tasks')
        run.judge(klass, nontrivial=nontrivial, n=max(1, nreq + nforb))
        if nontrivial:
            run.count('nontrivial_tasks')
    return ok


def describe_cov(cov):
    if cov['kind'] == 'none':
        return 'none (full grid)'
    if cov['kind'] == 'bbox':
        return 'bbox %r %s' % (cov['bbox'], cov['srs'])
    if cov['kind'] == 'geom':
        return '%s %s %d polygon(s), first ring %r' % (cov['cls'], cov['srs'], len(cov['polys']), cov['polys'][0][0][:6])
    return 'multi[' + '; '.join(describe_cov(p) for p in cov['parts']) + ']'


def choose_points(run, rng, full, explicit=None):
    if explicit is not None:
        return [(p[0], p[1], p[2]) for p in explicit]
    pts = []
    for k in range(full.nput):
        pts.append(('put_before', k, 'full' if k % 2 else 'kbd'))
        pts.append(('put_after', k, 'kbd' if k % 3 else 'stop'))
    for k in range(full.nrep):
        pts.append(('report_before', k, 'kbd'))
        pts.append(('report_after', k, 'kbd'))
    cap = run.pick(60, 1600)
    if len(pts) <= cap:
        return pts
    # stratified: first/last of each kind, then evenly spread with a random phase
    keep = set()
    for kind in ('put_before', 'put_after', 'report_before', 'report_after'):
        ks = [i for i, p in enumerate(pts) if p[0] == kind]
        if ks:
            keep.update([ks[0], ks[-1]])
            n = max(1, (cap - 8) // 4)
            step = len(ks) / float(n)
            ph = rng.random()
            for j in range(n):
                keep.add(ks[min(len(ks) - 1, int((j + ph) * step))])
    run.count('tasks_with_sampled_points')
    return [pts[i] for i in sorted(keep)]


def fault_enumeration(run, case, world, full, rng, explicit=None):
    spec = world.spec
    d = run.subdir('c11')
    progfile = os.path.join(d, 'seed.progress')
    full_sets = handed_sets(full.handed)
    memo = {}
    pts = choose_points(run, rng, full, explicit)
    ndouble = run.pick(4, 12)
    doubles = set(rng.sample(range(len(pts)), min(len(pts), ndouble))) if explicit is None else set()
    if explicit is None and len(pts) == 2 * full.nput + 2 * full.nrep:
        run.count('tasks_with_all_points')
    gi = world.gi
    lad = ladder_class(spec['grid'])

    def resume(state_key, fault=None):
        """continue from the progress file on disk"""
        if fault is None and state_key in memo:
            run.count('resume_memo_hits')
            if rng.random() >= 0.1:
                return memo[state_key]
            o = run_seed(world, progfile, True)
            run.hit('resumed_runs')
            run.count('resume_memo_validated')
            if handed_sets(o.handed) != handed_sets(memo[state_key].handed) or o.exc is not None:
                raise RuntimeError('continued run is not deterministic for the same progress file')
            return memo[state_key]
        o = run_seed(world, progfile, True, fault)
        run.hit('resumed_runs')
        if any(v is not None for v in o.loaded.values()):
            run.hit('resume_with_saved_progress')
        if fault is None:
            memo[state_key] = o
        return o

    def state():
        try:
            with open(progfile, 'rb') as f:
                return f.read()
        except OSError:
            return None

    for pi, p in enumerate(pts):
        if run.out_of_time() and not run.replaying:
            run.count('tasks_cut_by_budget')
            break
        try:
            os.remove(progfile)
        except OSError:
            pass
        first = run_seed(world, progfile, False, p)
        if not first.fired or first.exc is None or not getattr(first, 'interrupted', False):
            raise RuntimeError('fault %r did not interrupt the run: %r' % (p, first.exc))
        before = handed_sets(first.handed)
        kind = p[0] if p[2] not in ('full', 'stop') else ('put_full' if p[2] == 'full' else 'put_stop')
        second_fault = None
        if explicit is not None and len(explicit[pi]) > 3 and explicit[pi][3]:
            second_fault = tuple(explicit[pi][3])
        if pi in doubles:
            st = state()
            base = resume(st)
            if st is None:
                if os.path.exists(progfile):
                    os.remove(progfile)
            else:
                with open(progfile, 'wb') as f:
                    f.write(st)
            n2 = 2 * base.nput + 2 * base.nrep
            if base.exc is None and n2:
                j = rng.randrange(n2)
                if j < 2 * base.nput:
                    second_fault = (('put_before', 'put_after')[j % 2], j // 2, 'kbd')
                else:
                    j -= 2 * base.nput
                    second_fault = (('report_before', 'report_after')[j % 2], j // 2, 'kbd')
        if second_fault:
            # the continued run is interrupted again and continued a second time
            run.hit('double_interruptions')
            second = resume(None, second_fault)
            if second.exc is not None and not getattr(second, 'interrupted', False):
                after = None
                exc = second.exc
            else:
                third = resume(state())
                exc = third.exc
                after = [a | b for a, b in zip(handed_sets(second.handed), handed_sets(third.handed))]
            kind = 'double:' + kind
        else:
            second = resume(state())
            exc = second.exc
            after = handed_sets(second.handed)
        run.hit('interruption_points')
        nontrivial = any(t['coverage']['kind'] != 'none' and len(t['levels']) >= 2 for t in spec['tasks'])
        for t in spec['tasks'][:1]:
            run.judge((lad, gi.srs, cov_class(t['coverage']), tuple(spec['meta_size']), t['lshape'], kind),
                      nontrivial=nontrivial)
        if exc is not None:
            run.violation({'clause': 'continued_run_raised', 'exc': type(exc).__name__, 'kind': kind},
                          dict(case, spec=spec, points=[list(p) + [list(second_fault) if second_fault else None]]),
                          'interrupted at %r, continued run raised %r' % (p, exc))
            continue
        lost_any = False
        for ti, t in enumerate(spec['tasks']):
            lost = full_sets[ti] - (before[ti] | after[ti])
            if lost:
                lost_any = True
                run.violation({'clause': 'resume_lost_tiles', 'kind': kind, 'two_tasks': len(spec['tasks']) > 1},
                              dict(case, spec=spec, points=[list(p) + [list(second_fault) if second_fault else None]]),
                              'task %s levels %r: interrupted at %r (second interruption %r); saved progress %r; uninterrupted '
                              'run hands %d tiles, before %d, after %d; lost %d, e.g. %r' % (
                                  t['name'], t['levels'], p, second_fault, second.loaded if not second_fault else '...',
                                  len(full_sets[ti]), len(before[ti]), len(after[ti]), len(lost), sorted(lost)[:8]))
            if len(after[ti]) < len(full_sets[ti]):
                run.hit('resume_skipped_work')
        if not lost_any:
            run.count('points_ok')
    return len(pts)



def crash_info(exc):
    """where in the walker did it raise: the walk rectangle and level of the innermost _walk frame"""
    tb = exc.__traceback__
    info = None
    while tb is not None:
        if tb.tb_frame.f_code.co_name == '_walk':
            loc = tb.tb_frame.f_locals
            if 'cur_bbox' in loc and 'current_level' in loc:
                info = (tuple(loc['cur_bbox']), loc['current_level'])
        tb = tb.tb_next
    return info


def seed_raised(run, case, world, full, oracles, progfile):
    """seed() raised something that is not an interruption.  The statement speaks about runs that complete and about
    runs that are continued, so continue (twice) from the progress file; a violation is reported when the work can not
    be completed that way and required tiles were never handed over."""
    spec, gi = world.spec, world.gi
    union = handed_sets(full.handed)
    excs = [full.exc]
    for _ in range(2):
        o = run_seed(world, progfile, True)
        union = [a | b for a, b in zip(union, handed_sets(o.handed))]
        if o.exc is None:
            break
        excs.append(o.exc)
    missing = []
    nreq = 0
    for ti, t in enumerate(spec['tasks']):
        lev = oracles[ti][3]
        blocks = set()
        for (x, y, z) in union[ti]:
            if 0 <= z < gi.levels:
                mx, my = gi.meta(z)
                blocks.add((z, x // mx, y // my))
        for z in t['levels']:
            for (bx, by), c in lev[z].cls.items():
                if c == 'R' and not (spec['mode'] != 'all' and world.tm.settled(z, bx, by)):
                    nreq += 1
                    if (z, bx, by) not in blocks:
                        missing.append((t['name'], z, bx, by))
    run.hit('tasks')
    t0 = spec['tasks'][0]
    run.judge((ladder_class(spec['grid']), gi.srs, cov_class(t0['coverage']), tuple(spec['meta_size']), t0['lshape'], 'none'),
              nontrivial=True, n=max(1, nreq))
    run.hit('required_tiles_checked', nreq)
    if not missing:
        run.dc('seed_raised_but_no_required_tile_left_out')
        return
    info = crash_info(full.exc)
    cause = 'other'
    where = ''
    if info:
        bb, lvl = info
        r = gi.res[lvl] if 0 <= lvl < gi.levels else float('nan')
        if (bb[2] - bb[0]) <= 0.2 * r * 1.0001 or (bb[3] - bb[1]) <= 0.2 * r * 1.0001:
            cause = 'walk_rect_thinner_than_two_insets'
        where = ' in _walk(level %d, rect %r = %.4g x %.4g px of that level)' % (
            lvl, tuple(round(v, 4) for v in bb), (bb[2] - bb[0]) / r, (bb[3] - bb[1]) / r)
    run.violation({'clause': 'seed_raised', 'exc': type(full.exc).__name__, 'cause': cause},
                  dict(case, spec=spec),
                  'seed() raised %r%s; continuing from the progress file raised %r; %d of %d required meta tiles were never '
                  'handed to the pool, e.g. %r; grid %s bbox %r tile_size %r meta %r; tasks %r' % (
                      full.exc, where, excs[1:], len(missing), nreq, missing[:5], gi.srs, gi.bbox, (gi.tw, gi.th),
                      gi.meta_size, [(t['levels'], describe_cov(t['coverage'])[:260]) for t in spec['tasks']]))


# =====================================================================================================
# case driver
# =====================================================================================================

def setup_shard(run):
    from mapproxy.seed import seeder
    seeder.queue_class = RecQueue


def _directed(grid, meta, levels, cov, lshape):
    return {'grid': grid, 'meta_size': meta, 'meta_buffer': 0, 'skip_geoms': 0, 'mode': 'all', 'partial': 0.0, 'salt': 1,
            'rescale': False, 'tasks': [{'name': 't0', 'levels': levels, 'lshape': lshape, 'coverage': cov}]}


_WEBMERC = {'srs': 'EPSG:3857', 'bbox': list(WORLD['EPSG:3857']), 'tile_size': [256, 256], 'origin': 'nw',
            'bclass': 'global', 'lclass': 'f2', 'res_factor': 2.0, 'num_levels': 20}
# standard-grid witnesses of the three mechanisms found by the generated cases (see the final report of the check)
DIRECTED = {
    # coverage starts 5 km south of the equator: the level-1 tile south of it overlaps by < 0.1 px of level 1
    'webmercator_bbox_5km_beyond_level1_edge': _directed(
        _WEBMERC, [1, 1], list(range(0, 13)),
        {'kind': 'bbox', 'cls': 'bbox_edge', 'srs': 'EPSG:3857', 'bbox': [1000000.0, -5000.0, 1100000.0, 100000.0]}, 'all'),
    # 50 m x 100 m in Greenwich, 50 m west of the prime meridian (a meta tile edge from level 3 on)
    'webmercator_small_area_next_to_meridian': _directed(
        _WEBMERC, [4, 4], list(range(0, 17)),
        {'kind': 'bbox', 'cls': 'small', 'srs': 'EPSG:3857', 'bbox': [-100.0, 6710000.0, -50.0, 6710100.0]}, 'all'),
    # regional grid, 512.9 px wide on level 0: two level-0 tiles end 230 m before the right border
    'regional_grid_full_extent_last_column': _directed(
        {'srs': 'EPSG:25832', 'bbox': [300000.0, 5600000.0, 431302.4, 5700000.0], 'tile_size': [256, 256], 'origin': 'll',
         'bclass': 'regional', 'lclass': 'list', 'res': [256.0, 128.0, 64.0, 32.0, 16.0]},
        [1, 1], [3, 4], {'kind': 'none', 'cls': 'none'}, 'contig'),
}


class _FakeCache(object):
    supports_timestamp = True


def _world_tasks_via_config(self, spec):
    """drive the real SeedConfiguration (mapproxy/seed/config.py) with stand-in tile managers: the SeedTask objects, their
    md / id / levels / coverage are made by the real code"""
    from mapproxy.seed.config import SeedConfiguration
    from mapproxy.srs import SRS
    from mapproxy.util.coverage import BBOXCoverage, GeomCoverage, MultiCoverage
    world = self

    def raw_cov(c):
        if c['kind'] == 'bbox':
            return BBOXCoverage(list(c['bbox']), SRS(c['srs']))
        if c['kind'] == 'geom':
            return GeomCoverage(geom_of(c['polys']), SRS(c['srs']))
        if c['kind'] == 'multi':
            return MultiCoverage([raw_cov(p_) for p_ in c['parts']])
        raise AssertionError(c['kind'])
    tms = {}

    # a second grid in another SRS, listed FIRST in the seed section: every task gets the configured coverage transformed into
    # its own grid's SRS (not whatever an earlier grid made of it); only the tasks of 'grid' are run and judged
    from mapproxy.grid import tile_grid
    other_srs = {'EPSG:3857': 'EPSG:25832', 'EPSG:900913': 'EPSG:25832', 'EPSG:25832': 'EPSG:3857'}.get(spec['grid']['srs'], 'EPSG:3857')
    grid2 = tile_grid(srs=other_srs, bbox=(200000.0, 5200000.0, 900000.0, 6100000.0)) if other_srs == 'EPSG:25832' else tile_grid(srs=other_srs)
    gi2 = GridInfo(grid2, spec['meta_size'])
    tms2 = {}

    class FakeSeedingConf(object):
        grids = {'grid': world.grid, 'grid2': grid2}

        def __init__(self, cov):
            self._cov = cov

        def coverage(self, name):
            return raw_cov(self._cov)

        def cache(self, name):
            if name not in tms:
                tm = RecTileManager(world.grid, world.gi, spec)
                tm.cache = _FakeCache()
                tms[name] = tm
                tm2 = RecTileManager(grid2, gi2, spec)
                tm2.cache = _FakeCache()
                tms2[name] = tm2
            return {'grid2': tms2[name], 'grid': tms[name]}
    names = []
    for t in spec['tasks']:
        if t['name'] not in names:
            names.append(t['name'])
    for nm in names:
        ts = [t for t in spec['tasks'] if t['name'] == nm]
        conf = {'caches': [t['cache'] for t in ts], 'levels': list(ts[0]['levels']), 'grids': ['grid2', 'grid']}
        if ts[0]['coverage']['kind'] != 'none':
            conf['coverages'] = ['cov']
        sc = SeedConfiguration(nm, conf, FakeSeedingConf(ts[0]['coverage']))
        try:
            made = [t_ for t_ in sc.seed_tasks() if t_.md['grid_name'] == 'grid']
        except Exception as ex:
            # (levels beyond the second grid, coverage not transformable into its SRS): fall back to the one-grid section
            self.run_note = 'second grid dropped: %s' % type(ex).__name__
            conf['grids'] = ['grid']
            sc = SeedConfiguration(nm, conf, FakeSeedingConf(ts[0]['coverage']))
            made = list(sc.seed_tasks())
        if len(made) != len(ts):
            raise RuntimeError('SeedConfiguration produced %d tasks for %d caches' % (len(made), len(ts)))
        self.tasks.extend(made)
    self.tm = tms[spec['tasks'][0]['cache']]
    self.tms = tms


World._tasks_via_config = _world_tasks_via_config


def gen_cases(run):
    for k, name in enumerate(sorted(DIRECTED)):
        yield {'i': -1 - k, 'directed': name}
    n = run.pick(400, 2600)
    for i in range(n):
        yield {'i': i}


def run_case(run, case):
    rng = run.rng('task', case['i'])
    spec = case.get('spec') or (DIRECTED[case['directed']] if 'directed' in case else gen_spec(rng))
    world = World(spec)
    if spec.get('via_config'):
        run.hit('cases_with_tasks_from_seed_configuration')
    if 'directed' in case:
        run.count('directed_cases')
    gi = world.gi
    # ---- oracle preparation (before anything runs) ----------------------------------------------------------
    oracles = []
    for t in spec['tasks']:
        lo, hi, wb = oracle_cov(t['coverage'], gi)
        if hi.is_empty:
            run.dc('empty_coverage')
            return
        lev = {}
        for z in t['levels']:
            lev[z] = LevelOracle(gi, z, lo, hi)
            if lev[z].too_big:
                run.dc('level_too_large_for_enumeration')
                return
        oracles.append((lo, hi, wb, lev))
    # ---- uninterrupted run --------------------------------------------------------------------------------------
    d = run.subdir('c11full')
    progfile = os.path.join(d, 'seed.progress')
    full = run_seed(world, progfile, False)
    if full.exc is not None:
        seed_raised(run, case, world, full, oracles, progfile)
        return
    if world.tm.minimize_meta_requests is not False:
        raise RuntimeError('seed_task did not run')
    judge_completed(run, case, world, full, oracles)
    # a finished seed leaves "everything done" for every task in the progress file
    npts = fault_enumeration(run, case, world, full, run.rng('points', case['i']), case.get('points'))
    if case['i'] % 37 == 0 or (len(spec['tasks']) > 1 and case['i'] % 5 == 0):
        run.sample({'grid': spec['grid'], 'meta_size': spec['meta_size'], 'mode': spec['mode'],
                    'skip_geoms': spec['skip_geoms'],
                    'tasks': [{'levels': t['levels'], 'coverage': describe_cov(t['coverage'])[:300]} for t in spec['tasks']],
                    'tile_lists_handed': full.nput, 'progress_reports': full.nrep, 'interruption_points_run': npts,
                    'observed': 'required subset of handed subset of not-forbidden; every continued run completed the work'})


def evidence_extra(total):
    return {'interruption_points': total.monitors.get('interruption_points', 0),
            'resumed_runs': total.monitors.get('resumed_runs', 0)}


if __name__ == '__main__':
    core.main(sys.modules[__name__])
