"""C06 - a crash while storing never leaves a corrupt or foreign tile visible.

Fault enumeration: each store scenario runs in a forked child whose k-th raw file-system operation is replaced by
process death (vlib.crash), for every k and for page-aligned torn writes; the parent reads the directory with fresh
cache objects and compares every address with {previous content, complete new content, missing-if-allowed}."""
import io
import json
import os
import pickle
import shutil
import subprocess
import sys

from vlib import core, crash

PID = 'C06'
LEVEL = 'fault_enumeration'
BUDGET_S = {'quick': 45, 'thorough': 700}
FLOORS = {'quick': {'crash_points': 1500, 'torn_writes': 100, 'addresses_judged': 8000, 'recovery_stores': 1500, 'post_crash_other_stores': 1200, 'strace_kills_compared': 8,
                    'scenarios': 100},
          'thorough': {'crash_points': 30000, 'torn_writes': 2000, 'addresses_judged': 150000,
                       'recovery_stores': 30000, 'post_crash_other_stores': 25000, 'scenarios': 2000,
                       'strace_kills_compared': 100}}
RULE = ("case = one store scenario (file cache plain / symlink / hardlink single-colour, compact v1/v2 store_tile, "
        "store_tiles within and across bundles, overwrite, remove, legend cache, seed progress file; prior contents "
        "empty / populated / left by an earlier crash; payload 200 B - 300 kB). For each scenario an unfaulted run in a "
        "child yields the sequence of N raw operations; then the child is re-run and killed (os._exit inside the "
        "failpoint) before operation k for every k in 0..N, and for every write that crosses a 4096-byte file offset "
        "also after a page-aligned prefix. evaluations = post-crash address judgements; distinct = (scenario kind, "
        "operation kind at the crash point, torn?); non-trivial = crash point strictly inside the sequence (0<k<N)")
ASSUMPTIONS = [
    "crash model = process death (SIGKILL/OOM/abort): completed system calls are durable, user-space buffers are lost; "
    "power loss / page-cache reordering is not modelled (the code has no fsync discipline to test)",
    "a write is torn only at page-aligned file offsets (a fatal signal is honoured between pages of a buffered write)",
    "readers are fresh cache objects in the parent process; single-threaded",
]

FILE_KINDS = ['plain_new', 'plain_overwrite', 'first_store_deep', 'link_new_colour', 'link_existing_colour',
              'link_replace_regular', 'regular_replaces_link', 'link_change_colour']
COMPACT_KINDS = ['new_bundle', 'existing_bundle', 'overwrite', 'batch_in_bundle', 'batch_straddle', 'batch_across',
                 'remove', 'overwrite_big']
OTHER_KINDS = ['legend_new', 'legend_overwrite', 'progress_new', 'progress_overwrite']

_PNG = {}


def png(colour=None, seed=0, size=(64, 64)):
    key = (colour, seed, size)
    if key not in _PNG:
        from PIL import Image
        import random
        if colour is not None:
            img = Image.new('RGB', (256, 256), colour)
        else:
            r = random.Random(seed)
            img = Image.frombytes('RGB', size, r.randbytes(size[0] * size[1] * 3))
        b = io.BytesIO()
        img.save(b, 'PNG')
        _PNG[key] = b.getvalue()
    return _PNG[key]


def blob(seed, size):
    import random
    return b'\x89PNG\r\n\x1a\n' + random.Random(seed).randbytes(max(0, size - 8))


def straddle_slots():
    """v1 index slots (x, y) whose 5-byte entry crosses a 4096 boundary of the .bundlx file"""
    out = []
    for s in range(128 * 128):
        o = 16 + s * 5
        if o // 4096 != (o + 4) // 4096:
            out.append((s // 128, s % 128))
    return out


STRADDLE = None


def mk_tile(addr, data):
    from mapproxy.cache.tile import Tile
    from mapproxy.image import ImageSource
    t = Tile(tuple(addr))
    if data is not None:
        t.source = ImageSource(io.BytesIO(data))
    return t


class Scenario(object):
    """builds: make_cache(), pre (addr->bytes), batch (addr->new bytes or None for remove), universe, link flags"""

    def __init__(self, case, d):
        global STRADDLE
        self.case = case
        self.d = d
        self.kind = case['kind']
        self.backend = case['backend']
        self.seed = case['seed']
        import random
        self.rng = random.Random('%s:%s:%s' % (self.backend, self.kind, self.seed))
        self.pre_ops = []     # list of (addr, bytes) stores executed in-process before the snapshot
        self.batch = []       # list of (addr, bytes|None)
        self.linkish = set()  # addresses for which 'missing' is allowed because a link is involved
        self.bulk = False
        rng = self.rng
        bl = blob
        if self.backend in ('file_symlink', 'file_hardlink'):
            def bl(seed, size):   # link modes decode every tile: use real multi-colour images
                side = 16 if size < 2000 else (64 if size < 20000 else (160 if size < 100000 else 320))
                return png(seed=seed, size=(side, side))
        sizes = [200, 3000, 9000, 70000, 300000]
        k = self.kind
        if self.backend.startswith('file'):
            z = rng.choice([0, 3, 12])
            a = (rng.randrange(1 << min(z, 8)), rng.randrange(1 << min(z, 8)), z)
            b = (a[0] + 1, a[1], z) if z else (0, 0, 1)
            if k == 'plain_new':
                self.pre_ops = [(b, bl(1, 500))]
                self.batch = [(a, bl(2, rng.choice(sizes)))]
            elif k == 'plain_overwrite':
                self.pre_ops = [(a, bl(3, rng.choice(sizes))), (b, bl(1, 500))]
                self.batch = [(a, bl(4, rng.choice(sizes)))]
            elif k == 'first_store_deep':
                a = (1234567, 7654321, 22)
                self.batch = [(a, bl(5, rng.choice(sizes)))]
            elif k == 'link_new_colour':
                self.pre_ops = [(b, png(seed=1))]
                self.batch = [(a, png(colour=(255, 0, 0)))]
                self.linkish.add(a)
            elif k == 'link_existing_colour':
                self.pre_ops = [(b, png(colour=(255, 0, 0)))]
                self.batch = [(a, png(colour=(255, 0, 0)))]
                self.linkish.add(a)
            elif k == 'link_replace_regular':
                self.pre_ops = [(a, png(seed=2)), (b, png(colour=(0, 0, 255)))]
                self.batch = [(a, png(colour=rng.choice([(0, 0, 255), (9, 9, 9)])))]
                self.linkish.add(a)
            elif k == 'regular_replaces_link':
                self.pre_ops = [(a, png(colour=(0, 255, 0))), (b, png(colour=(0, 255, 0)))]
                self.batch = [(a, png(seed=3, size=rng.choice([(64, 64), (256, 256)])))]
                self.linkish.add(a)
            elif k == 'link_change_colour':
                self.pre_ops = [(a, png(colour=(0, 255, 0))), (b, png(colour=(0, 255, 0)))]
                self.batch = [(a, png(colour=(1, 2, 3)))]
                self.linkish.add(a)
        elif self.backend.startswith('compact'):
            if STRADDLE is None:
                STRADDLE = straddle_slots()
            z = rng.choice([8, 9, 12])
            bx, by = rng.choice([(0, 0), (128, 0), (128, 256)])
            def slot():
                return (bx + rng.choice([0, 1, 127, rng.randrange(128)]), by + rng.choice([0, 1, 127, rng.randrange(128)]), z)
            a = slot()
            others = []
            while len(others) < 3:
                o = slot()
                if o != a and o not in others:
                    others.append(o)
            if k == 'new_bundle':
                self.batch = [(a, bl(10, rng.choice(sizes)))]
            elif k == 'existing_bundle':
                self.pre_ops = [(o, bl(11 + i, rng.choice(sizes[:4]))) for i, o in enumerate(others)]
                self.batch = [(a, bl(10, rng.choice(sizes)))]
            elif k in ('overwrite', 'overwrite_big'):
                self.pre_ops = [(o, bl(11 + i, 900)) for i, o in enumerate(others)] + [(a, bl(20, rng.choice(sizes[:3])))]
                self.batch = [(a, bl(21, 300000 if k == 'overwrite_big' else rng.choice(sizes)))]
            elif k == 'batch_in_bundle':
                self.pre_ops = [(others[0], bl(11, 2000)), (a, bl(20, 700))]
                self.batch = [(a, bl(30, rng.choice(sizes))), (others[1], bl(31, rng.choice(sizes))),
                              (others[2], bl(32, 300))]
                self.bulk = True
            elif k == 'batch_straddle':
                # first slot: entry whose first byte is the last byte of a page (torn after one byte)
                one = [s_ for s_ in STRADDLE if (16 + (s_[0] * 128 + s_[1]) * 5) % 4096 == 4095]
                sl = [rng.choice(one), rng.choice(STRADDLE)]
                if sl[0] == sl[1]:
                    sl[1] = STRADDLE[0] if STRADDLE[0] != sl[0] else STRADDLE[1]
                t1 = (bx + sl[0][0], by + sl[0][1], z)
                t2 = (bx + sl[1][0], by + sl[1][1], z)
                self.pre_ops = [(t1, bl(40, 1200)), (others[0], bl(11, 2000))]
                self.batch = [(t1, bl(41, rng.choice(sizes))), (t2, bl(42, rng.choice(sizes[:4])))]
                self.bulk = True
            elif k == 'batch_across':
                a2 = (a[0] + 128, a[1], z)
                a3 = (a[0], a[1] + 128, z)
                self.pre_ops = [(a2, bl(50, 800)), (others[0], bl(11, 2000))]
                self.batch = [(a, bl(51, rng.choice(sizes[:4]))), (a2, bl(52, rng.choice(sizes[:4]))), (a3, bl(53, 500))]
                self.bulk = True
            elif k == 'remove':
                self.pre_ops = [(o, bl(11 + i, 900)) for i, o in enumerate(others)] + [(a, bl(20, rng.choice(sizes[:3])))]
                self.batch = [(a, None)]
        self.universe = sorted(set([a_ for a_, _ in self.pre_ops] + [a_ for a_, _ in self.batch]))

    # ---- backend objects -----------------------------------------------------------------------------------
    def cache(self):
        b = self.backend
        root = os.path.join(self.d, 'cache')
        if b == 'file':
            from mapproxy.cache.file import FileCache
            return FileCache(root, 'png')
        if b in ('file_symlink', 'file_hardlink'):
            from mapproxy.cache.file import FileCache
            return FileCache(root, 'png', link_single_color_images=('symlink' if b == 'file_symlink' else 'hardlink'))
        if b == 'compact1':
            from mapproxy.cache.compact import CompactCacheV1
            return CompactCacheV1(root)
        from mapproxy.cache.compact import CompactCacheV2
        return CompactCacheV2(root)

    def setup(self):
        c = self.cache()
        for a, data in self.pre_ops:
            c.store_tile(mk_tile(a, data))

    def op(self):
        c = self.cache()
        if self.batch[0][1] is None:
            c.remove_tile(mk_tile(self.batch[0][0], None))
        elif self.bulk:
            c.store_tiles([mk_tile(a, d) for a, d in self.batch])
        else:
            for a, d in self.batch:
                c.store_tile(mk_tile(a, d))

    def other_store(self):
        """store one more tile next to the batch (same level, same bundle for compact) with a fresh cache object"""
        a0 = self.batch[0][0]
        cand = (a0[0] ^ 1, a0[1], a0[2]) if a0[2] > 0 else (0, 0, 1)
        n = 0
        while cand in self.universe:
            n += 1
            cand = (a0[0] ^ 1, a0[1] + n, a0[2]) if a0[2] > 0 else (n % 2, n // 2 % 2, 1)
        data = png(seed=991, size=(48, 48)) if self.backend in ('file_symlink', 'file_hardlink') else blob(991, 5000)
        self.cache().store_tile(mk_tile(cand, data))
        return cand, data

    def read_one(self, a):
        c = self.cache()
        t = mk_tile(a, None)
        try:
            c.load_tile(t)
            if t.source is None:
                return None
            buf = t.source.as_buffer()
            buf.seek(0)
            return buf.read()
        except Exception as ex:
            return ('exc', repr(ex))

    def read_all(self):
        """fresh object; returns {addr: bytes | None | ('exc', repr)}"""
        c = self.cache()
        out = {}
        for a in self.universe:
            t = mk_tile(a, None)
            try:
                ok = c.load_tile(t)
                if t.source is None:
                    out[a] = None
                else:
                    buf = t.source.as_buffer()
                    buf.seek(0)
                    out[a] = buf.read()
                    t.source.close_buffers()
                cached = bool(c.is_cached(mk_tile(a, None)))
                if cached != (out[a] is not None):
                    out[a] = ('exc', 'is_cached=%r but load returned %s' % (cached, 'data' if out[a] is not None else 'nothing'))
            except Exception as ex:
                out[a] = ('exc', repr(ex))
        return out


class OtherScenario(object):
    """legend cache and seed progress store: one object, old or new, never torn"""

    def __init__(self, case, d):
        self.case = case
        self.d = d
        self.kind = case['kind']
        self.backend = case['backend']
        import random
        self.rng = random.Random('%s:%s' % (self.kind, case['seed']))
        self.linkish = set()
        self.universe = ['obj']
        big = self.rng.choice([False, True])
        if self.backend == 'legend':
            self.old = png(seed=7, size=(256, 256) if big else (32, 32)) if 'overwrite' in self.kind else None
            self.new = png(seed=8, size=(300, 300) if self.rng.random() < 0.5 else (16, 16))
        else:
            self.old = {'task-a': [(0, 3), (1, 2)], 'pad': 'x' * (20000 if big else 10)} if 'overwrite' in self.kind else None
            self.new = {'task-a': [(0, 3), (1, 2), (2, 9)], 'task-b': [(0, 1)], 'pad': 'y' * self.rng.choice([5, 9000, 70000])}
        self.batch = [('obj', self.new)]

    def _legend(self, data):
        from mapproxy.cache.legend import Legend
        from mapproxy.image import ImageSource
        return Legend(source=ImageSource(io.BytesIO(data)) if data is not None else None, id='http://x/?l', scale=None)

    def _store(self, value):
        if self.backend == 'legend':
            from mapproxy.cache.legend import LegendCache
            LegendCache(cache_dir=os.path.join(self.d, 'legends')).store(self._legend(value))
        else:
            from mapproxy.seed.util import ProgressStore
            os.makedirs(self.d, exist_ok=True)
            ps = ProgressStore(os.path.join(self.d, 'progress'), continue_seed=False)
            ps.status = dict(value)
            ps.write()

    def setup(self):
        if self.old is not None:
            self._store(self.old)

    def op(self):
        self._store(self.new)

    def read_all(self):
        try:
            if self.backend == 'legend':
                from mapproxy.cache.legend import LegendCache
                lg = self._legend(None)
                if not LegendCache(cache_dir=os.path.join(self.d, 'legends')).load(lg):
                    return {'obj': None}
                buf = lg.source.as_buffer()
                buf.seek(0)
                return {'obj': buf.read()}
            from mapproxy.seed.util import ProgressStore
            fn = os.path.join(self.d, 'progress')
            if not os.path.exists(fn):
                return {'obj': None}
            with open(fn, 'rb') as f:
                raw = f.read()
            st = ProgressStore(fn, continue_seed=True).status
            try:
                direct = pickle.loads(raw)
            except Exception as ex:
                return {'obj': ('exc', 'progress file does not unpickle: %r' % ex)}
            if st != direct:
                return {'obj': ('exc', 'ProgressStore ignored the file')}
            return {'obj': st}
        except Exception as ex:
            return {'obj': ('exc', repr(ex))}


def build(case, d):
    if case['backend'] in ('legend', 'progress'):
        return OtherScenario(case, d)
    return Scenario(case, d)


def gen_cases(run):
    reps = run.pick(10, 150)
    for seed in range(run.seed * 1000, run.seed * 1000 + reps):
        for b in ('file', 'file_symlink', 'file_hardlink'):
            for k in FILE_KINDS:
                if b == 'file' and k.startswith('link') or (b == 'file' and k == 'regular_replaces_link'):
                    continue
                for pc in (False, True) if seed % 2 == 0 else (False,):
                    yield {'backend': b, 'kind': k, 'seed': seed, 'precrash': pc}
        for b in ('compact1', 'compact2'):
            for k in COMPACT_KINDS:
                for pc in (False, True) if seed % 2 == 0 else (False,):
                    yield {'backend': b, 'kind': k, 'seed': seed, 'precrash': pc}
        for k in OTHER_KINDS:
            yield {'backend': 'legend' if k.startswith('legend') else 'progress', 'kind': k, 'seed': seed, 'precrash': False}
    # cross-validation of the failpoint layer by an independent observer (strace + real SIGKILL)
    combos = [('file', 'plain_overwrite'), ('file_symlink', 'link_change_colour'), ('file_hardlink', 'link_replace_regular'),
              ('compact1', 'batch_in_bundle'), ('compact2', 'overwrite'), ('compact2', 'batch_across'), ('compact1', 'remove'),
              ('file', 'first_store_deep')]
    for j in range(run.pick(8, 96)):
        b, k = combos[j % len(combos)]
        yield {'backend': b, 'kind': k, 'seed': run.seed * 1000 + 500 + j, 'precrash': False, 'strace': True}


def tree_digest(d):
    """{normalised relative path: (kind, sha1 of content or link target)}; random temp names are normalised"""
    import hashlib
    import re
    out = {}
    for root, dirs, files in os.walk(d):
        for n in files + [x for x in dirs if os.path.islink(os.path.join(root, x))]:
            p = os.path.join(root, n)
            rel = re.sub(r'\.tmp-\d+', '.tmp-N', os.path.relpath(p, d))
            if os.path.islink(p):
                out[rel] = ('link', os.readlink(p))
            elif p.endswith('.lck'):
                out[rel] = ('lockfile', 'content is the pid of the writer')
            else:
                with open(p, 'rb') as f:
                    out[rel] = ('file', hashlib.sha1(f.read()).hexdigest())
    return out


def run_strace_case(run, case):
    """independent observer: the same store is killed by a real SIGKILL injected by strace at the system call that
    corresponds to failpoint k; the directory tree must equal the tree the fork/failpoint crash leaves"""
    import re
    base = run.subdir('c06s')
    d = os.path.join(base, 'w')
    snap = os.path.join(base, 'snap')
    try:
        sc = build(case, d)
        os.makedirs(d, exist_ok=True)
        sc.setup()
        snapshot(d, snap)
        r0 = crash.run_child(sc.op)
        if r0.get('outcome') != 'ok':
            run.dc('strace_case_store_failed')
            return
        log = r0['log']
        env = dict(os.environ)
        env['PYTHONPATH'] = core.VERIF
        cj = json.dumps({k: v for k, v in case.items() if k != 'strace'})
        cmd = [sys.executable, '-m', 'checks.c06_child', cj, d]
        sysmap = {'write': 'write', 'rename': 'rename', 'unlink': 'unlink', 'remove': 'unlink', 'link': 'link',
                  'symlink': 'symlink'}
        cands = [k for k, l in enumerate(log) if l[0] in sysmap]
        # one of each kind, preferring late operations
        picks = {}
        for k in cands:
            picks[log[k][0]] = k
        for kind, k in sorted(picks.items()):
            sysname = sysmap[kind]
            # which occurrence of this operation on this path is it?
            pathn = os.path.basename(str(log[k][1]))
            pathn = re.sub(r'\.tmp-\d+', '.tmp-', pathn)
            occ = len([1 for l in log[:k] if l[0] == kind and re.sub(r'\.tmp-\d+', '.tmp-', os.path.basename(str(l[1]))) == pathn])
            # pass 1: list the child's system calls of that kind with paths
            restore(snap, d)
            tl = os.path.join(base, 'trace.log')
            subprocess.run(['strace', '-f', '-qq', '-y', '-o', tl, '-e', 'trace=' + sysname] + cmd, env=env, cwd=core.VERIF,
                           timeout=120, stdout=subprocess.DEVNULL, stderr=subprocess.DEVNULL)
            ordinal = None
            seen = 0
            n = 0
            with open(tl, errors='replace') as f:
                for line in f:
                    m = re.match(r'^\d+\s+%s\((.*)' % sysname, line)
                    if not m:
                        continue
                    n += 1
                    arg = re.sub(r'\.tmp-\d+', '.tmp-', m.group(1))
                    first = arg.split(',')[0]
                    mm = re.search(r'<([^>]*)>', first) or re.search(r'"([^"]*)"', first)
                    if mm and os.path.basename(mm.group(1)) == pathn:
                        if seen == occ:
                            ordinal = n
                            break
                        seen += 1
            if ordinal is None:
                run.dc('strace_could_not_locate_syscall')
                continue
            # reference: fork/failpoint crash before op k
            restore(snap, d)
            crash.run_child(sc.op, crash_at=k)
            t1 = tree_digest(d)
            # real kill at the same system call
            restore(snap, d)
            p = subprocess.run(['strace', '-f', '-qq', '-o', '/dev/null', '-e', 'trace=' + sysname,
                                '-e', 'inject=%s:signal=SIGKILL:when=%d' % (sysname, ordinal)] + cmd, env=env, cwd=core.VERIF,
                               timeout=120, stdout=subprocess.DEVNULL, stderr=subprocess.DEVNULL)
            t2 = tree_digest(d)
            run.hit('strace_kills_compared')
            run.judge(('strace', case['backend'], case['kind'], kind), nontrivial=True)
            if t1 != t2:
                diff = sorted(set(t1.items()) ^ set(t2.items()))[:6]
                run.violation({'backend': case['backend'], 'kind': case['kind'], 'obs': 'failpoint_tree_differs_from_sigkill_tree',
                               'crash_op': kind}, dict(case, strace=True),
                              'crash before %s #%d (%s): fork/failpoint tree and strace SIGKILL tree differ: %r' % (kind, k, pathn, diff))
            else:
                # and the reader's verdict on the real-kill tree (same oracle)
                after = sc.read_all()
                pre_model = None
                run.count('strace_trees_equal')
    finally:
        shutil.rmtree(base, ignore_errors=True)


def snapshot(src, dst):
    if os.path.exists(dst):
        shutil.rmtree(dst)
    if os.path.exists(src):
        subprocess.run(['cp', '-a', src, dst], check=True, timeout=60)
    else:
        os.makedirs(dst)


def restore(snap, d):
    if os.path.exists(d):
        shutil.rmtree(d)
    subprocess.run(['cp', '-a', snap, d], check=True, timeout=60)


def allowed(sc, a, got, pre, new):
    """returns None if fine, else the observation class"""
    if isinstance(got, tuple):
        return 'reader_exception'
    if got == pre.get(a):
        return None
    if a in new and got == new[a]:
        return None
    if got is None:
        if pre.get(a) is None:
            return None
        if a in sc.linkish and a in new:
            return None
        return 'tile_lost' if a not in new else 'written_tile_missing'
    others = [k for k, v in list(pre.items()) + list(new.items()) if v == got and k != a]
    if others:
        return 'foreign_bytes'
    p, n = pre.get(a), new.get(a)
    if (n is not None and n.startswith(got)) or (p is not None and p.startswith(got)):
        return 'truncated'
    return 'corrupt_bytes'


def run_case(run, case):
    if case.get('strace'):
        return run_strace_case(run, case)
    base = run.subdir('c06')
    d = os.path.join(base, 'w')
    snap = os.path.join(base, 'snap')
    try:
        _run_case(run, case, d, snap)
    finally:
        shutil.rmtree(base, ignore_errors=True)


def _run_case(run, case, d, snap):
    sc = build(case, d)
    os.makedirs(d, exist_ok=True)
    sc.setup()
    pre = sc.read_all()
    new = dict((a, v) for a, v in sc.batch)
    rm = set(a for a, v in sc.batch if v is None)
    if any(isinstance(v, tuple) for v in pre.values()):
        raise RuntimeError('pre-state unreadable: %r' % pre)
    if case.get('precrash'):
        # the pre-state itself is what an earlier crash of the same store left behind
        snapshot(d, snap)
        r0 = crash.run_child(sc.op)
        n0 = r0.get('n', 0)
        if n0 > 1:
            k0 = sc.rng.randrange(1, n0)
            restore(snap, d)
            tear0 = sc.rng.choice([None, 0])
            if tear0 is not None and not (r0['log'][k0][0] == 'write' and r0['log'][k0][4] > 0):
                tear0 = None
            crash.run_child(sc.op, crash_at=k0, tear=tear0)
            after = sc.read_all()
            for a in sc.universe:
                run.hit('addresses_judged')
                obs = allowed(sc, a, after[a], pre, {k: v for k, v in new.items() if v is not None})
                if a in rm and after[a] is None:
                    obs = None
                run.judge((case['backend'], case['kind'], 'precrash'), nontrivial=True)
                if obs:
                    report(run, case, sc, r0['log'][k0][0], k0, tear0, a, obs, after[a], pre, new, r0.get('log'))
                    return
            pre = after
    snapshot(d, snap)
    # unfaulted run in a child: operation log
    r0 = crash.run_child(sc.op)
    if r0.get('outcome') != 'ok' or r0['status'] != 0:
        run.violation({'backend': case['backend'], 'kind': case['kind'], 'obs': 'store_failed_without_fault',
                       'precrash': bool(case.get('precrash'))}, case,
                      'unfaulted store in child failed: %r' % (r0.get('outcome'),))
        return
    log = r0['log']
    N = r0['n']
    full = sc.read_all()
    for a in sc.universe:
        want = new[a] if a in new else pre.get(a)
        run.judge((case['backend'], case['kind'], 'complete'), nontrivial=False)
        if full[a] != want:
            run.violation({'backend': case['backend'], 'kind': case['kind'], 'obs': 'complete_store_wrong'}, case,
                          'after the complete store address %r reads %s, expected %s' % (a, _h(full[a]), _h(want)))
            return
    run.hit('scenarios')
    if case['seed'] % 1000 == 0 and not case.get('precrash'):
        run.sample({'scenario': case, 'raw_operations': [l[:1] + [os.path.basename(str(l[1]))] + l[2:] for l in log][:40], 'N': N})
    points = [(k, None) for k in range(N)]
    for k, l in enumerate(log):
        if l[0] == 'write' and l[4] > 0:
            points.append((k, 0))
            if l[4] > 1:
                points.append((k, -1))
    if run.tier == 'quick' and len(points) > 60:
        keep = [p for p in points if p[1] is not None or log[p[0]][0] != 'write']
        rest = [p for p in points if p not in keep]
        sc.rng.shuffle(rest)
        points = keep + rest[:max(10, 60 - len(keep))]
    newvals = {k: v for k, v in new.items() if v is not None}
    for k, tear in points:
        restore(snap, d)
        r = crash.run_child(sc.op, crash_at=k, tear=tear)
        if r['status'] != 137:
            run.count('child_did_not_die_at_failpoint')
            continue
        opkind = log[k][0]
        run.hit('crash_points')
        if tear is not None:
            run.hit('torn_writes')
        after = sc.read_all()
        bad = False
        for a in sc.universe:
            run.hit('addresses_judged')
            run.judge((case['backend'], case['kind'], opkind, tear is not None), nontrivial=0 < k < N)
            obs = allowed(sc, a, after[a], pre, newvals)
            if a in rm and after[a] is None:
                obs = None
            if obs:
                report(run, case, sc, opkind, k, tear, a, obs, after[a], pre, new, log)
                bad = True
                break
        if bad:
            continue
        # life goes on: an ordinary store of ANOTHER tile (same bundle / directory) after the restart must not disturb
        # what the crash left visible
        if hasattr(sc, 'other_store'):
            try:
                extra_addr, extra_data = sc.other_store()
                rec0 = sc.read_all()
                run.hit('post_crash_other_stores')
                for a in sc.universe:
                    if rec0[a] != after[a]:
                        report(run, case, sc, opkind, k, tear, a, 'disturbed_by_later_store', rec0[a], pre, new, log)
                        bad = True
                        break
                got_extra = sc.read_one(extra_addr)
                if not bad and got_extra != extra_data:
                    report(run, case, sc, opkind, k, tear, None, 'later_store_lost', got_extra, pre, new, log)
                    bad = True
            except Exception as ex:
                report(run, case, sc, opkind, k, tear, None, 'not_recoverable', ('exc', repr(ex)), pre, new, log)
                bad = True
            if bad:
                continue
        # recoverability: an ordinary store after the crash succeeds and is readable, others unchanged
        try:
            sc.op()
            rec = sc.read_all()
            run.hit('recovery_stores')
            for a in sc.universe:
                want = new[a] if a in new else after[a]
                if a in new and new[a] is None:
                    want = None
                if rec[a] != want:
                    report(run, case, sc, opkind, k, tear, a, 'not_recoverable', rec[a], pre, new, log)
                    break
        except Exception as ex:
            report(run, case, sc, opkind, k, tear, None, 'not_recoverable', ('exc', repr(ex)), pre, new, log)


def _h(b):
    if b is None or isinstance(b, tuple):
        return repr(b)
    if isinstance(b, dict):
        return 'dict(%d keys)' % len(b)
    import hashlib
    return 'len%d:%s' % (len(b), hashlib.md5(b).hexdigest()[:8])


def report(run, case, sc, opkind, k, tear, a, obs, got, pre, new, log):
    torn_file = None
    if tear is not None and log and k < len(log):
        torn_file = os.path.splitext(str(log[k][1]))[1].lstrip('.')
    mech = {'backend': case['backend'], 'kind': case['kind'], 'crash_op': opkind, 'torn': tear is not None, 'obs': obs,
            'torn_file': torn_file,
            'precrash': bool(case.get('precrash')), 'in_batch': a in new if a is not None else None}
    lo = max(0, k - 3)
    ops = [l[:1] + [os.path.basename(str(l[1]))] + l[2:] for l in (log or [])][lo:k + 2]
    run.violation(mech, case, 'crash before op #%d (%s, tear=%r): address %r reads %s; previous %s, new %s; ops around: %r' % (
        k, opkind, tear, a, _h(got), _h(pre.get(a)) if a is not None else None, _h(new.get(a)) if a is not None else None, ops))


def evidence_extra(total):
    return {'exhaustive': False,
            'note': 'every raw operation index of every generated scenario is a crash point in the thorough tier; the '
                    'quick tier keeps all non-write operations and all torn writes and samples the remaining writes'}


if __name__ == '__main__':
    core.main(sys.modules[__name__])
