"""C10 - authorization is enforced: denied layers stay dark, limited areas are clipped.

Every case builds a generated layer tree (groups, nested groups, group with own sources; cascaded and cached leaves,
png and jpeg caches, three grid SRS) on top of a LAYERS upstream (every upstream layer = opaque cells of one colour
family on a ground-anchored chequer pattern, alpha is 0 or 255 only, so the layer that shows at a pixel can be read
off the pixel).  A generated `mapproxy.authorize` callback (full / none / unauthenticated / partial with per-layer
flags, per-layer and global limited_to as bbox list / WKT / shapely geometry in the request SRS or another one) is put
into the WSGI environ; every probe is executed twice: with that callback and with an all-allowing one (reference).

The oracle never looks at mapproxy's coverage / mask code: geometry is transformed with pyproj (vertex-wise and densified),
rasterised with shapely on pixel centres after geometric buffering in pixel space, layers are recognised by colour
family, upstream calls by their LAYERS / QUERY_LAYERS parameter."""
import json
import math
import shutil
import sys
import urllib.parse
from wsgiref.util import setup_testing_defaults

import numpy as np

from vlib import core, upstream, scenario

PID = 'C10'
LEVEL = 'exploration'
BUDGET_S = {'quick': 42, 'thorough': 660}
FLOORS = {
    'quick': {'scenarios': 570, 'requests': 2700, 'denied_checks': 1200, 'no_upstream_for_denied_checks': 1200,
              'denied_layer_pixel_checks': 90, 'rejected_as_expected': 750, 'must_be_clear_pixels': 21000000,
              'must_keep_pixels': 7500000, 'limited_map_checks': 480, 'limited_tile_checks': 360, 'featureinfo_inside': 150,
              'featureinfo_outside': 270, 'featureinfo_denied': 300, 'svc_wms_map': 990, 'svc_wms_fi': 420,
              'family_tms': 390, 'family_wmts': 250, 'family_kml': 270, 'svc_wmts_fi_kvp': 130, 'svc_wmts_fi_rest': 120,
              'concurrent_rounds': 40, 'concurrent_answers_compared': 3000},
    'thorough': {'scenarios': 2600, 'requests': 21000, 'denied_checks': 9500, 'no_upstream_for_denied_checks': 9500,
                 'denied_layer_pixel_checks': 780, 'rejected_as_expected': 6000, 'must_be_clear_pixels': 160000000,
                 'must_keep_pixels': 54000000, 'limited_map_checks': 3500, 'limited_tile_checks': 2800,
                 'featureinfo_inside': 1200, 'featureinfo_outside': 2200, 'featureinfo_denied': 2500, 'svc_wms_map': 7500,
                 'svc_wms_fi': 3300, 'family_tms': 3000, 'family_wmts': 2000, 'family_kml': 2000, 'svc_wmts_fi_kvp': 1000,
                 'svc_wmts_fi_rest': 1000}}
RULE = ("case = one generated scenario (layer tree shape flat / group / nested / group with own sources / nested group with own "
        "sources; per leaf: cascaded WMS with supported_srs, png cache or jpeg cache on a 3857 / 4326 / 25832 grid with origin "
        "ll or ul, stored or not; nearest or bilinear resampling) with 5 (quick) / 8 (thorough) probes. probe = one request "
        "(WMS GetMap 1-4 layer or group names, png transparent / png bgcolor / jpeg, 1.1.1 / 1.3.0, three SRS; WMS "
        "GetFeatureInfo; TMS, /tiles, /tiles?origin=nw, WMTS KVP, WMTS REST, KML tile, KML document; WMTS GetFeatureInfo KVP / "
        "REST) executed with a generated authorize callback result (full / none / unauthenticated / partial with per-layer map, "
        "featureinfo, tile flags true / false / missing, per-layer and request-wide limited_to as bbox list / WKT lines / "
        "shapely geometry of 14 shape classes in the request SRS or another one) and again with an all-allowing callback. "
        "evaluations = probes judged (status + upstream attribution + pixel / info-text obligations) plus feature-info gate "
        "judgements; distinct = (service, callback class, geometry class incl. form and SRS relation, output format, tree "
        "shape, number of requested names | cache kind, grid, origin); non-trivial = callback answered 'partial'. "
        "must_be_clear_pixels / must_keep_pixels count pixels on which the clear / keep obligation was actually evaluated.")
ASSUMPTIONS = [
    "U / I are the union / intersection of the geometry transformed vertex by vertex (pyproj) and transformed after "
    "densifying every edge to 1/200 of its extent; rasterised with shapely on pixel centres after geometric buffering in "
    "pixel units. A pixel 'lies more than one pixel outside' when its CENTRE is more than 1.75 px from U (1 px of the property "
    "+ 0.71 px, the half diagonal of the pixel; PIL draws polygon outlines through integer pixel indices, which alone puts "
    "centres up to ~1.1 px from the true edge); it is 'well inside' when its centre is more than 2 px inside I; feature-info "
    "clicks are judged inside / outside at 1 px. Everything between is don't-care.",
    "clear obligation: alpha 0 (responses with alpha) or exactly the BGCOLOR (png without alpha) or within 56 levels of the "
    "BGCOLOR / white (jpeg; 2 more don't-care pixels and 3x3 solid blocks only). keep obligation: equal to the response of "
    "the same request under an all-allowing callback within 2 levels (lossless paths) or 72 levels (jpeg output where only "
    "solid 5x5 blocks count, jpeg caches, bilinear resampling), evaluated where the unrestricted response shows a layer "
    "(recognised by colour family) that is permitted and unlimited or limited with the pixel well inside.",
    "an explicitly requested denied WMS layer must give 403 (401 for 'unauthenticated'); a denied layer reached through a group "
    "must vanish (no upstream call, no pixel of its colour family, no info text); 'none' for a request naming only groups may "
    "give 403 or a blank 200. For GetFeatureInfo with QUERY_LAYERS != LAYERS either rejection or silent removal is accepted.",
    "for tile services a layer-level and a request-wide limited_to both bind (property text: 'a layer or a whole request'); "
    "the violation mechanism carries role=global_with_layer_limit when only the request-wide one is broken.",
    "feature info of a permitted layer whose click lies well inside every geometry is expected in the response (mirror of "
    "the keep clause); its absence is reported under its own clause featureinfo_inside_not_returned.",
    "HTTP 400 / 5xx answers are never a leak: counted as don't-care error_response_<code> (seen: invalid MultiPolygon from "
    "overlapping WKT lines raises a GEOS TopologyException -> 500).",
    "tile address -> rectangle is computed from the configured grid (square bbox, factor-2 levels): TMS / KML rows from the "
    "bottom, WMTS and origin=nw from the top, /tiles without origin parameter in the grid's own origin; whether those "
    "conventions are honoured for images is C02's subject, here the same rectangle serves both runs.",
    "upstream sources are pinned to png requests; all sources carry supported_srs (mixing sources with and without "
    "supported_srs in one GetMap raises AttributeError in SupportedSRS.__eq__ -> 500, not this property).",
]

# ---------------------------------------------------------------------------------------------------------------------
# LAYERS upstream
# ---------------------------------------------------------------------------------------------------------------------
# colour family of upstream layer u<k>: which channels are high (190..250), the others are low (0..50).
FAMILIES = [(1, 0, 0), (0, 1, 0), (0, 0, 1), (1, 1, 0), (1, 0, 1), (0, 1, 1)]
HI_MIN, LO_MAX = 165, 75        # classification thresholds (pattern itself: high >= 190, low <= 50)
SRS_ID = {'EPSG:4326': 1, 'EPSG:3857': 2, 'EPSG:900913': 2, 'EPSG:25832': 3}


def _hash(k, i, j, o, s):
    M = np.uint64(0xFFFFFFFFFFFFFFFF)
    h = (i.astype(np.int64).astype(np.uint64) * np.uint64(73856093)) ^ (j.astype(np.int64).astype(np.uint64) * np.uint64(19349663))
    h = h ^ np.uint64(((k + 1) * 83492791 + (o + 64) * 2654435761 + s * 40503) & 0xFFFFFFFFFFFF)
    h = h & M
    h ^= (h >> np.uint64(13))
    h = (h * np.uint64(0x5bd1e995)) & M
    h ^= (h >> np.uint64(15))
    h = (h * np.uint64(0x2545F491)) & M
    h ^= (h >> np.uint64(17))
    return h


def layer_pattern(k, srs, bbox, size, semi=False):
    """RGBA uint8 (h, w, 4) of upstream layer k for the request rectangle; ground anchored cells of 8 * 2^round(log2(res))
    SRS units; 5 of 8 cells opaque, the others empty; with `semi` 1 of 8 cells is half transparent (alpha 128).  At most one
    layer of a scenario is `semi` (name suffix 's'), so a stack never blends more than two colours and a blend of two
    families always has a mid-range channel (never classified)"""
    w, h = size
    rx = (bbox[2] - bbox[0]) / w
    ry = (bbox[3] - bbox[1]) / h
    o = int(round(math.log2(max(min(rx, ry), 1e-12))))
    cell = 8.0 * 2.0 ** o
    xc = bbox[0] + (np.arange(w, dtype=np.float64) + 0.5) * rx
    yc = bbox[3] - (np.arange(h, dtype=np.float64) + 0.5) * ry
    i = np.floor(xc / cell).astype(np.int64)
    j = np.floor(yc / cell).astype(np.int64)
    I = np.broadcast_to(i[None, :], (h, w))
    J = np.broadcast_to(j[:, None], (h, w))
    hh = _hash(k, I, J, o, SRS_ID.get(srs.upper(), 9))
    out = np.zeros((h, w, 4), dtype=np.uint8)
    hi = (190 + ((hh >> np.uint64(8)) % np.uint64(61))).astype(np.uint8)
    hi2 = (190 + ((hh >> np.uint64(20)) % np.uint64(61))).astype(np.uint8)
    lo = ((hh >> np.uint64(32)) % np.uint64(51)).astype(np.uint8)
    lo2 = ((hh >> np.uint64(44)) % np.uint64(51)).astype(np.uint8)
    fam = FAMILIES[k % len(FAMILIES)]
    his = [hi, hi2, hi]
    los = [lo, lo2, lo2]
    for c in range(3):
        out[..., c] = his[c] if fam[c] else los[c]
    sel = hh & np.uint64(7)
    alpha = np.where(sel < np.uint64(5), 255, np.where(sel == np.uint64(5), 128 if semi else 0, 0)).astype(np.uint8)
    out[..., 3] = alpha
    out[alpha == 0, :3] = 255
    return out


def _bgcolor(s):
    s = (s or '0xffffff').lower().replace('#', '').replace('0x', '')
    try:
        return tuple(int(s[n:n + 2], 16) for n in (0, 2, 4))
    except Exception:
        return (255, 255, 255)


class LayersWMS(object):
    """WMS upstream: LAYERS=u<k>[,u<m>...] composed bottom to top; GetFeatureInfo answers with a text naming layer
    and queried ground position"""

    def __call__(self, call):
        if call.kind not in ('getmap', 'featureinfo'):
            return upstream.Resp(b'<ServiceExceptionReport><ServiceException>unsupported</ServiceException></ServiceExceptionReport>',
                                 'application/vnd.ogc.se_xml', 200)
        try:
            q = upstream.parse_getmap(call)
            names = [n for n in q['layers'] if n]
            ks = [(int(n[1:].rstrip('s')), n.endswith('s')) for n in names]
        except Exception as ex:
            call.extra['bad'] = repr(ex)
            return upstream.Resp(('<ServiceExceptionReport><ServiceException>bad request %s</ServiceException></ServiceExceptionReport>' % ex).encode(),
                                 'application/vnd.ogc.se_xml', 200)
        call.extra['q'] = q
        call.extra['layers'] = names
        if call.kind == 'featureinfo':
            p = call.params
            qn = [n for n in p.get('query_layers', '').split(',') if n]
            px = float(p.get('x', p.get('i', 'nan')))
            py = float(p.get('y', p.get('j', 'nan')))
            w, h = q['size']
            gx = q['bbox'][0] + (px + 0.5) * (q['bbox'][2] - q['bbox'][0]) / w
            gy = q['bbox'][3] - (py + 0.5) * (q['bbox'][3] - q['bbox'][1]) / h
            call.extra['query_layers'] = qn
            call.extra['ground'] = (q['srs'], gx, gy)
            call.extra['layers'] = sorted(set(names) | set(qn))
            body = ''.join('FI layer=%s srs=%s gx=%.6f gy=%.6f;\n' % (n, q['srs'], gx, gy) for n in qn)
            return upstream.Resp(body.encode(), 'text/plain')
        w, h = q['size']
        if w <= 0 or h <= 0 or w * h > 4096 * 4096:
            return upstream.Resp(b'<ServiceExceptionReport><ServiceException>size</ServiceException></ServiceExceptionReport>',
                                 'application/vnd.ogc.se_xml', 200)
        acc = None
        for k, semi in ks:
            img = layer_pattern(k, q['srs'] or '', q['bbox'], q['size'], semi)
            if acc is None:
                acc = img
            else:       # 'over'
                a = img[..., 3:4].astype(np.float64) / 255.0
                b = acc[..., 3:4].astype(np.float64) / 255.0
                oa = a + b * (1 - a)
                rgb = (img[..., :3] * a + acc[..., :3] * b * (1 - a)) / np.maximum(oa, 1e-9)
                acc = np.concatenate([np.where(oa > 0, rgb, 255.0), oa * 255.0], axis=2).round().astype(np.uint8)
        fmt = (q['format'] or 'image/png').split(';')[0]
        if not q['transparent'] or 'jpeg' in fmt:
            bg = np.array(_bgcolor(q['bgcolor']), dtype=np.float64)
            a = acc[..., 3:4].astype(np.float64) / 255.0
            rgb = (acc[..., :3] * a + bg * (1 - a)).round().astype(np.uint8)
            return upstream.Resp(upstream.encode(rgb, fmt), fmt)
        return upstream.Resp(upstream.encode(acc, 'image/png'), 'image/png')


# ---------------------------------------------------------------------------------------------------------------------
# scenario: layer tree, sources, caches, grids
# ---------------------------------------------------------------------------------------------------------------------
TILE = 128
GRIDS = {
    'g3857': {'srs': 'EPSG:3857', 'bbox': [400000.0, 5800000.0, 400000.0 + 1572864.0, 5800000.0 + 1572864.0], 'r0': 12288.0},
    'g4326': {'srs': 'EPSG:4326', 'bbox': [4.0, 44.0, 16.0, 56.0], 'r0': 0.09375},
    'g25832': {'srs': 'EPSG:25832', 'bbox': [150000.0, 5000000.0, 150000.0 + 1048576.0, 5000000.0 + 1048576.0], 'r0': 8192.0},
}
# the same ladders on extents that are NOT a whole number of tiles on any level: the last column and the top (ll) or bottom
# (ul) row of every level overhang the grid bbox
for _g, (_fx, _fy) in (('g3857', (0.81, 0.63)), ('g4326', (0.57, 0.91)), ('g25832', (0.73, 0.77))):
    _G = GRIDS[_g]
    _w, _h = _G['bbox'][2] - _G['bbox'][0], _G['bbox'][3] - _G['bbox'][1]
    GRIDS[_g + 'n'] = {'srs': _G['srs'], 'r0': _G['r0'], 'cut': (_fx, _fy), 'base': list(_G['bbox']), 'bbox': None}
NLEVELS = 8


def grid_bbox(gname, origin):
    """bbox of a grid as configured; cut grids keep the corner their origin is anchored at"""
    G = GRIDS[gname]
    if 'cut' not in G:
        return list(G['bbox'])
    b = G['base']
    w, h = (b[2] - b[0]) * G['cut'][0], (b[3] - b[1]) * G['cut'][1]
    if origin == 'ul':
        return [b[0], b[3] - h, b[0] + w, b[3]]
    return [b[0], b[1], b[0] + w, b[1] + h]


def grid_tiles(gname, origin, z):
    """matrix size by MapProxy's rule: whole pixels of the bbox, then whole tiles"""
    G = GRIDS[gname]
    b = grid_bbox(gname, origin)
    r = G['r0'] / 2 ** z
    wpx, hpx = math.floor((b[2] - b[0]) / r), math.floor((b[3] - b[1]) / r)
    return max(1, int(math.ceil(wpx / float(TILE)))), max(1, int(math.ceil(hpx / float(TILE))))
WMS_SRS = ['EPSG:4326', 'EPSG:3857', 'EPSG:25832']

SHAPES = {
    # name -> (tree, names with own sources).  tree node = [name, has_sources, [children]]
    'flat': [['a', True, []], ['b', True, []], ['c', True, []], ['d', True, []]],
    'group': [['G', False, [['a', True, []], ['b', True, []]]], ['c', True, []], ['d', True, []]],
    'nested': [['G', False, [['H', False, [['a', True, []], ['b', True, []]]], ['c', True, []]]], ['d', True, []]],
    'group_this': [['G', True, [['a', True, []], ['b', True, []]]], ['c', True, []], ['d', True, []]],
    'nested_this': [['G', False, [['H', True, [['a', True, []]]], ['b', True, []], ['c', True, []]]], ['d', True, []]],
}


def walk(tree):
    for node in tree:
        yield node
        for n in walk(node[2]):
            yield n


def gen_scenario(rng):
    shape = rng.choice(sorted(SHAPES))
    tree = SHAPES[shape]
    srcnames = [n[0] for n in walk(tree) if n[1]]
    kinds = ['cache_png', 'cache_jpeg', 'direct']
    rng.shuffle(kinds)
    leaves = {}
    for idx, name in enumerate(srcnames):
        kind = kinds[idx] if idx < 3 else rng.choice(['cache_png', 'cache_jpeg', 'direct', 'direct'])
        leaf = {'up': 'u%d' % idx, 'kind': kind, 'host': rng.choice(['lay', 'lay', 'lay2'])}
        if kind == 'direct':
            # (a source without supported_srs next to one with it makes combined_layers() raise: side observation)
            leaf['supported_srs'] = rng.choice([list(WMS_SRS)] * 5 + [['EPSG:4326'], ['EPSG:25832'], ['EPSG:3857'],
                                                                      ['EPSG:4326', 'EPSG:3857']])
        else:
            leaf['grid'] = rng.choice(sorted(GRIDS))
            leaf['origin'] = rng.choice(['ll', 'ul'])
            leaf['store'] = rng.random() < 0.5
            leaf['meta'] = rng.choice([[1, 1], [1, 1], [2, 2]])
            leaf['meta_buffer'] = rng.choice([0, 0, 16])
        leaves[name] = leaf
    semi = rng.choice(sorted(n for n, lf in leaves.items() if lf['kind'] != 'cache_jpeg'))
    leaves[semi]['up'] += 's'
    spec = {'shape': shape, 'leaves': leaves, 'resampling': rng.choice(['nearest', 'nearest', 'nearest', 'bilinear'])}
    # explicit extents per SRS for the WMS (bbox_srs): requests overhanging them are rendered as a smaller sub-query
    spec['bbox_srs'] = rng.random() < 0.3
    return spec


BBOX_SRS_LONLAT = (7.5, 48.5, 12.0, 52.5)


def bbox_srs_conf():
    out = []
    for srs in WMS_SRS:
        if srs == 'EPSG:4326':
            b = list(BBOX_SRS_LONLAT)
        else:
            t = transformer('EPSG:4326', srs)
            xs, ys = [], []
            for lon, lat in ((BBOX_SRS_LONLAT[0], BBOX_SRS_LONLAT[1]), (BBOX_SRS_LONLAT[2], BBOX_SRS_LONLAT[1]),
                             (BBOX_SRS_LONLAT[0], BBOX_SRS_LONLAT[3]), (BBOX_SRS_LONLAT[2], BBOX_SRS_LONLAT[3])):
                x, y = t.transform(lon, lat)
                xs.append(x)
                ys.append(y)
            b = [min(xs), min(ys), max(xs), max(ys)]
        out.append({'srs': srs, 'bbox': b})
    return out


def build(spec, d):
    conf = scenario.base_conf(image={'resampling_method': spec['resampling']})
    tree = SHAPES[spec['shape']]
    used_grids = set()
    for name, leaf in spec['leaves'].items():
        # format pinned to png: with the client's FORMAT=image/jpeg forwarded, every cascaded layer would come back opaque and
        # hide the layers below it when requested alone, but not when combined with its neighbours into one upstream request
        src = {'type': 'wms', 'req': {'url': 'http://%s/service?' % leaf['host'], 'layers': leaf['up'], 'transparent': True,
                                      'format': 'image/png'},
               'wms_opts': {'featureinfo': True, 'version': '1.1.1'}}
        if leaf.get('supported_srs'):
            src['supported_srs'] = list(leaf['supported_srs'])
        conf['sources']['s_' + name] = src
        if leaf['kind'] != 'direct':
            gname = '%s_%s' % (leaf['grid'], leaf['origin'])
            used_grids.add((gname, leaf['grid'], leaf['origin']))
            fmt = 'image/png' if leaf['kind'] == 'cache_png' else 'image/jpeg'
            c = {'grids': [gname], 'sources': ['s_' + name], 'format': fmt, 'request_format': 'image/png',
                 'meta_size': list(leaf['meta']), 'meta_buffer': leaf['meta_buffer']}
            if not leaf['store']:
                c['disable_storage'] = True
            conf['caches']['c_' + name] = c
    for gname, g, origin in used_grids:
        G = GRIDS[g]
        conf['grids'][gname] = {'srs': G['srs'], 'bbox': grid_bbox(g, origin), 'origin': origin, 'tile_size': [TILE, TILE],
                                'res': [G['r0'] / 2 ** z for z in range(NLEVELS)]}

    def lyr(node):
        name, has_src, children = node
        e = {'name': name, 'title': 'layer ' + name}
        if has_src:
            leaf = spec['leaves'][name]
            e['sources'] = ['s_' + name if leaf['kind'] == 'direct' else 'c_' + name]
        if children:
            e['layers'] = [lyr(c) for c in children]
        return e
    conf['layers'] = [lyr(n) for n in tree]
    conf['services'] = {
        'tms': {}, 'kml': {},
        'wmts': {'restful': True, 'kvp': True, 'featureinfo_formats': [{'mimetype': 'text/plain', 'suffix': 'txt'}]},
        'wms': {'srs': list(WMS_SRS), 'image_formats': ['image/png', 'image/jpeg'], 'md': {'title': 'c10'},
                'featureinfo_types': ['text', 'html', 'xml']},
    }
    if spec.get('bbox_srs'):
        conf['services']['wms']['bbox_srs'] = bbox_srs_conf()
    sc = scenario.Scenario(d, conf)
    up = upstream.install()
    h = LayersWMS()
    up.register('lay', h)
    up.register('lay2', h)
    return sc


def wsgi_call(app, path_qs, authorize=None):
    """GET at the raw WSGI boundary with the authorization callback in the environ"""
    path, _, qs = path_qs.partition('?')
    environ = {}
    setup_testing_defaults(environ)
    environ['REQUEST_METHOD'] = 'GET'
    environ['SCRIPT_NAME'] = ''
    environ['PATH_INFO'] = urllib.parse.unquote(path, encoding='latin-1')
    environ['QUERY_STRING'] = qs
    environ['SERVER_NAME'] = 'localhost'
    environ['HTTP_HOST'] = 'localhost'
    if authorize is not None:
        environ['mapproxy.authorize'] = authorize
    got = {'n': 0}

    def start_response(status, hdrs, exc_info=None):
        got['n'] += 1
        got['status'] = status
        got['headers'] = hdrs
        return lambda data: None
    it = app(environ, start_response)
    try:
        chunks = list(it)
    finally:
        if hasattr(it, 'close'):
            it.close()
    return scenario.Response(got.get('status'), got.get('headers', []), b''.join(chunks), start_calls=got['n'])


# ---------------------------------------------------------------------------------------------------------------------
# geometry: generation in the pixel space of a request frame, oracle rasterisation (pyproj + shapely only)
# ---------------------------------------------------------------------------------------------------------------------
_TR = {}


def transformer(a, b):
    import pyproj
    k = (a, b)
    if k not in _TR:
        _TR[k] = pyproj.Transformer.from_crs(a, b, always_xy=True)
    return _TR[k]


class Frame(object):
    """a rectangle of ground in an SRS rendered to w x h pixels"""

    def __init__(self, srs, bbox, size):
        self.srs = srs
        self.bbox = tuple(float(v) for v in bbox)
        self.size = (int(size[0]), int(size[1]))
        self.rx = (self.bbox[2] - self.bbox[0]) / self.size[0]
        self.ry = (self.bbox[3] - self.bbox[1]) / self.size[1]

    def from_px(self, px, py):
        return self.bbox[0] + px * self.rx, self.bbox[3] - py * self.ry

    def to_px_arrays(self, X, Y):
        return (np.asarray(X) - self.bbox[0]) / self.rx, (self.bbox[3] - np.asarray(Y)) / self.ry


def _star(rng, cx, cy, rmin, rmax, n=None):
    n = n or rng.randint(5, 9)
    # star shaped and not degenerate: one vertex per angular sector
    angs = [2 * math.pi * (i + rng.uniform(0.15, 0.85)) / n for i in range(n)]
    return [(cx + math.cos(a) * r, cy + math.sin(a) * r) for a, r in ((a, rng.uniform(rmin, rmax)) for a in angs)]


GEOM_CLASSES = ['box', 'poly', 'hole', 'hole_island_first', 'hole_island_last', 'multi', 'sliver', 'partly', 'outside',
                'cover', 'multi_lines', 'overlap_lines']


def gen_polys_px(rng, cls, w, h):
    """list of WKT 'lines', each a list of polygons [(exterior, [holes])] in pixel space"""
    m = float(min(w, h))
    if cls == 'box':
        x0, y0 = rng.uniform(0.05, 0.45) * w, rng.uniform(0.05, 0.45) * h
        x1, y1 = rng.uniform(0.55, 0.95) * w, rng.uniform(0.55, 0.95) * h
        return [[([(x0, y0), (x1, y0), (x1, y1), (x0, y1)], [])]]
    if cls == 'poly':
        return [[(_star(rng, rng.uniform(0.3, 0.7) * w, rng.uniform(0.3, 0.7) * h, 0.2 * m, 0.48 * m), [])]]
    if cls in ('hole', 'hole_island_first', 'hole_island_last'):
        cx, cy = rng.uniform(0.4, 0.6) * w, rng.uniform(0.4, 0.6) * h
        R = rng.uniform(0.42, 0.55) * m
        outer = (_star(rng, cx, cy, 0.75 * R, R, rng.randint(6, 10)), [_star(rng, cx, cy, 0.45 * R, 0.6 * R)[::-1]])
        if cls == 'hole':
            return [[outer]]
        island = (_star(rng, cx, cy, 0.15 * R, 0.27 * R), [])
        return [[island, outer] if cls == 'hole_island_first' else [outer, island]]
    if cls in ('multi', 'multi_lines'):
        cs = [(0.25, 0.28), (0.72, 0.6), (0.3, 0.8)][:rng.randint(2, 3)]
        polys = [(_star(rng, a * w, b * h, 0.1 * m, 0.19 * m), []) for a, b in cs]
        if cls == 'multi':
            return [polys]
        return [[p] for p in polys[:1]] + [polys[1:]]
    if cls == 'overlap_lines':
        c1 = (rng.uniform(0.3, 0.45) * w, rng.uniform(0.35, 0.65) * h)
        c2 = (c1[0] + 0.2 * m, c1[1] + rng.uniform(-0.1, 0.1) * m)
        return [[(_star(rng, c1[0], c1[1], 0.22 * m, 0.3 * m), [])], [(_star(rng, c2[0], c2[1], 0.22 * m, 0.3 * m), [])]]
    if cls == 'sliver':
        t = rng.uniform(0.15, 1.6)
        if rng.random() < 0.5:
            y1, y2 = rng.uniform(0.1, 0.9) * h, rng.uniform(0.1, 0.9) * h
            return [[([(-10.0, y1), (w + 10.0, y2), (w + 10.0, y2 + t), (-10.0, y1 + t * rng.uniform(0.0, 1.0))], [])]]
        x1, x2 = rng.uniform(0.1, 0.9) * w, rng.uniform(0.1, 0.9) * w
        return [[([(x1, -10.0), (x1 + t, -10.0), (x2 + t * rng.uniform(0.0, 1.0), h + 10.0), (x2, h + 10.0)], [])]]
    if cls == 'partly':
        cx = rng.choice([0.0, 1.0, rng.uniform(0, 1)]) * w
        cy = rng.choice([0.0, 1.0]) * h if 0 < cx < w else rng.uniform(0, 1) * h
        return [[(_star(rng, cx, cy, 0.3 * m, 0.6 * m), [])]]
    if cls == 'outside':
        dx, dy = rng.choice([(2.2, 0.5), (-1.2, 0.5), (0.5, 2.2), (0.5, -1.2), (2.0, 2.0)])
        return [[(_star(rng, dx * w, dy * h, 0.2 * m, 0.5 * m), [])]]
    if cls == 'cover':
        return [[([(-0.6 * w, -0.6 * h), (1.6 * w, -0.6 * h), (1.6 * w, 1.6 * h), (-0.6 * w, 1.6 * h)], [])]]
    raise ValueError(cls)


def _ring_wkt(ring):
    pts = list(ring) + [ring[0]]
    return '(' + ', '.join('%r %r' % (float(x), float(y)) for x, y in pts) + ')'


def _poly_wkt_body(ext, holes):
    return '(' + ', '.join([_ring_wkt(ext)] + [_ring_wkt(hh) for hh in holes]) + ')'


def gen_geomspec(rng, frame, cls=None, form=None, srs=None):
    """JSON-able limited_to description; the geometry is DEFINED in gs['srs'] by the vertices written out here"""
    form = form or rng.choice(['bbox', 'wkt', 'wkt', 'shapely', 'shapely'])
    if form == 'bbox':
        cls = rng.choice(['box', 'box', 'box', 'partly_box', 'outside_box', 'cover'])
    elif cls is None:
        pool = [c for c in GEOM_CLASSES if form == 'wkt' or c not in ('multi_lines', 'overlap_lines')]
        cls = rng.choice(pool)
    srs = srs or (frame.srs if rng.random() < 0.4 else rng.choice([s for s in WMS_SRS if s != frame.srs]))
    w, h = frame.size
    tr = transformer(frame.srs, srs) if srs != frame.srs else None

    def to_limit(ring):
        out = []
        for px, py in ring:
            X, Y = frame.from_px(px, py)
            if tr is not None:
                X, Y = tr.transform(X, Y)
            out.append((X, Y))
        return out
    if form == 'bbox':
        if cls == 'partly_box':
            x0, y0 = rng.uniform(-0.5, 0.3) * w, rng.uniform(-0.5, 0.3) * h
            ring = [(x0, y0), (x0 + 0.7 * w, y0), (x0 + 0.7 * w, y0 + 0.8 * h), (x0, y0 + 0.8 * h)]
        elif cls == 'outside_box':
            ring = [(1.6 * w, 0.2 * h), (2.4 * w, 0.2 * h), (2.4 * w, 0.9 * h), (1.6 * w, 0.9 * h)]
        else:
            ring = gen_polys_px(rng, cls, w, h)[0][0][0]
        pts = to_limit(ring)
        xs, ys = [p[0] for p in pts], [p[1] for p in pts]
        return {'cls': cls, 'form': 'bbox', 'srs': srs, 'bbox': [min(xs), min(ys), max(xs), max(ys)]}
    lines = []
    for polys in gen_polys_px(rng, cls, w, h):
        bodies = [_poly_wkt_body(to_limit(ext), [to_limit(hh) for hh in holes]) for ext, holes in polys]
        if len(bodies) == 1:
            lines.append('POLYGON' + bodies[0])
        else:
            lines.append('MULTIPOLYGON(' + ', '.join(bodies) + ')')
    return {'cls': cls, 'form': form, 'srs': srs, 'lines': lines}


def limited_to_value(gs):
    """what the authorization callback returns for this geometry"""
    import shapely.wkt
    from shapely.geometry import MultiPolygon
    if gs['form'] == 'bbox':
        return {'geometry': list(gs['bbox']), 'srs': gs['srs']}
    if gs['form'] == 'wkt':
        return {'geometry': '\n'.join(gs['lines']), 'srs': gs['srs']}
    geoms = [shapely.wkt.loads(ln) for ln in gs['lines']]
    if len(geoms) == 1:
        g = geoms[0]
    else:
        parts = []
        for g in geoms:
            parts.extend(list(g.geoms) if g.geom_type == 'MultiPolygon' else [g])
        g = MultiPolygon(parts)
    return {'geometry': g, 'srs': gs['srs']}


class GeomOracle(object):
    """U / I = union / intersection of the two defensible images of the geometry in the frame (vertex-wise transformed,
    densified then transformed), in PIXEL coordinates of the frame"""

    def __init__(self, gs, frame):
        import shapely
        import shapely.wkt
        import shapely.ops
        from shapely.geometry import box
        self.ok = True
        self.frame = frame
        if gs['form'] == 'bbox':
            polys = [box(*gs['bbox'])]
        else:
            polys = []
            for ln in gs['lines']:
                g = shapely.wkt.loads(ln)
                polys.extend(list(g.geoms) if g.geom_type == 'MultiPolygon' else [g])
        w, h = frame.size
        tr = transformer(gs['srs'], frame.srs) if gs['srs'] != frame.srs else None

        def image(dens):
            out = []
            for p in polys:
                if dens:
                    b = p.bounds
                    p = shapely.segmentize(p, max(max(b[2] - b[0], b[3] - b[1]) / 200.0, 1e-9))

                def ring(r):
                    xs, ys = np.asarray(r.coords.xy[0]), np.asarray(r.coords.xy[1])
                    if tr is not None:
                        xs, ys = tr.transform(xs, ys)
                        xs, ys = np.asarray(xs), np.asarray(ys)
                    if not (np.isfinite(xs).all() and np.isfinite(ys).all()):
                        raise ValueError('not transformable')
                    px, py = frame.to_px_arrays(xs, ys)
                    return list(zip(px.tolist(), py.tolist()))
                q = shapely.geometry.Polygon(ring(p.exterior), [ring(r) for r in p.interiors])
                if not q.is_valid:
                    q = shapely.make_valid(q)
                out.append(q)
            # the polygons of one limited_to entry form a MultiPolygon for MapProxy; an island that touches or crosses
            # the ring of its hole makes that MultiPolygon invalid - what happens then is outside the statement
            try:
                simple = [q_ for q_ in out if q_.geom_type == 'Polygon']
                if len(simple) > 1 and not shapely.geometry.MultiPolygon(simple).is_valid:
                    raise ValueError('limit geometry is not a valid MultiPolygon')
            except ValueError:
                raise
            g = shapely.ops.unary_union(out)
            return g.intersection(box(-64, -64, w + 64, h + 64))
        try:
            A = image(False)
            B = image(True) if tr is not None else A
            self.U = A.union(B) if B is not A else A
            self.I = A.intersection(B) if B is not A else A
            self.band_px = float(self.U.symmetric_difference(self.I).area) if B is not A else 0.0
        except Exception as ex:
            self.ok = False
            self.err = repr(ex)
            return
        self._m = {}

    def _centres(self):
        w, h = self.frame.size
        X, Y = np.meshgrid(np.arange(w) + 0.5, np.arange(h) + 0.5)
        return X, Y

    def outside(self, d):
        """pixel centres outside U dilated by d px"""
        import shapely
        k = ('o', d)
        if k not in self._m:
            X, Y = self._centres()
            g = self.U.buffer(d)
            self._m[k] = ~shapely.contains_xy(g, X, Y) if not g.is_empty else np.ones(X.shape, dtype=bool)
        return self._m[k]

    def inside(self, d):
        """pixel centres inside I eroded by d px"""
        import shapely
        k = ('i', d)
        if k not in self._m:
            X, Y = self._centres()
            g = self.I.buffer(-d)
            self._m[k] = shapely.contains_xy(g, X, Y) if not g.is_empty else np.zeros(X.shape, dtype=bool)
        return self._m[k]

    def point_class(self, px, py, d=1.0):
        """'inside' (in I eroded by d), 'outside' (not in U dilated by d), 'band'"""
        from shapely.geometry import Point
        p = Point(px, py)
        if not self.I.is_empty and self.I.buffer(-d).contains(p):
            return 'inside'
        if self.U.is_empty or not self.U.buffer(d).contains(p):
            return 'outside'
        return 'band'


# ---------------------------------------------------------------------------------------------------------------------
# authorization callback from a JSON-able description
# ---------------------------------------------------------------------------------------------------------------------

class Auth(object):
    def __init__(self, spec):
        self.spec = spec
        self.calls = []
        if spec['mode'] == 'partial':
            res = {'authorized': 'partial', 'layers': {}}
            for name, p in spec['layers'].items():
                e = {}
                for f in ('map', 'featureinfo', 'tile'):
                    if f in p:
                        e[f] = p[f]
                if p.get('limited_to'):
                    e['limited_to'] = limited_to_value(p['limited_to'])
                res['layers'][name] = e
            if spec.get('limited_to'):
                res['limited_to'] = limited_to_value(spec['limited_to'])
        else:
            res = {'authorized': spec['mode']}
        self.result = res

    def __call__(self, service, layers=None, environ=None, **kw):
        self.calls.append((service, list(layers or []), kw.get('query_extent')))
        return self.result

    def permitted(self, name, feature):
        m = self.spec['mode']
        if m == 'full':
            return True
        if m != 'partial':
            return False
        return self.spec['layers'].get(name, {}).get(feature, False) is True

    def layer_limit(self, name):
        if self.spec['mode'] != 'partial':
            return None
        return self.spec['layers'].get(name, {}).get('limited_to')

    def global_limit(self):
        if self.spec['mode'] != 'partial':
            return None
        return self.spec.get('limited_to')


def full_auth(service, layers=None, environ=None, **kw):
    return {'authorized': 'full'}


# ---------------------------------------------------------------------------------------------------------------------
# probes: generation
# ---------------------------------------------------------------------------------------------------------------------
BGCOLORS = ['0xffffff', '0x000000', '0xe6e6e6', '0x1e1e1e']


def node_map(tree):
    return {n[0]: n for n in walk(tree)}


def resolve(tree, names):
    """leaf layers (layers with own sources) a list of requested names stands for, in order, unique.  A group with own
    sources stands for itself only."""
    nm = node_map(tree)

    def leaves(node):
        if node[1]:
            return [node[0]]
        out = []
        for c in node[2]:
            out.extend(leaves(c))
        return out
    res = []
    for n in names:
        for lf in leaves(nm[n]):
            if lf not in res:
                res.append(lf)
    return res


def gen_auth(rng, spec, frame, relevant):
    r = rng.random()
    if r < 0.07:
        return {'mode': 'full'}
    if r < 0.15:
        return {'mode': 'none'}
    if r < 0.22:
        return {'mode': 'unauthenticated'}
    layers = {}
    for name in [n[0] for n in walk(SHAPES[spec['shape']])]:
        rel = name in relevant
        if rng.random() < (0.04 if rel else 0.25):
            continue                     # missing entry = denied
        p = {}
        for f in ('map', 'featureinfo', 'tile'):
            x = rng.random()
            if x < (0.9 if rel else 0.7):
                p[f] = True
            elif x < 0.96:
                p[f] = False
        if rel and rng.random() < 0.5:
            p['limited_to'] = gen_geomspec(rng, frame)
        layers[name] = p
    a = {'mode': 'partial', 'layers': layers}
    if rng.random() < 0.3:
        a['limited_to'] = gen_geomspec(rng, frame)
    return a


def gen_wms_frame(rng):
    srs = rng.choice(WMS_SRS)
    lon, lat = rng.uniform(6.5, 13.5), rng.uniform(47.5, 53.5)
    mpp = rng.choice([30.0, 120.0, 500.0, 2000.0]) * rng.uniform(0.7, 1.4)
    w, h = rng.randint(96, 230), rng.randint(96, 230)
    rx = {'EPSG:4326': mpp / 111320.0, 'EPSG:3857': mpp * 1.55, 'EPSG:25832': mpp}[srs]
    ry = rx * (rng.uniform(0.7, 1.4) if rng.random() < 0.15 else 1.0)
    cx, cy = transformer('EPSG:4326', srs).transform(lon, lat) if srs != 'EPSG:4326' else (lon, lat)
    bbox = [cx - w * rx / 2, cy - h * ry / 2, cx + w * rx / 2, cy + h * ry / 2]
    return Frame(srs, bbox, (w, h))


def gen_wms_probe(rng, spec, fi=False):
    tree = SHAPES[spec['shape']]
    names = [n[0] for n in walk(tree)]
    frame = gen_wms_frame(rng)
    k = rng.choice([1, 1, 2, 2, 3, 4])
    layers = rng.sample(names, min(k, len(names)))
    req = {'layers': layers, 'srs': frame.srs, 'bbox': list(frame.bbox), 'size': list(frame.size),
           'format': rng.choice(['image/png', 'image/png', 'image/jpeg']), 'transparent': rng.random() < 0.55,
           'bgcolor': rng.choice(BGCOLORS), 'version': rng.choice(['1.1.1', '1.1.1', '1.3.0'])}
    relevant = resolve(tree, layers)
    auth = gen_auth(rng, spec, frame, relevant)
    implicit = [lf for lf in relevant if lf not in layers]
    if auth['mode'] == 'partial' and implicit and rng.random() < 0.4:
        # deny a layer that is only requested through its group: must vanish silently
        lf = rng.choice(implicit)
        how = rng.choice(['missing', 'false', 'no_key'])
        if how == 'missing':
            auth['layers'].pop(lf, None)
        else:
            e = auth['layers'].setdefault(lf, {})
            for f in ('map', 'featureinfo'):
                if how == 'false':
                    e[f] = False
                else:
                    e.pop(f, None)
    probe = {'service': 'wms_fi' if fi else 'wms_map', 'req': req, 'auth': auth,
             'order': rng.choice(['auth_first', 'ref_first'])}
    if fi:
        req['query_layers'] = list(layers) if rng.random() < 0.8 else rng.sample(layers, rng.randint(1, len(layers)))
        req['format'] = 'image/png'
        req['pos'] = choose_click(rng, frame, auth, resolve(tree, req['query_layers']))
    return probe


def choose_click(rng, frame, auth_spec, leaves):
    """pixel (i, j) inside / outside / near a geometry that gates one of the leaves"""
    w, h = frame.size
    a = Auth.__new__(Auth)
    a.spec = auth_spec
    cands = [g for g in [a.layer_limit(lf) for lf in leaves] + [a.global_limit()] if g]
    pos = [rng.randrange(w), rng.randrange(h)]
    if not cands:
        return pos
    go = GeomOracle(rng.choice(cands), frame)
    if not go.ok:
        return pos
    want = rng.choice(['inside', 'inside', 'outside', 'outside', 'near'])
    if want == 'inside':
        m = go.inside(1.5)
    elif want == 'outside':
        m = go.outside(1.5)
    else:
        m = ~go.inside(1.5) & ~go.outside(1.5)
    idx = np.argwhere(m)
    if len(idx) == 0:
        return pos
    j, i = idx[rng.randrange(len(idx))]
    return [int(i), int(j)]


TILE_SERVICES = ['tms', 'tiles', 'tiles_nw', 'wmts_kvp', 'wmts_rest', 'kml', 'kml_doc']


def tile_rows_from_top(service, leaf):
    """WMTS and origin=nw count rows from the top, TMS and KML from the bottom, /tiles without origin parameter uses
    the origin the grid was configured with"""
    if service.startswith('wmts') or service == 'tiles_nw':
        return True
    if service == 'tiles':
        return leaf['origin'] == 'ul'
    return False


def tile_frame(leaf, z, x, y, nw):
    G = GRIDS[leaf['grid']]
    b = grid_bbox(leaf['grid'], leaf['origin'])
    span = G['r0'] / 2 ** z * TILE
    x0 = b[0] + x * span
    if nw:
        y1 = b[3] - y * span
        y0 = y1 - span
    else:
        y0 = b[1] + y * span
        y1 = y0 + span
    return Frame(G['srs'], (x0, y0, x0 + span, y1), (TILE, TILE))


def gen_tile_probe(rng, spec, fi=False):
    cached = sorted(n for n, lf in spec['leaves'].items() if lf['kind'] != 'direct')
    if not cached:
        return None
    name = rng.choice(cached)
    leaf = spec['leaves'][name]
    z = rng.randint(1, 6)
    nx, ny = grid_tiles(leaf['grid'], leaf['origin'], z)
    x, y = rng.randrange(nx), rng.randrange(ny)
    if 'cut' in GRIDS[leaf['grid']] and rng.random() < 0.5:
        # border tiles: last column, and the row that overhangs (counted from the corner the grid is anchored at)
        x, y = rng.choice([(nx - 1, y), (x, ny - 1), (nx - 1, ny - 1)])
    service = rng.choice(['wmts_fi_kvp', 'wmts_fi_rest']) if fi else rng.choice(TILE_SERVICES)
    if 'cut' in GRIDS[leaf['grid']]:
        # rows of such a grid cannot be counted from the other end (the services refuse or shift, see C02): only the
        # services whose row convention is the grid's own
        if leaf['origin'] == 'ul':
            service = rng.choice(['wmts_fi_kvp', 'wmts_fi_rest']) if fi else rng.choice(['tiles', 'tiles_nw', 'wmts_kvp', 'wmts_rest'])
        else:
            if fi:
                return None
            service = rng.choice(['tms', 'tiles', 'kml', 'kml_doc'])
    frame = tile_frame(leaf, z, x, y, tile_rows_from_top(service, leaf))
    auth = gen_auth(rng, spec, frame, [name])
    probe = {'service': service, 'req': {'layer': name, 'z': z, 'x': x, 'y': y}, 'auth': auth,
             'order': rng.choice(['auth_first', 'ref_first'])}
    if fi:
        probe['req']['pos'] = choose_click(rng, frame, auth, [name])
    return probe


def gen_probe(rng, spec):
    kind = rng.choice(['wms_map'] * 9 + ['wms_fi'] * 4 + ['tile'] * 9 + ['wmts_fi'] * 3)
    if kind == 'wms_map':
        return gen_wms_probe(rng, spec)
    if kind == 'wms_fi':
        return gen_wms_probe(rng, spec, fi=True)
    p = gen_tile_probe(rng, spec, fi=(kind == 'wmts_fi'))
    return p or gen_wms_probe(rng, spec)


# ---------------------------------------------------------------------------------------------------------------------
# probes: URLs
# ---------------------------------------------------------------------------------------------------------------------

def wms_url(req, fi=False):
    b = list(req['bbox'])
    p = [('SERVICE', 'WMS'), ('VERSION', req['version']), ('REQUEST', 'GetFeatureInfo' if fi else 'GetMap'),
         ('LAYERS', ','.join(req['layers'])), ('STYLES', '')]
    if req['version'] == '1.3.0':
        p.append(('CRS', req['srs']))
        if upstream.northing_first(req['srs']):
            b = [b[1], b[0], b[3], b[2]]
    else:
        p.append(('SRS', req['srs']))
    p += [('BBOX', ','.join(repr(float(v)) for v in b)), ('WIDTH', str(req['size'][0])), ('HEIGHT', str(req['size'][1])),
          ('FORMAT', req['format'])]
    if fi:
        p += [('QUERY_LAYERS', ','.join(req['query_layers'])), ('INFO_FORMAT', 'text/plain')]
        if req['version'] == '1.3.0':
            p += [('I', str(req['pos'][0])), ('J', str(req['pos'][1]))]
        else:
            p += [('X', str(req['pos'][0])), ('Y', str(req['pos'][1]))]
    else:
        p += [('TRANSPARENT', 'true' if req['transparent'] else 'false'), ('BGCOLOR', req['bgcolor'])]
    return '/service?' + urllib.parse.urlencode(p, safe=':/,')


def tile_url(service, req, leaf):
    name, z, x, y = req['layer'], req['z'], req['x'], req['y']
    ext = 'png' if leaf['kind'] == 'cache_png' else 'jpeg'
    spec_ = GRIDS[leaf['grid']]['srs'].replace(':', '')
    gname = '%s_%s' % (leaf['grid'], leaf['origin'])
    if service == 'tms':
        return '/tms/1.0.0/%s/%s/%d/%d/%d.%s' % (name, spec_, z, x, y, ext)
    if service == 'tiles':
        return '/tiles/%s/%s/%d/%d/%d.%s' % (name, spec_, z, x, y, ext)
    if service == 'tiles_nw':
        return '/tiles/%s/%s/%d/%d/%d.%s?origin=nw' % (name, spec_, z, x, y, ext)
    if service == 'kml':
        return '/kml/%s/%s/%d/%d/%d.%s' % (name, spec_, z, x, y, ext)
    if service == 'kml_doc':
        return '/kml/%s/%s/%d/%d/%d.kml' % (name, spec_, z, x, y)
    if service == 'wmts_rest':
        return '/wmts/%s/%s/%d/%d/%d.%s' % (name, gname, z, x, y, ext)
    if service == 'wmts_kvp':
        return ('/service?SERVICE=WMTS&REQUEST=GetTile&VERSION=1.0.0&LAYER=%s&STYLE=&TILEMATRIXSET=%s&TILEMATRIX=%d'
                '&TILEROW=%d&TILECOL=%d&FORMAT=image/%s' % (name, gname, z, y, x, ext))
    if service == 'wmts_fi_rest':
        return '/wmts/%s/%s/%d/%d/%d/%d/%d.txt' % (name, gname, z, x, y, req['pos'][0], req['pos'][1])
    if service == 'wmts_fi_kvp':
        return ('/service?SERVICE=WMTS&REQUEST=GetFeatureInfo&VERSION=1.0.0&LAYER=%s&STYLE=&TILEMATRIXSET=%s&TILEMATRIX=%d'
                '&TILEROW=%d&TILECOL=%d&FORMAT=image/%s&INFOFORMAT=text/plain&I=%d&J=%d' % (
                    name, gname, z, y, x, ext, req['pos'][0], req['pos'][1]))
    raise ValueError(service)


# ---------------------------------------------------------------------------------------------------------------------
# probes: execution and judgement
# ---------------------------------------------------------------------------------------------------------------------
FAM_CODE = [f[0] * 4 + f[1] * 2 + f[2] for f in FAMILIES]
PNG_TOL = 2
JPEG_TOL = 72          # restricted vs. reference, both jpeg encoded by the server: ringing of a clipped edge inside the MCU
JPEG_BG_TOL = 56
CLEAR_PX = 1.75        # pixel CENTRE farther than this from U => the whole pixel (half diagonal 0.71) lies more than one pixel outside
KEEP_PX = 2.0          # pixel centre deeper than this inside I => must be kept
JPEG_EXTRA = 2         # extra don't-care pixels around a clip edge in jpeg output


def classify(arr):
    """arr RGBA uint8 -> codes: -2 fully transparent, -1 unknown, 0 / 7 background like, else colour family code"""
    rgb = arr[..., :3]
    hi = rgb >= HI_MIN
    lo = rgb <= LO_MAX
    known = (hi | lo).all(axis=2)
    code = hi[..., 0].astype(np.int16) * 4 + hi[..., 1].astype(np.int16) * 2 + hi[..., 2].astype(np.int16)
    code = np.where(known, code, -1)
    return np.where(arr[..., 3] == 0, -2, code)


def solid3(m):
    p = np.pad(m, 1, constant_values=False)
    out = np.ones_like(m)
    for dy in (0, 1, 2):
        for dx in (0, 1, 2):
            out &= p[dy:dy + m.shape[0], dx:dx + m.shape[1]]
    return out


def uniform5(a):
    """pixels whose 5x5 neighbourhood is one flat colour (all four channels within 4 levels)"""
    h, w = a.shape[:2]
    p = np.pad(a, ((2, 2), (2, 2), (0, 0)), mode='edge')
    mx = a.copy()
    mn = a.copy()
    for dy in range(5):
        for dx in range(5):
            v = p[dy:dy + h, dx:dx + w]
            mx = np.maximum(mx, v)
            mn = np.minimum(mn, v)
    return (mx.astype(np.int16) - mn.astype(np.int16)).max(axis=2) <= 4


def rgba(resp):
    return np.asarray(resp.image().convert('RGBA'))


class Ctx(object):
    pass


def geom_class(gs, frame):
    return (gs['cls'], gs['form'], 'same_srs' if gs['srs'] == frame.srs else '%s_in_%s' % (gs['srs'][5:], frame.srs[5:]))


def cb_class(auth, leaves, feature):
    m = auth.spec['mode']
    if m != 'partial':
        return m
    den = any(not auth.permitted(lf, feature) for lf in leaves)
    lim = any(auth.layer_limit(lf) for lf in leaves if auth.permitted(lf, feature))
    return 'partial:%s%s%s' % ('denied' if den else 'allowed', '+layer_limit' if lim else '', '+global_limit' if auth.global_limit() else '')


def gmech(gates, frame):
    """mechanism-level description of the geometries involved"""
    return {'srs_rel': 'other' if any(g['srs'] != frame.srs for g in gates) else 'same',
            'island_before_hole': any(g['cls'] == 'hole_island_first' for g in gates)}


def first_bad(mask):
    idx = np.argwhere(mask)
    return (int(idx[0][1]), int(idx[0][0])) if len(idx) else None


def exec_probe(ctx, probe):
    run = ctx.run
    svc = probe['service']
    req = probe['req']
    auth = Auth(probe['auth'])
    if svc in ('wms_map', 'wms_fi'):
        url = wms_url(req, fi=(svc == 'wms_fi'))
    else:
        url = tile_url(svc, req, ctx.spec['leaves'][req['layer']])
    ctx.url = url

    def do(cb):
        ctx.up.reset_log()
        r = wsgi_call(ctx.sc.app, url, cb)
        return r, list(ctx.up.log)
    # a stored jpeg cache answers from the raw (still transparent) upstream image while it creates a tile and from the
    # opaque jpeg afterwards: make restricted and reference run see the same state
    touched = resolve(SHAPES[ctx.spec['shape']], req['layers'] + req.get('query_layers', [])) if svc in ('wms_map', 'wms_fi') else [req['layer']]
    if any(ctx.spec['leaves'][lf]['kind'] == 'cache_jpeg' and ctx.spec['leaves'][lf].get('store') for lf in touched):
        do(full_auth)
        run.count('primed_jpeg_cache')
    if probe.get('order') == 'ref_first':
        ref, refcalls = do(full_auth)
        r, calls = do(auth)
    else:
        r, calls = do(auth)
        ref, refcalls = do(full_auth)
    run.hit('requests')
    run.hit('svc_' + svc)
    if not auth.calls:
        if ctx.spec.get('bbox_srs') and svc in ('wms_map', 'wms_fi'):
            ext = [e['bbox'] for e in bbox_srs_conf() if e['srs'] == probe['req']['srs']][0]
            b = probe['req']['bbox']
            if not (min(b[2], ext[2]) > max(b[0], ext[0]) and min(b[3], ext[3]) > max(b[1], ext[1])):
                # wholly outside the extent configured for this SRS: answered blank before any layer is looked at
                run.dc('request_outside_the_configured_srs_extent')
                if svc == 'wms_map' and r.code == 200 and calls:
                    viol(ctx, probe, {'service': svc, 'clause': 'upstream_call_without_authorization'},
                         'no authorization callback but %d upstream calls' % len(calls))
                return
        viol(ctx, probe, {'service': svc, 'clause': 'callback_not_called'}, 'the authorization callback was never called')
        return
    if svc == 'wms_map':
        judge_wms_map(ctx, probe, auth, r, ref, calls)
    elif svc == 'wms_fi':
        judge_wms_fi(ctx, probe, auth, r, ref, calls)
    elif svc in ('wmts_fi_kvp', 'wmts_fi_rest'):
        judge_wmts_fi(ctx, probe, auth, r, ref, calls)
    else:
        judge_tile(ctx, probe, auth, r, ref, calls)


def viol(ctx, probe, mech, detail):
    case = {'i': ctx.case.get('i'), 'scen': ctx.spec, 'probes': [probe]}
    a = json.dumps(probe['auth'], default=str)
    ctx.run.violation(mech, case, '%s | request %s | callback result %s' % (detail, ctx.url, a if len(a) < 1800 else a[:1800] + '...'))


def called_layers(calls, kind=None):
    out = set()
    for c in calls:
        if kind and c.kind != kind:
            continue
        out.update(c.extra.get('layers') or [n for n in c.params.get('layers', '').split(',') if n])
    return out


def check_status(ctx, probe, svc, r, exp, denied):
    """returns True if the response is the expected kind; violations for leaks / wrong rejections, don't-care for 5xx"""
    run = ctx.run
    if r.code in exp:
        return True
    if r.code >= 500 or r.code == 400:
        run.dc('error_response_%d' % r.code)
        run.count('error_response:%s:%d' % (svc, r.code))
        if len(ctx.errors) < 3:
            ctx.errors.append((r.code, ctx.url, r.body[:200]))
        return False
    if r.code == 200:
        viol(ctx, probe, {'service': svc, 'clause': 'denied_request_answered', 'expected': list(exp)},
             'expected status %r because %s, got 200 %s (%d bytes)' % (exp, denied, r.content_type, len(r.body)))
    else:
        viol(ctx, probe, {'service': svc, 'clause': 'wrong_status', 'expected': list(exp), 'got': r.code},
             'expected status %r (%s), got %d %r' % (exp, denied or 'everything requested is permitted', r.code, r.body[:120]))
    return False


def layer_meta(ctx, name):
    leaf = ctx.spec['leaves'][name]
    k = int(leaf['up'][1:].rstrip('s'))
    return leaf, leaf['up'], FAM_CODE[k % len(FAM_CODE)]


def judge_wms_map(ctx, probe, auth, r, ref, calls):
    run = ctx.run
    req = probe['req']
    tree = SHAPES[ctx.spec['shape']]
    frame = Frame(req['srs'], req['bbox'], req['size'])
    resolved = resolve(tree, req['layers'])
    explicit = set(req['layers'])
    mode = auth.spec['mode']
    denied = [lf for lf in resolved if not auth.permitted(lf, 'map')]
    allowed = [lf for lf in resolved if lf not in denied]
    if mode == 'unauthenticated':
        exp = (401,)
    elif any(lf in explicit for lf in denied):
        exp = (403,)
    elif mode == 'none':
        exp = (403, 200)
    else:
        exp = (200,)
    out_jpeg = req['format'] == 'image/jpeg'
    fmt = 'jpeg' if out_jpeg else ('png_transparent' if req['transparent'] else 'png_bgcolor')
    limits = [(lf, auth.layer_limit(lf)) for lf in allowed if auth.layer_limit(lf)]
    glimit = auth.global_limit()
    gcls = sorted(set([geom_class(g, frame) for _, g in limits] + ([('global',) + geom_class(glimit, frame)] if glimit else [])))
    cls = ('wms_map', cb_class(auth, resolved, 'map'), tuple(gcls[:2]), fmt, ctx.spec['shape'], len(req['layers']))
    run.judge(cls, nontrivial=(mode == 'partial'))
    # --- upstream attribution ---------------------------------------------------------------------------------------
    called = called_layers(calls)
    allowed_up = set(layer_meta(ctx, lf)[1] for lf in allowed)
    for lf in denied:
        run.hit('denied_checks')
        run.hit('no_upstream_for_denied_checks')
        if layer_meta(ctx, lf)[1] in called:
            viol(ctx, probe, {'service': 'wms_map', 'clause': 'upstream_call_for_denied_layer', 'explicit': lf in explicit},
                 'layer %s (upstream %s) is denied (map) but upstream calls name it: %r' % (
                     lf, layer_meta(ctx, lf)[1], [c.url[:200] for c in calls][:3]))
    extra = called - allowed_up - set(layer_meta(ctx, lf)[1] for lf in denied)
    if extra:
        viol(ctx, probe, {'service': 'wms_map', 'clause': 'upstream_call_for_unrequested_layer'},
             'upstream layers %r were requested although LAYERS=%r resolves to %r' % (sorted(extra), req['layers'], resolved))
    why = 'callback said %s' % mode if mode != 'partial' else 'layers %r are denied (map), explicitly requested: %r' % (
        denied, [lf for lf in denied if lf in explicit])
    if not check_status(ctx, probe, 'wms_map', r, exp, why if (denied or mode != 'partial') else ''):
        return
    if mode == 'none':
        run.count('wms_map_authorized_none_answered_%d' % r.code)
    if r.code != 200:
        run.hit('rejected_as_expected')
        if called:
            viol(ctx, probe, {'service': 'wms_map', 'clause': 'upstream_call_for_rejected_request'},
                 'request was rejected with %d but upstream was called for %r' % (r.code, sorted(called)))
        return
    try:
        arr = rgba(r)
    except Exception as ex:
        run.dc('undecodable_response')
        return
    w, h = frame.size
    if arr.shape[:2] != (h, w):
        run.dc('wrong_size_response')
        return
    lossy = out_jpeg or ctx.spec['resampling'] != 'nearest' or any(ctx.spec['leaves'][lf]['kind'] == 'cache_jpeg' for lf in resolved)
    has_alpha = (not out_jpeg) and req['transparent']
    codes = classify(arr)
    visible = arr[..., 3] > 0
    bg = np.array(_bgcolor(req['bgcolor']), dtype=np.int16)
    mech0 = {'service': 'wms_map', 'out': fmt}

    def is_code(c):
        m = (codes == c) & visible
        return solid3(m) if lossy else m
    thr = 4 if lossy else 0
    # --- layers that must not show anywhere -------------------------------------------------------------------------
    for name in ctx.spec['leaves']:
        if name in allowed:
            continue
        leaf, upn, code = layer_meta(ctx, name)
        m = is_code(code)
        n = int(m.sum())
        if name in denied:
            run.hit('denied_layer_pixel_checks')
        if n > thr:
            viol(ctx, probe, dict(mech0, clause='denied_layer_pixels' if name in denied else 'unrequested_layer_pixels'),
                 '%d pixels show the colours of layer %s (%s), first at %r = %r' % (
                     n, name, 'denied' if name in denied else 'not requested', first_bad(m), arr[first_bad(m)[1], first_bad(m)[0]].tolist()))
    # --- geometry obligations -----------------------------------------------------------------------------------------
    d_clear = CLEAR_PX + (JPEG_EXTRA if out_jpeg else 0.0)
    d_keep = KEEP_PX + (JPEG_EXTRA if out_jpeg else 0.0)
    oracles = {}
    usable = True
    for lf, g in limits:
        oracles[lf] = GeomOracle(g, frame)
        usable &= oracles[lf].ok
    go_g = GeomOracle(glimit, frame) if glimit else None
    if go_g is not None and not go_g.ok:
        usable = False
    if not usable:
        run.dc('geometry_not_transformable')
        return
    nclear = 0
    for lf, g in limits:
        leaf, upn, code = layer_meta(ctx, lf)
        clear = oracles[lf].outside(d_clear)
        nclear += int(clear.sum())
        m = is_code(code) & clear
        n = int(m.sum())
        if n > thr:
            p = first_bad(m)
            viol(ctx, probe, dict(mech0, clause='limited_layer_visible_outside', role='layer', **gmech([g], frame)),
                 '%d pixels more than %.1f px outside the %s geometry (%s) of layer %s show its colours, first at %r = %r' % (
                     n, d_clear, g['cls'], g['srs'], lf, p, arr[p[1], p[0]].tolist()))
    # pixels where nothing may show: outside the global geometry, or outside the geometries of all permitted layers
    must_bg = np.zeros((h, w), dtype=bool)
    if go_g is not None:
        must_bg |= go_g.outside(d_clear)
    if allowed and all(lf in oracles for lf in allowed):
        allout = np.ones((h, w), dtype=bool)
        for lf in allowed:
            allout &= oracles[lf].outside(d_clear)
        must_bg |= allout
    if not allowed:
        must_bg[:] = True
    nbg = int(must_bg.sum())
    if nbg:
        if has_alpha:
            badm = must_bg & (arr[..., 3] != 0)
        else:
            tol = JPEG_BG_TOL if out_jpeg else 0
            badm = must_bg & (np.abs(arr[..., :3].astype(np.int16) - bg).max(axis=2) > tol)
            if out_jpeg:
                badm = solid3(badm)
        n = int(badm.sum())
        if n > 0:
            p = first_bad(badm)
            role = 'global' if go_g is not None else ('all_layers_limited' if allowed else 'all_layers_denied')
            g = glimit or (limits[0][1] if limits else {'form': None, 'srs': frame.srs, 'cls': None})
            viol(ctx, probe, dict(mech0, clause='outside_not_background', role=role, **gmech([g] if g['cls'] else [], frame)),
                 '%d of %d pixels that lie more than %.1f px outside the permitted area are not %s, first at %r = %r' % (
                     n, nbg, d_clear, 'fully transparent' if has_alpha else 'the background colour %r' % (bg.tolist(),), p,
                     arr[p[1], p[0]].tolist()))
    run.hit('must_be_clear_pixels', nclear + nbg)
    if limits or glimit:
        run.hit('limited_map_checks')
    # --- content that must be kept -------------------------------------------------------------------------------------
    if ref.code != 200:
        run.dc('reference_failed_%d' % ref.code)
        return
    try:
        rarr = rgba(ref)
    except Exception:
        run.dc('reference_undecodable')
        return
    rcodes = classify(rarr)
    rvis = rarr[..., 3] > 0
    diff = np.abs(arr.astype(np.int16) - rarr.astype(np.int16)).max(axis=2)
    # a jpeg cache answers its first request from the not yet encoded upstream image, later ones from the stored jpeg
    jpeg_src = any(ctx.spec['leaves'][lf]['kind'] == 'cache_jpeg' for lf in allowed)
    # bilinear / bicubic resampling blends every layer's cell edges with what lies below: loose tolerance as well
    tol = JPEG_TOL if (out_jpeg or jpeg_src or ctx.spec['resampling'] != 'nearest') else PNG_TOL
    # with bilinear resampling every cell edge is a ramp that mixes in whatever lies below (also below a removed layer):
    # only the flat interior of cells is comparable
    flat = uniform5(rarr) if ctx.spec['resampling'] != 'nearest' else None
    nkeep = 0
    for lf in allowed:
        # where the unrestricted response shows layer lf (all layers are opaque or absent per pixel) and lf as well as the
        # whole request is permitted there, the restricted response must show the same
        leaf, upn, code = layer_meta(ctx, lf)
        if out_jpeg and upn.endswith('s'):
            # jpeg has no alpha: the unrestricted response shows half transparent cells at full strength, a clipped one
            # blended with the background -> not comparable
            run.dc('jpeg_output_of_half_transparent_layer')
            continue
        m = (rcodes == code) & rvis
        if lossy:
            m = solid3(m)
        if flat is not None:
            m = m & flat
        gates = []
        if lf in oracles:
            m = m & oracles[lf].inside(d_keep)
            gates.append(auth.layer_limit(lf))
        for j in allowed:
            if j != lf and j in oracles and ctx.spec['leaves'][j]['kind'] == 'cache_jpeg':
                # a jpeg-cached layer has no transparency and its compressed colours can fall into another layer's colour
                # family: where such a layer was clipped away the unrestricted picture says nothing about lf
                n0 = int(m.sum())
                m = m & oracles[j].inside(d_keep)
                run.dc('keep_pixels_where_a_jpeg_layer_was_clipped', n0 - int(m.sum()))
        if go_g is not None:
            m = m & go_g.inside(d_keep)
            gates.append(glimit)
        nk = int(m.sum())
        nkeep += nk
        if not nk:
            continue
        badm = m & (diff > tol)
        if out_jpeg:
            # chroma of a jpeg pixel bleeds 1-2 px from neighbours that legitimately changed (other layers clipped or
            # removed): only solid 5x5 blocks of changed pixels count
            badm = solid3(solid3(badm))
        n = int(badm.sum())
        if out_jpeg and not n:
            ctx.maxdiff = max(ctx.maxdiff, int(diff[m].max()))
        if n > 0:
            p = first_bad(badm)
            role = '+'.join((['layer'] if lf in oracles else []) + (['global'] if go_g is not None else [])) or 'none'
            viol(ctx, probe, dict(mech0, clause='inside_content_lost', role=role,
                                  alpha='partial' if 0 < rarr[p[1], p[0], 3] < 255 else 'opaque', **gmech(gates, frame)),
                 '%d of %d pixels of layer %s that lie more than %.0f px inside the permitted area (%r) differ from the '
                 'unrestricted response by more than %d, first at %r: restricted %r unrestricted %r; bad pixels span columns %d-%d '
                 'rows %d-%d' % (
                     n, nk, lf, d_keep, [(gg['cls'], gg['form'], gg['srs']) for gg in gates], tol, p, arr[p[1], p[0]].tolist(),
                     rarr[p[1], p[0]].tolist(), int(np.where(badm)[1].min()), int(np.where(badm)[1].max()),
                     int(np.where(badm)[0].min()), int(np.where(badm)[0].max())))
    run.hit('must_keep_pixels', nkeep)
    if len(run.samples) < 2 and (limits or glimit) and nkeep and (nclear + nbg):
        run.sample({'service': 'wms_map', 'url': ctx.url, 'callback_result': probe['auth'], 'status': r.code,
                    'must_be_clear_pixels': nclear + nbg, 'must_keep_pixels': nkeep, 'upstream_layers_called': sorted(called)})


def fi_present(body, upn):
    return ('layer=%s ' % upn).encode() in body


def judge_fi_layers(ctx, probe, svc, auth, r, calls, frame, leaves, feature, extra_mech):
    """shared part of WMS / WMTS feature info: which layers' info must / must not be in a 200 response"""
    run = ctx.run
    req = probe['req']
    px, py = req['pos'][0] + 0.5, req['pos'][1] + 0.5
    fi_called = called_layers(calls, 'featureinfo')
    any_called = called_layers(calls)
    for lf in leaves:
        leaf, upn, code = layer_meta(ctx, lf)
        present = r.code == 200 and fi_present(r.body, upn)
        if not auth.permitted(lf, feature):
            run.hit('denied_checks')
            run.hit('no_upstream_for_denied_checks')
            run.hit('featureinfo_denied')
            if present or upn in any_called:
                viol(ctx, probe, dict(extra_mech, service=svc, clause='featureinfo_for_denied_layer', in_response=bool(present)),
                     'layer %s is denied (%s) but %s' % (lf, feature, 'its info text is in the response %r' % r.body[:200]
                                                         if present else 'upstream was asked: %r' % [c.url[:160] for c in calls][:2]))
            continue
        gates = []
        if svc == 'wms_fi':
            gates = [g for g in (auth.layer_limit(lf), auth.global_limit()) if g]
            roles = (['layer'] if auth.layer_limit(lf) else []) + (['global'] if auth.global_limit() else [])
        else:
            # tile services: the layer's geometry and the request-wide geometry both bind (property text)
            gates = [g for g in (auth.layer_limit(lf), auth.global_limit()) if g]
            roles = (['layer'] if auth.layer_limit(lf) else []) + (
                ['global_with_layer_limit' if auth.layer_limit(lf) else 'global'] if auth.global_limit() else [])
        if r.code != 200:
            continue
        if not gates:
            run.hit('featureinfo_unlimited')
            if not present:
                viol(ctx, probe, dict(extra_mech, service=svc, clause='featureinfo_missing_for_permitted_layer'),
                     'layer %s is permitted without limit, but its info is not in the response %r' % (lf, r.body[:200]))
            continue
        pcs = []
        for g in gates:
            go = GeomOracle(g, frame)
            pcs.append(go.point_class(px, py, 1.0) if go.ok else 'band')
        cls = (svc, 'gate', tuple(geom_class(g, frame) for g in gates), tuple(pcs), ctx.spec['shape'])
        if 'outside' in pcs:
            run.judge(cls)
            run.hit('featureinfo_outside')
            if present:
                k = pcs.index('outside')
                g = gates[k]
                viol(ctx, probe, dict(extra_mech, service=svc, clause='featureinfo_outside_returned', role=roles[k],
                                      srs_rel='same' if g['srs'] == frame.srs else 'other'),
                     'click pixel %r lies more than 1 px outside the %s geometry (%s, %s) of %s, but the response carries '
                     'the info of layer %s: %r' % (req['pos'], g['cls'], g['form'], g['srs'], roles[k], lf, r.body[:200]))
        elif all(p == 'inside' for p in pcs):
            run.judge(cls)
            run.hit('featureinfo_inside')
            if not present:
                g = gates[0]
                viol(ctx, probe, dict(extra_mech, service=svc, clause='featureinfo_inside_not_returned', role='+'.join(roles),
                                      **gmech(gates, frame)),
                     'click pixel %r lies more than 1 px inside every geometry (%r) that limits layer %s, but its info is '
                     'missing: %r (upstream feature info calls: %r)' % (
                         req['pos'], [(gg['cls'], gg['form'], gg['srs']) for gg in gates], lf, r.body[:200], sorted(fi_called)))
        else:
            run.dc('featureinfo_click_in_band')


def judge_wms_fi(ctx, probe, auth, r, ref, calls):
    run = ctx.run
    req = probe['req']
    tree = SHAPES[ctx.spec['shape']]
    frame = Frame(req['srs'], req['bbox'], req['size'])
    leaves = resolve(tree, req['query_layers'])
    mode = auth.spec['mode']
    denied = [lf for lf in leaves if not auth.permitted(lf, 'featureinfo')]
    same = sorted(req['query_layers']) == sorted(req['layers'])
    explicit = set(req['layers']) if same else set()
    if mode == 'unauthenticated':
        exp = (401,)
    elif any(lf in explicit for lf in denied):
        exp = (403,)
    elif denied:
        exp = (403, 200)           # implicit (or LAYERS != QUERY_LAYERS): rejected or silently dropped
    else:
        exp = (200,)
    run.judge(('wms_fi', cb_class(auth, leaves, 'featureinfo'), ctx.spec['shape'], same), nontrivial=(mode == 'partial'))
    judge_fi_layers(ctx, probe, 'wms_fi', auth, r if r.code in exp else scenario.Response('0 x', [], b''), calls, frame,
                    leaves, 'featureinfo', {})
    why = 'callback said %s' % mode if mode != 'partial' else 'layers %r are denied (featureinfo)' % (denied,)
    if not check_status(ctx, probe, 'wms_fi', r, exp, why if (denied or mode != 'partial') else ''):
        return
    if r.code != 200:
        run.hit('rejected_as_expected')


def judge_wmts_fi(ctx, probe, auth, r, ref, calls):
    run = ctx.run
    req = probe['req']
    name = req['layer']
    leaf = ctx.spec['leaves'][name]
    frame = tile_frame(leaf, req['z'], req['x'], req['y'], True)
    mode = auth.spec['mode']
    ok = auth.permitted(name, 'featureinfo')
    exp = (401,) if mode == 'unauthenticated' else ((200,) if ok else (403,))
    run.judge((probe['service'], cb_class(auth, [name], 'featureinfo'), leaf['grid'], leaf['origin']), nontrivial=(mode == 'partial'))
    extra = {'grid_origin': leaf['origin']}
    judge_fi_layers(ctx, probe, 'wmts_fi', auth, r if r.code in exp else scenario.Response('0 x', [], b''), calls, frame,
                    [name], 'featureinfo', extra)
    if not check_status(ctx, probe, 'wmts_fi', r, exp, '' if ok else 'layer %s is denied (featureinfo), callback said %s' % (name, mode)):
        return
    if r.code != 200:
        run.hit('rejected_as_expected')


def judge_tile(ctx, probe, auth, r, ref, calls):
    run = ctx.run
    svc = probe['service']
    req = probe['req']
    name = req['layer']
    leaf, upn, code = layer_meta(ctx, name)
    nw = tile_rows_from_top(svc, leaf)
    frame = tile_frame(leaf, req['z'], req['x'], req['y'], nw)
    mode = auth.spec['mode']
    ok = auth.permitted(name, 'tile')
    qe = [c[2] for c in auth.calls if c[2]]
    if qe and max(abs(a - b) for a, b in zip(qe[0][1], frame.bbox)) > 1e-6 * abs(frame.bbox[2] - frame.bbox[0]):
        run.count('query_extent_differs_from_address_rectangle:' + svc)
    exp = (401,) if mode == 'unauthenticated' else ((200,) if ok else (403,))
    family = {'tms': 'tms', 'tiles': 'tms', 'tiles_nw': 'tms', 'wmts_kvp': 'wmts', 'wmts_rest': 'wmts', 'kml': 'kml', 'kml_doc': 'kml'}[svc]
    run.hit('family_' + family)
    limits = []
    if ok and mode == 'partial':
        if auth.layer_limit(name):
            limits.append(('layer', auth.layer_limit(name)))
        if auth.global_limit():
            limits.append(('global_with_layer_limit' if auth.layer_limit(name) else 'global', auth.global_limit()))
    cls = (svc, cb_class(auth, [name], 'tile'), tuple(geom_class(g, frame) for _, g in limits), leaf['kind'], leaf['grid'],
           leaf['origin'])
    run.judge(cls, nontrivial=(mode == 'partial'))
    mech0 = {'service': family, 'cache': leaf['kind']}
    if svc == 'kml_doc':
        mech0['document'] = True
    called = called_layers(calls)
    if not ok:
        run.hit('denied_checks')
        run.hit('no_upstream_for_denied_checks')
        if called:
            viol(ctx, probe, dict(mech0, clause='upstream_call_for_denied_layer'),
                 'tile layer %s is denied (callback %s) but upstream was called: %r' % (name, mode, [c.url[:160] for c in calls][:2]))
    if not check_status(ctx, probe, family, r, exp, '' if ok else 'layer %s is denied (tile), callback said %s' % (name, mode)):
        return
    if r.code != 200:
        run.hit('rejected_as_expected')
        return
    if svc == 'kml_doc':
        run.hit('kml_documents_allowed')
        return
    try:
        arr = rgba(r)
    except Exception:
        run.dc('undecodable_response')
        return
    if arr.shape[:2] != (TILE, TILE):
        run.dc('wrong_size_response')
        return
    img_mode = r.image().mode
    has_alpha = img_mode in ('RGBA', 'LA') or 'transparency' in r.image().info
    out = (r.content_type.split('/')[-1] or '?') + ('_alpha' if has_alpha else '')
    mech0['out'] = out
    oracles = []
    for role, g in limits:
        go = GeomOracle(g, frame)
        if not go.ok:
            run.dc('geometry_not_transformable')
            return
        oracles.append((role, g, go))
    lossy_out = 'jpeg' in r.content_type
    d_clear = CLEAR_PX + (JPEG_EXTRA if lossy_out else 0.0)
    d_keep = KEEP_PX + (JPEG_EXTRA if lossy_out else 0.0)
    nclear = 0
    for role, g, go in oracles:
        clear = go.outside(d_clear)
        nc = int(clear.sum())
        nclear += nc
        if not nc:
            continue
        if has_alpha:
            badm = clear & (arr[..., 3] != 0)
        else:
            tol = JPEG_BG_TOL if lossy_out else 0
            badm = clear & (np.abs(arr[..., :3].astype(np.int16) - 255).max(axis=2) > tol)
        n = int(badm.sum())
        if n:
            p = first_bad(badm)
            viol(ctx, probe, dict(mech0, clause='outside_not_background', role=role, **gmech([g], frame)),
                 '%d of %d tile pixels more than %.1f px outside the %s geometry (%s, %s, %s) are not %s, first at %r = %r; '
                 'response is %s mode %s' % (n, nc, d_clear, role, g['cls'], g['form'], g['srs'],
                                             'fully transparent' if has_alpha else 'white', p, arr[p[1], p[0]].tolist(),
                                             r.content_type, img_mode))
    run.hit('must_be_clear_pixels', nclear)
    if limits:
        run.hit('limited_tile_checks')
    if ref.code != 200:
        run.dc('reference_failed_%d' % ref.code)
        return
    try:
        rarr = rgba(ref)
    except Exception:
        run.dc('reference_undecodable')
        return
    rcodes = classify(rarr)
    keep = (rcodes == code)
    if leaf['kind'] == 'cache_jpeg':
        # a limited tile of a jpeg layer is a png made from the tile before jpeg encoding when the tile was just created:
        # half transparent source pixels stay half transparent there but are opaque in the jpeg -> not comparable
        keep = solid3(keep) & ((arr[..., 3] == 0) | (arr[..., 3] == 255))
    for role, g, go in oracles:
        keep &= go.inside(d_keep)
    nkeep = int(keep.sum())
    run.hit('must_keep_pixels', nkeep)
    if nkeep:
        diff = np.abs(arr.astype(np.int16) - rarr.astype(np.int16)).max(axis=2)
        tol = JPEG_TOL if (lossy_out or leaf['kind'] == 'cache_jpeg') else PNG_TOL
        badm = keep & (diff > tol)
        n = int(badm.sum())
        if n:
            p = first_bad(badm)
            viol(ctx, probe, dict(mech0, clause='inside_content_lost', role='+'.join(x[0] for x in limits) or 'none',
                                  alpha='partial' if 0 < rarr[p[1], p[0], 3] < 255 else 'opaque', **gmech([x[1] for x in limits], frame)),
                 '%d of %d tile pixels more than %.0f px inside the permitted area (%r) differ from the unrestricted tile by more '
                 'than %d, first at %r: restricted %r unrestricted %r' % (
                     n, nkeep, d_keep, [(x[1]['cls'], x[1]['form'], x[1]['srs']) for x in limits], tol, p, arr[p[1], p[0]].tolist(),
                     rarr[p[1], p[0]].tolist()))
    if len(run.samples) < 4 and limits and nkeep and nclear:
        run.sample({'service': svc, 'url': ctx.url, 'callback_result': probe['auth'], 'status': r.code, 'content_type': r.content_type,
                    'must_be_clear_pixels': nclear, 'must_keep_pixels': nkeep})


# ---------------------------------------------------------------------------------------------------------------------
# cases
# ---------------------------------------------------------------------------------------------------------------------

def evidence_extra(total):
    m = total.monitors
    return {'upstream': 'LAYERS (colour families, ground anchored cells, one half transparent layer per scenario)',
            'pixels_judged': m.get('must_be_clear_pixels', 0) + m.get('must_keep_pixels', 0),
            'per_service_requests': {k[4:]: v for k, v in m.items() if k.startswith('svc_')}}


def gen_cases(run):
    n = run.pick(1600, 30000)
    for i in range(n):
        yield {'i': i}


def concurrent_phase(ctx, probes):
    """what one client may see must not depend on what other clients, with other rights, ask at the same moment. Every probe
    of the scenario (its URL with its own callback, and the same URL with an all-allowing callback) is answered once more
    alone, then all of them are issued from four real threads at once (interpreter switch interval 1 microsecond); every
    concurrent answer must be byte-identical to the answer given alone. Caches are warm; answers that are not repeatable
    when alone are left out."""
    import threading
    run = ctx.run
    items = []
    for p in probes:
        svc, req = p['service'], p['req']
        url = wms_url(req, fi=(svc == 'wms_fi')) if svc in ('wms_map', 'wms_fi') else tile_url(svc, req, ctx.spec['leaves'][req['layer']])
        items.append((url, p['auth'], svc))
        items.append((url, None, svc))

    def get(it):
        cb = Auth(it[1]) if it[1] is not None else full_auth
        r = wsgi_call(ctx.sc.app, it[0], cb)
        return r.code, r.body
    try:
        ref = [get(it) for it in items]
        again = [get(it) for it in items]
    except Exception as ex:
        run.dc('concurrent_phase_reference_failed:' + type(ex).__name__)
        return
    stable = [i for i in range(len(items)) if ref[i] == again[i]]
    if len(stable) < len(items):
        run.count('answers_not_repeatable_when_alone', len(items) - len(stable))
    if len(stable) < 2:
        return
    diffs = []
    lock = threading.Lock()
    nthreads = 4
    start = threading.Barrier(nthreads)

    def client(k):
        order = (stable[k:] + stable[:k]) * 2
        try:
            start.wait(20)
            for i in order:
                got = get(items[i])
                if got != ref[i]:
                    with lock:
                        diffs.append((i, got))
        except Exception as ex:
            with lock:
                diffs.append((-1, (0, repr(ex).encode())))
    old_switch = sys.getswitchinterval()
    sys.setswitchinterval(1e-6)
    try:
        ths = [threading.Thread(target=client, args=(k,)) for k in range(nthreads)]
        for t in ths:
            t.start()
        for t in ths:
            t.join(180)
    finally:
        sys.setswitchinterval(old_switch)
        ctx.up.reset_log()
    run.hit('concurrent_rounds')
    run.hit('concurrent_answers_compared', len(stable) * 2 * nthreads)
    if diffs:
        i, got = diffs[0]
        if i < 0:
            detail = 'exception %r' % (got[1][:300],)
            mech = {'service': 'any', 'clause': 'request_raised_under_concurrency'}
        else:
            detail = '%s with %s: alone %d (%d bytes), concurrently %d (%d bytes)' % (
                items[i][0], 'its own callback ' + json.dumps(items[i][1])[:400] if items[i][1] is not None else 'the all-allowing callback',
                ref[i][0], len(ref[i][1]), got[0], len(got[1]))
            mech = {'service': items[i][2], 'clause': 'answer_differs_under_concurrency', 'restricted_client': items[i][1] is not None,
                    'status_changed': got[0] != ref[i][0]}
        run.violation(mech, {'i': ctx.case.get('i'), 'scen': ctx.spec, 'probes': probes},
                      '%d of %d concurrently issued requests were answered differently from the same request issued alone; first: %s' % (
                          len(diffs), len(stable) * 2 * nthreads, detail))


def run_case(run, case):
    rng = run.rng('case', case.get('i'))
    spec = case.get('scen') or gen_scenario(rng)
    d = run.subdir('c10')
    try:
        ctx = Ctx()
        ctx.run, ctx.case, ctx.spec = run, case, spec
        ctx.errors = []
        ctx.maxdiff = 0
        ctx.sc = build(spec, d)
        ctx.up = upstream.install()
        run.hit('scenarios')
        run.count('shape:' + spec['shape'])
        probes = case.get('probes')
        executed = []
        if probes is None:
            nprobe = run.pick(5, 8)
            for j in range(nprobe):
                if run.out_of_time():
                    break
                p = gen_probe(run.rng('probe', case['i'], j), spec)
                exec_probe(ctx, p)
                executed.append(p)
        else:
            for p in probes:
                exec_probe(ctx, p)
                executed.append(p)
        if len(executed) >= 2 and (case.get('i', 0) % 4 == 0 or run.replaying):
            concurrent_phase(ctx, executed)
        if ctx.maxdiff:
            run.count('jpeg_keep_maxdiff_ge_%d' % (ctx.maxdiff // 16 * 16))
        for e in ctx.errors[:1]:
            if len(run.samples) < 6:
                run.sample({'error_response': e[0], 'url': e[1], 'body': e[2].decode('latin-1')})
    finally:
        shutil.rmtree(d, ignore_errors=True)


if __name__ == '__main__':
    core.main(sys.modules[__name__])
