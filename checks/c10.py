"""C10 - authorization is enforced: denied layers stay dark, limited areas are clipped.

Every case builds a generated layer tree (groups, nested groups, group with own sources; cascaded and cached leaves,
png and jpeg caches, three grid SRS) on top of a LAYERS upstream (every upstream layer = opaque cells of one colour
family on a ground-anchored chequer pattern, alpha is 0 or 255 only, so the layer that shows at a pixel can be read
off the pixel).  A generated `mapproxy.authorize` callback (full / none / unauthenticated / partial with per-layer
flags, per-layer and global limited_to as bbox list / WKT / shapely geometry in the request SRS or another one) is put
into the WSGI environ; every probe is executed twice: with that callback and with an all-allowing one (reference).

The oracle never looks at mapproxy's coverage / mask code: geometry is transformed with pyproj (vertex-wise and densified),
rasterised with shapely on pixel centres after geometric buffering in pixel space, layers are recognised by colour
family, upstream calls by their LAYERS / QUERY_LAYERS parameter."""
import io
import math
import re
import shutil
import sys
import urllib.parse
from wsgiref.util import setup_testing_defaults

import numpy as np

from vlib import core, upstream, scenario

PID = 'C10'
LEVEL = 'exploration'
BUDGET_S = {'quick': 42, 'thorough': 660}
FLOORS = {'quick': {}, 'thorough': {}}
RULE = "tbd"
ASSUMPTIONS = []

# ---------------------------------------------------------------------------------------------------------------------
# LAYERS upstream
# ---------------------------------------------------------------------------------------------------------------------
# colour family of upstream layer u<k>: which channels are high (190..250), the others are low (0..50).
FAMILIES = [(1, 0, 0), (0, 1, 0), (0, 0, 1), (1, 1, 0), (1, 0, 1), (0, 1, 1)]
HI_MIN, LO_MAX = 165, 75        # classification thresholds (pattern itself: high >= 190, low <= 50)
SRS_ID = {'EPSG:4326': 1, 'EPSG:3857': 2, 'EPSG:900913': 2, 'EPSG:25832': 3}


def _hash(k, i, j, o, s):
    M = np.uint64(0xFFFFFFFFFFFFFFFF)
    h = (i.astype(np.int64).astype(np.uint64) * np.uint64(73856093)) ^ (j.astype(np.int64).astype(np.uint64) * np.uint64(19349663))
    h = h ^ np.uint64(((k + 1) * 83492791 + (o + 64) * 2654435761 + s * 40503) & 0xFFFFFFFFFFFF)
    h = h & M
    h ^= (h >> np.uint64(13))
    h = (h * np.uint64(0x5bd1e995)) & M
    h ^= (h >> np.uint64(15))
    h = (h * np.uint64(0x2545F491)) & M
    h ^= (h >> np.uint64(17))
    return h


def layer_pattern(k, srs, bbox, size):
    """RGBA uint8 (h, w, 4) of upstream layer k for the request rectangle; alpha in {0, 255}; ground anchored cells of
    8 * 2^round(log2(res)) SRS units"""
    w, h = size
    rx = (bbox[2] - bbox[0]) / w
    ry = (bbox[3] - bbox[1]) / h
    o = int(round(math.log2(max(min(rx, ry), 1e-12))))
    cell = 8.0 * 2.0 ** o
    xc = bbox[0] + (np.arange(w, dtype=np.float64) + 0.5) * rx
    yc = bbox[3] - (np.arange(h, dtype=np.float64) + 0.5) * ry
    i = np.floor(xc / cell).astype(np.int64)
    j = np.floor(yc / cell).astype(np.int64)
    I = np.broadcast_to(i[None, :], (h, w))
    J = np.broadcast_to(j[:, None], (h, w))
    hh = _hash(k, I, J, o, SRS_ID.get(srs.upper(), 9))
    out = np.zeros((h, w, 4), dtype=np.uint8)
    opaque = (hh & np.uint64(7)) < np.uint64(5)
    hi = (190 + ((hh >> np.uint64(8)) % np.uint64(61))).astype(np.uint8)
    hi2 = (190 + ((hh >> np.uint64(20)) % np.uint64(61))).astype(np.uint8)
    lo = ((hh >> np.uint64(32)) % np.uint64(51)).astype(np.uint8)
    lo2 = ((hh >> np.uint64(44)) % np.uint64(51)).astype(np.uint8)
    fam = FAMILIES[k % len(FAMILIES)]
    his = [hi, hi2, hi]
    los = [lo, lo2, lo2]
    for c in range(3):
        out[..., c] = his[c] if fam[c] else los[c]
    out[..., 3] = np.where(opaque, 255, 0).astype(np.uint8)
    out[~opaque, :3] = 255
    return out


def _bgcolor(s):
    s = (s or '0xffffff').lower().replace('#', '').replace('0x', '')
    try:
        return tuple(int(s[n:n + 2], 16) for n in (0, 2, 4))
    except Exception:
        return (255, 255, 255)


class LayersWMS(object):
    """WMS upstream: LAYERS=u<k>[,u<m>...] composed bottom to top; GetFeatureInfo answers with a text naming layer
    and queried ground position"""

    def __call__(self, call):
        if call.kind not in ('getmap', 'featureinfo'):
            return upstream.Resp(b'<ServiceExceptionReport><ServiceException>unsupported</ServiceException></ServiceExceptionReport>',
                                 'application/vnd.ogc.se_xml', 200)
        try:
            q = upstream.parse_getmap(call)
            names = [n for n in q['layers'] if n]
            ks = [int(n[1:]) for n in names]
        except Exception as ex:
            call.extra['bad'] = repr(ex)
            return upstream.Resp(('<ServiceExceptionReport><ServiceException>bad request %s</ServiceException></ServiceExceptionReport>' % ex).encode(),
                                 'application/vnd.ogc.se_xml', 200)
        call.extra['q'] = q
        call.extra['layers'] = names
        if call.kind == 'featureinfo':
            p = call.params
            qn = [n for n in p.get('query_layers', '').split(',') if n]
            px = float(p.get('x', p.get('i', 'nan')))
            py = float(p.get('y', p.get('j', 'nan')))
            w, h = q['size']
            gx = q['bbox'][0] + (px + 0.5) * (q['bbox'][2] - q['bbox'][0]) / w
            gy = q['bbox'][3] - (py + 0.5) * (q['bbox'][3] - q['bbox'][1]) / h
            call.extra['query_layers'] = qn
            call.extra['ground'] = (q['srs'], gx, gy)
            call.extra['layers'] = sorted(set(names) | set(qn))
            body = ''.join('FI layer=%s srs=%s gx=%.6f gy=%.6f;\n' % (n, q['srs'], gx, gy) for n in qn)
            return upstream.Resp(body.encode(), 'text/plain')
        w, h = q['size']
        if w <= 0 or h <= 0 or w * h > 4096 * 4096:
            return upstream.Resp(b'<ServiceExceptionReport><ServiceException>size</ServiceException></ServiceExceptionReport>',
                                 'application/vnd.ogc.se_xml', 200)
        acc = None
        for k in ks:
            img = layer_pattern(k, q['srs'] or '', q['bbox'], q['size'])
            if acc is None:
                acc = img
            else:
                m = img[..., 3] == 255
                acc = acc.copy()
                acc[m] = img[m]
        fmt = (q['format'] or 'image/png').split(';')[0]
        if not q['transparent'] or 'jpeg' in fmt:
            bg = np.array(_bgcolor(q['bgcolor']), dtype=np.uint8)
            rgb = acc[..., :3].copy()
            rgb[acc[..., 3] == 0] = bg
            return upstream.Resp(upstream.encode(rgb, fmt), fmt)
        return upstream.Resp(upstream.encode(acc, 'image/png'), 'image/png')


# ---------------------------------------------------------------------------------------------------------------------
# scenario: layer tree, sources, caches, grids
# ---------------------------------------------------------------------------------------------------------------------
TILE = 128
GRIDS = {
    'g3857': {'srs': 'EPSG:3857', 'bbox': [400000.0, 5800000.0, 400000.0 + 1572864.0, 5800000.0 + 1572864.0], 'r0': 12288.0},
    'g4326': {'srs': 'EPSG:4326', 'bbox': [4.0, 44.0, 16.0, 56.0], 'r0': 0.09375},
    'g25832': {'srs': 'EPSG:25832', 'bbox': [150000.0, 5000000.0, 150000.0 + 1048576.0, 5000000.0 + 1048576.0], 'r0': 8192.0},
}
NLEVELS = 8
WMS_SRS = ['EPSG:4326', 'EPSG:3857', 'EPSG:25832']

SHAPES = {
    # name -> (tree, names with own sources).  tree node = [name, has_sources, [children]]
    'flat': [['a', True, []], ['b', True, []], ['c', True, []], ['d', True, []]],
    'group': [['G', False, [['a', True, []], ['b', True, []]]], ['c', True, []], ['d', True, []]],
    'nested': [['G', False, [['H', False, [['a', True, []], ['b', True, []]]], ['c', True, []]]], ['d', True, []]],
    'group_this': [['G', True, [['a', True, []], ['b', True, []]]], ['c', True, []], ['d', True, []]],
    'nested_this': [['G', False, [['H', True, [['a', True, []]]], ['b', True, []], ['c', True, []]]], ['d', True, []]],
}


def walk(tree):
    for node in tree:
        yield node
        for n in walk(node[2]):
            yield n


def gen_scenario(rng):
    shape = rng.choice(sorted(SHAPES))
    tree = SHAPES[shape]
    srcnames = [n[0] for n in walk(tree) if n[1]]
    kinds = ['cache_png', 'cache_jpeg', 'direct']
    rng.shuffle(kinds)
    leaves = {}
    for idx, name in enumerate(srcnames):
        kind = kinds[idx] if idx < 3 else rng.choice(['cache_png', 'cache_jpeg', 'direct', 'direct'])
        leaf = {'up': 'u%d' % idx, 'kind': kind, 'host': rng.choice(['lay', 'lay', 'lay2'])}
        if kind == 'direct':
            # (a source without supported_srs next to one with it makes combined_layers() raise: side observation)
            leaf['supported_srs'] = rng.choice([list(WMS_SRS), list(WMS_SRS), ['EPSG:4326'], ['EPSG:25832'], ['EPSG:3857'],
                                                ['EPSG:4326', 'EPSG:3857']])
        else:
            leaf['grid'] = rng.choice(sorted(GRIDS))
            leaf['origin'] = rng.choice(['ll', 'ul'])
            leaf['store'] = rng.random() < 0.5
            leaf['meta'] = rng.choice([[1, 1], [1, 1], [2, 2]])
            leaf['meta_buffer'] = rng.choice([0, 0, 16])
        leaves[name] = leaf
    return {'shape': shape, 'leaves': leaves, 'resampling': rng.choice(['nearest', 'nearest', 'nearest', 'bilinear'])}


def build(spec, d):
    conf = scenario.base_conf(image={'resampling_method': spec['resampling']})
    tree = SHAPES[spec['shape']]
    used_grids = set()
    for name, leaf in spec['leaves'].items():
        src = {'type': 'wms', 'req': {'url': 'http://%s/service?' % leaf['host'], 'layers': leaf['up'], 'transparent': True},
               'wms_opts': {'featureinfo': True, 'version': '1.1.1'}}
        if leaf.get('supported_srs'):
            src['supported_srs'] = list(leaf['supported_srs'])
        conf['sources']['s_' + name] = src
        if leaf['kind'] != 'direct':
            gname = '%s_%s' % (leaf['grid'], leaf['origin'])
            used_grids.add((gname, leaf['grid'], leaf['origin']))
            fmt = 'image/png' if leaf['kind'] == 'cache_png' else 'image/jpeg'
            c = {'grids': [gname], 'sources': ['s_' + name], 'format': fmt, 'request_format': 'image/png',
                 'meta_size': list(leaf['meta']), 'meta_buffer': leaf['meta_buffer']}
            if not leaf['store']:
                c['disable_storage'] = True
            conf['caches']['c_' + name] = c
    for gname, g, origin in used_grids:
        G = GRIDS[g]
        conf['grids'][gname] = {'srs': G['srs'], 'bbox': list(G['bbox']), 'origin': origin, 'tile_size': [TILE, TILE],
                                'res': [G['r0'] / 2 ** z for z in range(NLEVELS)]}

    def lyr(node):
        name, has_src, children = node
        e = {'name': name, 'title': 'layer ' + name}
        if has_src:
            leaf = spec['leaves'][name]
            e['sources'] = ['s_' + name if leaf['kind'] == 'direct' else 'c_' + name]
        if children:
            e['layers'] = [lyr(c) for c in children]
        return e
    conf['layers'] = [lyr(n) for n in tree]
    conf['services'] = {
        'tms': {}, 'kml': {},
        'wmts': {'restful': True, 'kvp': True, 'featureinfo_formats': [{'mimetype': 'text/plain', 'suffix': 'txt'}]},
        'wms': {'srs': list(WMS_SRS), 'image_formats': ['image/png', 'image/jpeg'], 'md': {'title': 'c10'},
                'featureinfo_types': ['text', 'html', 'xml']},
    }
    sc = scenario.Scenario(d, conf)
    up = upstream.install()
    h = LayersWMS()
    up.register('lay', h)
    up.register('lay2', h)
    return sc


def wsgi_call(app, path_qs, authorize=None):
    """GET at the raw WSGI boundary with the authorization callback in the environ"""
    path, _, qs = path_qs.partition('?')
    environ = {}
    setup_testing_defaults(environ)
    environ['REQUEST_METHOD'] = 'GET'
    environ['SCRIPT_NAME'] = ''
    environ['PATH_INFO'] = urllib.parse.unquote(path, encoding='latin-1')
    environ['QUERY_STRING'] = qs
    environ['SERVER_NAME'] = 'localhost'
    environ['HTTP_HOST'] = 'localhost'
    if authorize is not None:
        environ['mapproxy.authorize'] = authorize
    got = {'n': 0}

    def start_response(status, hdrs, exc_info=None):
        got['n'] += 1
        got['status'] = status
        got['headers'] = hdrs
        return lambda data: None
    it = app(environ, start_response)
    try:
        chunks = list(it)
    finally:
        if hasattr(it, 'close'):
            it.close()
    return scenario.Response(got.get('status'), got.get('headers', []), b''.join(chunks), start_calls=got['n'])


# ---------------------------------------------------------------------------------------------------------------------
# geometry: generation in the pixel space of a request frame, oracle rasterisation (pyproj + shapely only)
# ---------------------------------------------------------------------------------------------------------------------
_TR = {}


def transformer(a, b):
    import pyproj
    k = (a, b)
    if k not in _TR:
        _TR[k] = pyproj.Transformer.from_crs(a, b, always_xy=True)
    return _TR[k]


class Frame(object):
    """a rectangle of ground in an SRS rendered to w x h pixels"""

    def __init__(self, srs, bbox, size):
        self.srs = srs
        self.bbox = tuple(float(v) for v in bbox)
        self.size = (int(size[0]), int(size[1]))
        self.rx = (self.bbox[2] - self.bbox[0]) / self.size[0]
        self.ry = (self.bbox[3] - self.bbox[1]) / self.size[1]

    def from_px(self, px, py):
        return self.bbox[0] + px * self.rx, self.bbox[3] - py * self.ry

    def to_px_arrays(self, X, Y):
        return (np.asarray(X) - self.bbox[0]) / self.rx, (self.bbox[3] - np.asarray(Y)) / self.ry


def _star(rng, cx, cy, rmin, rmax, n=None):
    n = n or rng.randint(5, 9)
    angs = sorted(rng.uniform(0, 2 * math.pi) for _ in range(n))
    # keep the polygon star shaped and not degenerate: spread the angles
    angs = [2 * math.pi * (i + rng.uniform(0.15, 0.85)) / n for i in range(n)]
    return [(cx + math.cos(a) * r, cy + math.sin(a) * r) for a, r in ((a, rng.uniform(rmin, rmax)) for a in angs)]


GEOM_CLASSES = ['box', 'poly', 'hole', 'hole_island_first', 'hole_island_last', 'multi', 'sliver', 'partly', 'outside',
                'cover', 'multi_lines', 'overlap_lines']


def gen_polys_px(rng, cls, w, h):
    """list of WKT 'lines', each a list of polygons [(exterior, [holes])] in pixel space"""
    m = float(min(w, h))
    if cls == 'box':
        x0, y0 = rng.uniform(0.05, 0.45) * w, rng.uniform(0.05, 0.45) * h
        x1, y1 = rng.uniform(0.55, 0.95) * w, rng.uniform(0.55, 0.95) * h
        return [[([(x0, y0), (x1, y0), (x1, y1), (x0, y1)], [])]]
    if cls == 'poly':
        return [[(_star(rng, rng.uniform(0.3, 0.7) * w, rng.uniform(0.3, 0.7) * h, 0.2 * m, 0.48 * m), [])]]
    if cls in ('hole', 'hole_island_first', 'hole_island_last'):
        cx, cy = rng.uniform(0.4, 0.6) * w, rng.uniform(0.4, 0.6) * h
        R = rng.uniform(0.42, 0.55) * m
        outer = (_star(rng, cx, cy, 0.75 * R, R, rng.randint(6, 10)), [_star(rng, cx, cy, 0.45 * R, 0.6 * R)[::-1]])
        if cls == 'hole':
            return [[outer]]
        island = (_star(rng, cx, cy, 0.2 * R, 0.32 * R), [])
        return [[island, outer] if cls == 'hole_island_first' else [outer, island]]
    if cls in ('multi', 'multi_lines'):
        cs = [(0.25, 0.28), (0.72, 0.6), (0.3, 0.8)][:rng.randint(2, 3)]
        polys = [(_star(rng, a * w, b * h, 0.1 * m, 0.19 * m), []) for a, b in cs]
        if cls == 'multi':
            return [polys]
        return [[p] for p in polys[:1]] + [polys[1:]]
    if cls == 'overlap_lines':
        c1 = (rng.uniform(0.3, 0.45) * w, rng.uniform(0.35, 0.65) * h)
        c2 = (c1[0] + 0.2 * m, c1[1] + rng.uniform(-0.1, 0.1) * m)
        return [[(_star(rng, c1[0], c1[1], 0.22 * m, 0.3 * m), [])], [(_star(rng, c2[0], c2[1], 0.22 * m, 0.3 * m), [])]]
    if cls == 'sliver':
        t = rng.uniform(0.15, 1.6)
        if rng.random() < 0.5:
            y1, y2 = rng.uniform(0.1, 0.9) * h, rng.uniform(0.1, 0.9) * h
            return [[([(-10.0, y1), (w + 10.0, y2), (w + 10.0, y2 + t), (-10.0, y1 + t * rng.uniform(0.0, 1.0))], [])]]
        x1, x2 = rng.uniform(0.1, 0.9) * w, rng.uniform(0.1, 0.9) * w
        return [[([(x1, -10.0), (x1 + t, -10.0), (x2 + t * rng.uniform(0.0, 1.0), h + 10.0), (x2, h + 10.0)], [])]]
    if cls == 'partly':
        cx = rng.choice([0.0, 1.0, rng.uniform(0, 1)]) * w
        cy = rng.choice([0.0, 1.0]) * h if 0 < cx < w else rng.uniform(0, 1) * h
        return [[(_star(rng, cx, cy, 0.3 * m, 0.6 * m), [])]]
    if cls == 'outside':
        dx, dy = rng.choice([(2.2, 0.5), (-1.2, 0.5), (0.5, 2.2), (0.5, -1.2), (2.0, 2.0)])
        return [[(_star(rng, dx * w, dy * h, 0.2 * m, 0.5 * m), [])]]
    if cls == 'cover':
        return [[([(-0.6 * w, -0.6 * h), (1.6 * w, -0.6 * h), (1.6 * w, 1.6 * h), (-0.6 * w, 1.6 * h)], [])]]
    raise ValueError(cls)


def _ring_wkt(ring):
    pts = list(ring) + [ring[0]]
    return '(' + ', '.join('%r %r' % (float(x), float(y)) for x, y in pts) + ')'


def _poly_wkt_body(ext, holes):
    return '(' + ', '.join([_ring_wkt(ext)] + [_ring_wkt(hh) for hh in holes]) + ')'


def gen_geomspec(rng, frame, cls=None, form=None, srs=None):
    """JSON-able limited_to description; the geometry is DEFINED in gs['srs'] by the vertices written out here"""
    form = form or rng.choice(['bbox', 'wkt', 'wkt', 'shapely', 'shapely'])
    if form == 'bbox':
        cls = rng.choice(['box', 'box', 'box', 'partly_box', 'outside_box', 'cover'])
    elif cls is None:
        pool = [c for c in GEOM_CLASSES if form == 'wkt' or c not in ('multi_lines', 'overlap_lines')]
        cls = rng.choice(pool)
    srs = srs or (frame.srs if rng.random() < 0.4 else rng.choice([s for s in WMS_SRS if s != frame.srs]))
    w, h = frame.size
    tr = transformer(frame.srs, srs) if srs != frame.srs else None

    def to_limit(ring):
        out = []
        for px, py in ring:
            X, Y = frame.from_px(px, py)
            if tr is not None:
                X, Y = tr.transform(X, Y)
            out.append((X, Y))
        return out
    if form == 'bbox':
        if cls == 'partly_box':
            x0, y0 = rng.uniform(-0.5, 0.3) * w, rng.uniform(-0.5, 0.3) * h
            ring = [(x0, y0), (x0 + 0.7 * w, y0), (x0 + 0.7 * w, y0 + 0.8 * h), (x0, y0 + 0.8 * h)]
        elif cls == 'outside_box':
            ring = [(1.6 * w, 0.2 * h), (2.4 * w, 0.2 * h), (2.4 * w, 0.9 * h), (1.6 * w, 0.9 * h)]
        else:
            ring = gen_polys_px(rng, cls, w, h)[0][0][0]
        pts = to_limit(ring)
        xs, ys = [p[0] for p in pts], [p[1] for p in pts]
        return {'cls': cls, 'form': 'bbox', 'srs': srs, 'bbox': [min(xs), min(ys), max(xs), max(ys)]}
    lines = []
    for polys in gen_polys_px(rng, cls, w, h):
        bodies = [_poly_wkt_body(to_limit(ext), [to_limit(hh) for hh in holes]) for ext, holes in polys]
        if len(bodies) == 1:
            lines.append('POLYGON' + bodies[0])
        else:
            lines.append('MULTIPOLYGON(' + ', '.join(bodies) + ')')
    return {'cls': cls, 'form': form, 'srs': srs, 'lines': lines}


def limited_to_value(gs):
    """what the authorization callback returns for this geometry"""
    import shapely.wkt
    from shapely.geometry import MultiPolygon
    if gs['form'] == 'bbox':
        return {'geometry': list(gs['bbox']), 'srs': gs['srs']}
    if gs['form'] == 'wkt':
        return {'geometry': '\n'.join(gs['lines']), 'srs': gs['srs']}
    geoms = [shapely.wkt.loads(ln) for ln in gs['lines']]
    if len(geoms) == 1:
        g = geoms[0]
    else:
        parts = []
        for g in geoms:
            parts.extend(list(g.geoms) if g.geom_type == 'MultiPolygon' else [g])
        g = MultiPolygon(parts)
    return {'geometry': g, 'srs': gs['srs']}


class GeomOracle(object):
    """U / I = union / intersection of the two defensible images of the geometry in the frame (vertex-wise transformed,
    densified then transformed), in PIXEL coordinates of the frame"""

    def __init__(self, gs, frame):
        import shapely
        import shapely.wkt
        import shapely.ops
        from shapely.geometry import box
        self.ok = True
        self.frame = frame
        if gs['form'] == 'bbox':
            polys = [box(*gs['bbox'])]
        else:
            polys = []
            for ln in gs['lines']:
                g = shapely.wkt.loads(ln)
                polys.extend(list(g.geoms) if g.geom_type == 'MultiPolygon' else [g])
        w, h = frame.size
        tr = transformer(gs['srs'], frame.srs) if gs['srs'] != frame.srs else None

        def image(dens):
            out = []
            for p in polys:
                if dens:
                    b = p.bounds
                    p = shapely.segmentize(p, max(max(b[2] - b[0], b[3] - b[1]) / 200.0, 1e-9))

                def ring(r):
                    xs, ys = np.asarray(r.coords.xy[0]), np.asarray(r.coords.xy[1])
                    if tr is not None:
                        xs, ys = tr.transform(xs, ys)
                        xs, ys = np.asarray(xs), np.asarray(ys)
                    if not (np.isfinite(xs).all() and np.isfinite(ys).all()):
                        raise ValueError('not transformable')
                    px, py = frame.to_px_arrays(xs, ys)
                    return list(zip(px.tolist(), py.tolist()))
                q = shapely.geometry.Polygon(ring(p.exterior), [ring(r) for r in p.interiors])
                if not q.is_valid:
                    q = shapely.make_valid(q)
                out.append(q)
            g = shapely.ops.unary_union(out)
            return g.intersection(box(-64, -64, w + 64, h + 64))
        try:
            A = image(False)
            B = image(True) if tr is not None else A
            self.U = A.union(B) if B is not A else A
            self.I = A.intersection(B) if B is not A else A
            self.band_px = float(self.U.symmetric_difference(self.I).area) if B is not A else 0.0
        except Exception as ex:
            self.ok = False
            self.err = repr(ex)
            return
        self._m = {}

    def _centres(self):
        w, h = self.frame.size
        X, Y = np.meshgrid(np.arange(w) + 0.5, np.arange(h) + 0.5)
        return X, Y

    def outside(self, d):
        """pixel centres outside U dilated by d px"""
        import shapely
        k = ('o', d)
        if k not in self._m:
            X, Y = self._centres()
            g = self.U.buffer(d)
            self._m[k] = ~shapely.contains_xy(g, X, Y) if not g.is_empty else np.ones(X.shape, dtype=bool)
        return self._m[k]

    def inside(self, d):
        """pixel centres inside I eroded by d px"""
        import shapely
        k = ('i', d)
        if k not in self._m:
            X, Y = self._centres()
            g = self.I.buffer(-d)
            self._m[k] = shapely.contains_xy(g, X, Y) if not g.is_empty else np.zeros(X.shape, dtype=bool)
        return self._m[k]

    def point_class(self, px, py, d=1.0):
        """'inside' (in I eroded by d), 'outside' (not in U dilated by d), 'band'"""
        from shapely.geometry import Point
        p = Point(px, py)
        if not self.I.is_empty and self.I.buffer(-d).contains(p):
            return 'inside'
        if self.U.is_empty or not self.U.buffer(d).contains(p):
            return 'outside'
        return 'band'


# ---------------------------------------------------------------------------------------------------------------------
# authorization callback from a JSON-able description
# ---------------------------------------------------------------------------------------------------------------------

class Auth(object):
    def __init__(self, spec):
        self.spec = spec
        self.calls = []
        if spec['mode'] == 'partial':
            res = {'authorized': 'partial', 'layers': {}}
            for name, p in spec['layers'].items():
                e = {}
                for f in ('map', 'featureinfo', 'tile'):
                    if f in p:
                        e[f] = p[f]
                if p.get('limited_to'):
                    e['limited_to'] = limited_to_value(p['limited_to'])
                res['layers'][name] = e
            if spec.get('limited_to'):
                res['limited_to'] = limited_to_value(spec['limited_to'])
        else:
            res = {'authorized': spec['mode']}
        self.result = res

    def __call__(self, service, layers=None, environ=None, **kw):
        self.calls.append((service, list(layers or []), kw.get('query_extent')))
        return self.result

    def permitted(self, name, feature):
        m = self.spec['mode']
        if m == 'full':
            return True
        if m != 'partial':
            return False
        return self.spec['layers'].get(name, {}).get(feature, False) is True

    def layer_limit(self, name):
        if self.spec['mode'] != 'partial':
            return None
        return self.spec['layers'].get(name, {}).get('limited_to')

    def global_limit(self):
        if self.spec['mode'] != 'partial':
            return None
        return self.spec.get('limited_to')


def full_auth(service, layers=None, environ=None, **kw):
    return {'authorized': 'full'}


# ---------------------------------------------------------------------------------------------------------------------
# probes: generation
# ---------------------------------------------------------------------------------------------------------------------
BGCOLORS = ['0xffffff', '0x000000', '0xe6e6e6', '0x1e1e1e']


def node_map(tree):
    return {n[0]: n for n in walk(tree)}


def resolve(tree, names):
    """leaf layers (layers with own sources) a list of requested names stands for, in order, unique.  A group with own
    sources stands for itself only."""
    nm = node_map(tree)

    def leaves(node):
        if node[1]:
            return [node[0]]
        out = []
        for c in node[2]:
            out.extend(leaves(c))
        return out
    res = []
    for n in names:
        for lf in leaves(nm[n]):
            if lf not in res:
                res.append(lf)
    return res


def gen_auth(rng, spec, frame, relevant):
    r = rng.random()
    if r < 0.07:
        return {'mode': 'full'}
    if r < 0.15:
        return {'mode': 'none'}
    if r < 0.22:
        return {'mode': 'unauthenticated'}
    layers = {}
    for name in [n[0] for n in walk(SHAPES[spec['shape']])]:
        rel = name in relevant
        if rng.random() < (0.04 if rel else 0.25):
            continue                     # missing entry = denied
        p = {}
        for f in ('map', 'featureinfo', 'tile'):
            x = rng.random()
            if x < (0.9 if rel else 0.7):
                p[f] = True
            elif x < 0.96:
                p[f] = False
        if rel and rng.random() < 0.5:
            p['limited_to'] = gen_geomspec(rng, frame)
        layers[name] = p
    a = {'mode': 'partial', 'layers': layers}
    if rng.random() < 0.3:
        a['limited_to'] = gen_geomspec(rng, frame)
    return a


def gen_wms_frame(rng):
    srs = rng.choice(WMS_SRS)
    lon, lat = rng.uniform(6.5, 13.5), rng.uniform(47.5, 53.5)
    mpp = rng.choice([30.0, 120.0, 500.0, 2000.0]) * rng.uniform(0.7, 1.4)
    w, h = rng.randint(96, 230), rng.randint(96, 230)
    rx = {'EPSG:4326': mpp / 111320.0, 'EPSG:3857': mpp * 1.55, 'EPSG:25832': mpp}[srs]
    ry = rx * (rng.uniform(0.7, 1.4) if rng.random() < 0.15 else 1.0)
    cx, cy = transformer('EPSG:4326', srs).transform(lon, lat) if srs != 'EPSG:4326' else (lon, lat)
    bbox = [cx - w * rx / 2, cy - h * ry / 2, cx + w * rx / 2, cy + h * ry / 2]
    return Frame(srs, bbox, (w, h))


def gen_wms_probe(rng, spec, fi=False):
    tree = SHAPES[spec['shape']]
    names = [n[0] for n in walk(tree)]
    frame = gen_wms_frame(rng)
    k = rng.choice([1, 1, 2, 2, 3, 4])
    layers = rng.sample(names, min(k, len(names)))
    req = {'layers': layers, 'srs': frame.srs, 'bbox': list(frame.bbox), 'size': list(frame.size),
           'format': rng.choice(['image/png', 'image/png', 'image/jpeg']), 'transparent': rng.random() < 0.55,
           'bgcolor': rng.choice(BGCOLORS), 'version': rng.choice(['1.1.1', '1.1.1', '1.3.0'])}
    relevant = resolve(tree, layers)
    auth = gen_auth(rng, spec, frame, relevant)
    probe = {'service': 'wms_fi' if fi else 'wms_map', 'req': req, 'auth': auth,
             'order': rng.choice(['auth_first', 'ref_first'])}
    if fi:
        req['query_layers'] = list(layers) if rng.random() < 0.8 else rng.sample(layers, rng.randint(1, len(layers)))
        req['format'] = 'image/png'
        req['pos'] = choose_click(rng, frame, auth, resolve(tree, req['query_layers']))
    return probe


def choose_click(rng, frame, auth_spec, leaves):
    """pixel (i, j) inside / outside / near a geometry that gates one of the leaves"""
    w, h = frame.size
    a = Auth.__new__(Auth)
    a.spec = auth_spec
    cands = [g for g in [a.layer_limit(lf) for lf in leaves] + [a.global_limit()] if g]
    pos = [rng.randrange(w), rng.randrange(h)]
    if not cands:
        return pos
    go = GeomOracle(rng.choice(cands), frame)
    if not go.ok:
        return pos
    want = rng.choice(['inside', 'inside', 'outside', 'outside', 'near'])
    if want == 'inside':
        m = go.inside(1.5)
    elif want == 'outside':
        m = go.outside(1.5)
    else:
        m = ~go.inside(1.5) & ~go.outside(1.5)
    idx = np.argwhere(m)
    if len(idx) == 0:
        return pos
    j, i = idx[rng.randrange(len(idx))]
    return [int(i), int(j)]


TILE_SERVICES = ['tms', 'tiles', 'tiles_nw', 'wmts_kvp', 'wmts_rest', 'kml', 'kml_doc']


def tile_frame(leaf, z, x, y, nw):
    G = GRIDS[leaf['grid']]
    span = G['r0'] / 2 ** z * TILE
    x0 = G['bbox'][0] + x * span
    if nw:
        y1 = G['bbox'][3] - y * span
        y0 = y1 - span
    else:
        y0 = G['bbox'][1] + y * span
        y1 = y0 + span
    return Frame(G['srs'], (x0, y0, x0 + span, y1), (TILE, TILE))


def gen_tile_probe(rng, spec, fi=False):
    cached = sorted(n for n, lf in spec['leaves'].items() if lf['kind'] != 'direct')
    if not cached:
        return None
    name = rng.choice(cached)
    leaf = spec['leaves'][name]
    z = rng.randint(1, 6)
    n = 2 ** z
    x, y = rng.randrange(n), rng.randrange(n)
    service = rng.choice(['wmts_fi_kvp', 'wmts_fi_rest']) if fi else rng.choice(TILE_SERVICES)
    nw = service.startswith('wmts') or service == 'tiles_nw'
    frame = tile_frame(leaf, z, x, y, nw)
    auth = gen_auth(rng, spec, frame, [name])
    probe = {'service': service, 'req': {'layer': name, 'z': z, 'x': x, 'y': y}, 'auth': auth,
             'order': rng.choice(['auth_first', 'ref_first'])}
    if fi:
        probe['req']['pos'] = choose_click(rng, frame, auth, [name])
    return probe


def gen_probe(rng, spec):
    kind = rng.choice(['wms_map'] * 9 + ['wms_fi'] * 4 + ['tile'] * 9 + ['wmts_fi'] * 3)
    if kind == 'wms_map':
        return gen_wms_probe(rng, spec)
    if kind == 'wms_fi':
        return gen_wms_probe(rng, spec, fi=True)
    p = gen_tile_probe(rng, spec, fi=(kind == 'wmts_fi'))
    return p or gen_wms_probe(rng, spec)


# ---------------------------------------------------------------------------------------------------------------------
# probes: URLs
# ---------------------------------------------------------------------------------------------------------------------

def wms_url(req, fi=False):
    b = list(req['bbox'])
    p = [('SERVICE', 'WMS'), ('VERSION', req['version']), ('REQUEST', 'GetFeatureInfo' if fi else 'GetMap'),
         ('LAYERS', ','.join(req['layers'])), ('STYLES', '')]
    if req['version'] == '1.3.0':
        p.append(('CRS', req['srs']))
        if upstream.northing_first(req['srs']):
            b = [b[1], b[0], b[3], b[2]]
    else:
        p.append(('SRS', req['srs']))
    p += [('BBOX', ','.join(repr(float(v)) for v in b)), ('WIDTH', str(req['size'][0])), ('HEIGHT', str(req['size'][1])),
          ('FORMAT', req['format'])]
    if fi:
        p += [('QUERY_LAYERS', ','.join(req['query_layers'])), ('INFO_FORMAT', 'text/plain')]
        if req['version'] == '1.3.0':
            p += [('I', str(req['pos'][0])), ('J', str(req['pos'][1]))]
        else:
            p += [('X', str(req['pos'][0])), ('Y', str(req['pos'][1]))]
    else:
        p += [('TRANSPARENT', 'true' if req['transparent'] else 'false'), ('BGCOLOR', req['bgcolor'])]
    return '/service?' + urllib.parse.urlencode(p, safe=':/,')


def tile_url(service, req, leaf):
    name, z, x, y = req['layer'], req['z'], req['x'], req['y']
    ext = 'png' if leaf['kind'] == 'cache_png' else 'jpeg'
    spec_ = GRIDS[leaf['grid']]['srs'].replace(':', '')
    gname = '%s_%s' % (leaf['grid'], leaf['origin'])
    if service == 'tms':
        return '/tms/1.0.0/%s/%s/%d/%d/%d.%s' % (name, spec_, z, x, y, ext)
    if service == 'tiles':
        return '/tiles/%s/%s/%d/%d/%d.%s' % (name, spec_, z, x, y, ext)
    if service == 'tiles_nw':
        return '/tiles/%s/%s/%d/%d/%d.%s?origin=nw' % (name, spec_, z, x, y, ext)
    if service == 'kml':
        return '/kml/%s/%s/%d/%d/%d.%s' % (name, spec_, z, x, y, ext)
    if service == 'kml_doc':
        return '/kml/%s/%s/%d/%d/%d.kml' % (name, spec_, z, x, y)
    if service == 'wmts_rest':
        return '/wmts/%s/%s/%d/%d/%d.%s' % (name, gname, z, x, y, ext)
    if service == 'wmts_kvp':
        return ('/service?SERVICE=WMTS&REQUEST=GetTile&VERSION=1.0.0&LAYER=%s&STYLE=&TILEMATRIXSET=%s&TILEMATRIX=%d'
                '&TILEROW=%d&TILECOL=%d&FORMAT=image/%s' % (name, gname, z, y, x, ext))
    if service == 'wmts_fi_rest':
        return '/wmts/%s/%s/%d/%d/%d/%d/%d.txt' % (name, gname, z, x, y, req['pos'][0], req['pos'][1])
    if service == 'wmts_fi_kvp':
        return ('/service?SERVICE=WMTS&REQUEST=GetFeatureInfo&VERSION=1.0.0&LAYER=%s&STYLE=&TILEMATRIXSET=%s&TILEMATRIX=%d'
                '&TILEROW=%d&TILECOL=%d&FORMAT=image/%s&INFOFORMAT=text/plain&I=%d&J=%d' % (
                    name, gname, z, y, x, ext, req['pos'][0], req['pos'][1]))
    raise ValueError(service)
