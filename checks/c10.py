"""C10 - authorization is enforced: denied layers stay dark, limited areas are clipped.

Every case builds a generated layer tree (groups, nested groups, group with own sources; cascaded and cached leaves,
png and jpeg caches, three grid SRS) on top of a LAYERS upstream (every upstream layer = opaque cells of one colour
family on a ground-anchored chequer pattern, alpha is 0 or 255 only, so the layer that shows at a pixel can be read
off the pixel).  A generated `mapproxy.authorize` callback (full / none / unauthenticated / partial with per-layer
flags, per-layer and global limited_to as bbox list / WKT / shapely geometry in the request SRS or another one) is put
into the WSGI environ; every probe is executed twice: with that callback and with an all-allowing one (reference).

The oracle never looks at mapproxy's coverage / mask code: geometry is transformed with pyproj (vertex-wise and densified),
rasterised with shapely on pixel centres after geometric buffering in pixel space, layers are recognised by colour
family, upstream calls by their LAYERS / QUERY_LAYERS parameter."""
import io
import math
import re
import shutil
import sys
import urllib.parse
from wsgiref.util import setup_testing_defaults

import numpy as np

from vlib import core, upstream, scenario

PID = 'C10'
LEVEL = 'exploration'
BUDGET_S = {'quick': 42, 'thorough': 660}
FLOORS = {'quick': {}, 'thorough': {}}
RULE = "tbd"
ASSUMPTIONS = []

# ---------------------------------------------------------------------------------------------------------------------
# LAYERS upstream
# ---------------------------------------------------------------------------------------------------------------------
# colour family of upstream layer u<k>: which channels are high (190..250), the others are low (0..50).
FAMILIES = [(1, 0, 0), (0, 1, 0), (0, 0, 1), (1, 1, 0), (1, 0, 1), (0, 1, 1)]
HI_MIN, LO_MAX = 165, 75        # classification thresholds (pattern itself: high >= 190, low <= 50)
SRS_ID = {'EPSG:4326': 1, 'EPSG:3857': 2, 'EPSG:900913': 2, 'EPSG:25832': 3}


def _hash(k, i, j, o, s):
    M = np.uint64(0xFFFFFFFFFFFFFFFF)
    h = (i.astype(np.int64).astype(np.uint64) * np.uint64(73856093)) ^ (j.astype(np.int64).astype(np.uint64) * np.uint64(19349663))
    h = h ^ np.uint64(((k + 1) * 83492791 + (o + 64) * 2654435761 + s * 40503) & 0xFFFFFFFFFFFF)
    h = h & M
    h ^= (h >> np.uint64(13))
    h = (h * np.uint64(0x5bd1e995)) & M
    h ^= (h >> np.uint64(15))
    h = (h * np.uint64(0x2545F491)) & M
    h ^= (h >> np.uint64(17))
    return h


def layer_pattern(k, srs, bbox, size):
    """RGBA uint8 (h, w, 4) of upstream layer k for the request rectangle; alpha in {0, 255}; ground anchored cells of
    8 * 2^round(log2(res)) SRS units"""
    w, h = size
    rx = (bbox[2] - bbox[0]) / w
    ry = (bbox[3] - bbox[1]) / h
    o = int(round(math.log2(max(min(rx, ry), 1e-12))))
    cell = 8.0 * 2.0 ** o
    xc = bbox[0] + (np.arange(w, dtype=np.float64) + 0.5) * rx
    yc = bbox[3] - (np.arange(h, dtype=np.float64) + 0.5) * ry
    i = np.floor(xc / cell).astype(np.int64)
    j = np.floor(yc / cell).astype(np.int64)
    I = np.broadcast_to(i[None, :], (h, w))
    J = np.broadcast_to(j[:, None], (h, w))
    hh = _hash(k, I, J, o, SRS_ID.get(srs.upper(), 9))
    out = np.zeros((h, w, 4), dtype=np.uint8)
    opaque = (hh & np.uint64(7)) < np.uint64(5)
    hi = (190 + ((hh >> np.uint64(8)) % np.uint64(61))).astype(np.uint8)
    hi2 = (190 + ((hh >> np.uint64(20)) % np.uint64(61))).astype(np.uint8)
    lo = ((hh >> np.uint64(32)) % np.uint64(51)).astype(np.uint8)
    lo2 = ((hh >> np.uint64(44)) % np.uint64(51)).astype(np.uint8)
    fam = FAMILIES[k % len(FAMILIES)]
    his = [hi, hi2, hi]
    los = [lo, lo2, lo2]
    for c in range(3):
        out[..., c] = his[c] if fam[c] else los[c]
    out[..., 3] = np.where(opaque, 255, 0).astype(np.uint8)
    out[~opaque, :3] = 255
    return out


def _bgcolor(s):
    s = (s or '0xffffff').lower().replace('#', '').replace('0x', '')
    try:
        return tuple(int(s[n:n + 2], 16) for n in (0, 2, 4))
    except Exception:
        return (255, 255, 255)


class LayersWMS(object):
    """WMS upstream: LAYERS=u<k>[,u<m>...] composed bottom to top; GetFeatureInfo answers with a text naming layer
    and queried ground position"""

    def __call__(self, call):
        if call.kind not in ('getmap', 'featureinfo'):
            return upstream.Resp(b'<ServiceExceptionReport><ServiceException>unsupported</ServiceException></ServiceExceptionReport>',
                                 'application/vnd.ogc.se_xml', 200)
        try:
            q = upstream.parse_getmap(call)
            names = [n for n in q['layers'] if n]
            ks = [int(n[1:]) for n in names]
        except Exception as ex:
            call.extra['bad'] = repr(ex)
            return upstream.Resp(('<ServiceExceptionReport><ServiceException>bad request %s</ServiceException></ServiceExceptionReport>' % ex).encode(),
                                 'application/vnd.ogc.se_xml', 200)
        call.extra['q'] = q
        call.extra['layers'] = names
        if call.kind == 'featureinfo':
            p = call.params
            qn = [n for n in p.get('query_layers', '').split(',') if n]
            px = float(p.get('x', p.get('i', 'nan')))
            py = float(p.get('y', p.get('j', 'nan')))
            w, h = q['size']
            gx = q['bbox'][0] + (px + 0.5) * (q['bbox'][2] - q['bbox'][0]) / w
            gy = q['bbox'][3] - (py + 0.5) * (q['bbox'][3] - q['bbox'][1]) / h
            call.extra['query_layers'] = qn
            call.extra['ground'] = (q['srs'], gx, gy)
            call.extra['layers'] = sorted(set(names) | set(qn))
            body = ''.join('FI layer=%s srs=%s gx=%.6f gy=%.6f;\n' % (n, q['srs'], gx, gy) for n in qn)
            return upstream.Resp(body.encode(), 'text/plain')
        w, h = q['size']
        if w <= 0 or h <= 0 or w * h > 4096 * 4096:
            return upstream.Resp(b'<ServiceExceptionReport><ServiceException>size</ServiceException></ServiceExceptionReport>',
                                 'application/vnd.ogc.se_xml', 200)
        acc = None
        for k in ks:
            img = layer_pattern(k, q['srs'] or '', q['bbox'], q['size'])
            if acc is None:
                acc = img
            else:
                m = img[..., 3] == 255
                acc = acc.copy()
                acc[m] = img[m]
        fmt = (q['format'] or 'image/png').split(';')[0]
        if not q['transparent'] or 'jpeg' in fmt:
            bg = np.array(_bgcolor(q['bgcolor']), dtype=np.uint8)
            rgb = acc[..., :3].copy()
            rgb[acc[..., 3] == 0] = bg
            return upstream.Resp(upstream.encode(rgb, fmt), fmt)
        return upstream.Resp(upstream.encode(acc, 'image/png'), 'image/png')


# ---------------------------------------------------------------------------------------------------------------------
# scenario: layer tree, sources, caches, grids
# ---------------------------------------------------------------------------------------------------------------------
TILE = 128
GRIDS = {
    'g3857': {'srs': 'EPSG:3857', 'bbox': [400000.0, 5800000.0, 400000.0 + 1572864.0, 5800000.0 + 1572864.0], 'r0': 12288.0},
    'g4326': {'srs': 'EPSG:4326', 'bbox': [4.0, 44.0, 16.0, 56.0], 'r0': 0.09375},
    'g25832': {'srs': 'EPSG:25832', 'bbox': [150000.0, 5000000.0, 150000.0 + 1048576.0, 5000000.0 + 1048576.0], 'r0': 8192.0},
}
NLEVELS = 8
WMS_SRS = ['EPSG:4326', 'EPSG:3857', 'EPSG:25832']

SHAPES = {
    # name -> (tree, names with own sources).  tree node = [name, has_sources, [children]]
    'flat': [['a', True, []], ['b', True, []], ['c', True, []], ['d', True, []]],
    'group': [['G', False, [['a', True, []], ['b', True, []]]], ['c', True, []], ['d', True, []]],
    'nested': [['G', False, [['H', False, [['a', True, []], ['b', True, []]]], ['c', True, []]]], ['d', True, []]],
    'group_this': [['G', True, [['a', True, []], ['b', True, []]]], ['c', True, []], ['d', True, []]],
    'nested_this': [['G', False, [['H', True, [['a', True, []]]], ['b', True, []], ['c', True, []]]], ['d', True, []]],
}


def walk(tree):
    for node in tree:
        yield node
        for n in walk(node[2]):
            yield n


def gen_scenario(rng):
    shape = rng.choice(sorted(SHAPES))
    tree = SHAPES[shape]
    srcnames = [n[0] for n in walk(tree) if n[1]]
    kinds = ['cache_png', 'cache_jpeg', 'direct']
    rng.shuffle(kinds)
    leaves = {}
    for idx, name in enumerate(srcnames):
        kind = kinds[idx] if idx < 3 else rng.choice(['cache_png', 'cache_jpeg', 'direct', 'direct'])
        leaf = {'up': 'u%d' % idx, 'kind': kind, 'host': rng.choice(['lay', 'lay', 'lay2'])}
        if kind == 'direct':
            # (a source without supported_srs next to one with it makes combined_layers() raise: side observation)
            leaf['supported_srs'] = rng.choice([list(WMS_SRS), list(WMS_SRS), ['EPSG:4326'], ['EPSG:25832'], ['EPSG:3857'],
                                                ['EPSG:4326', 'EPSG:3857']])
        else:
            leaf['grid'] = rng.choice(sorted(GRIDS))
            leaf['origin'] = rng.choice(['ll', 'ul'])
            leaf['store'] = rng.random() < 0.5
            leaf['meta'] = rng.choice([[1, 1], [1, 1], [2, 2]])
            leaf['meta_buffer'] = rng.choice([0, 0, 16])
        leaves[name] = leaf
    return {'shape': shape, 'leaves': leaves, 'resampling': rng.choice(['nearest', 'nearest', 'nearest', 'bilinear'])}


def build(spec, d):
    conf = scenario.base_conf(image={'resampling_method': spec['resampling']})
    tree = SHAPES[spec['shape']]
    used_grids = set()
    for name, leaf in spec['leaves'].items():
        src = {'type': 'wms', 'req': {'url': 'http://%s/service?' % leaf['host'], 'layers': leaf['up'], 'transparent': True},
               'wms_opts': {'featureinfo': True, 'version': '1.1.1'}}
        if leaf.get('supported_srs'):
            src['supported_srs'] = list(leaf['supported_srs'])
        conf['sources']['s_' + name] = src
        if leaf['kind'] != 'direct':
            gname = '%s_%s' % (leaf['grid'], leaf['origin'])
            used_grids.add((gname, leaf['grid'], leaf['origin']))
            fmt = 'image/png' if leaf['kind'] == 'cache_png' else 'image/jpeg'
            c = {'grids': [gname], 'sources': ['s_' + name], 'format': fmt, 'request_format': 'image/png',
                 'meta_size': list(leaf['meta']), 'meta_buffer': leaf['meta_buffer']}
            if not leaf['store']:
                c['disable_storage'] = True
            conf['caches']['c_' + name] = c
    for gname, g, origin in used_grids:
        G = GRIDS[g]
        conf['grids'][gname] = {'srs': G['srs'], 'bbox': list(G['bbox']), 'origin': origin, 'tile_size': [TILE, TILE],
                                'res': [G['r0'] / 2 ** z for z in range(NLEVELS)]}

    def lyr(node):
        name, has_src, children = node
        e = {'name': name, 'title': 'layer ' + name}
        if has_src:
            leaf = spec['leaves'][name]
            e['sources'] = ['s_' + name if leaf['kind'] == 'direct' else 'c_' + name]
        if children:
            e['layers'] = [lyr(c) for c in children]
        return e
    conf['layers'] = [lyr(n) for n in tree]
    conf['services'] = {
        'tms': {}, 'kml': {},
        'wmts': {'restful': True, 'kvp': True, 'featureinfo_formats': [{'mimetype': 'text/plain', 'suffix': 'txt'}]},
        'wms': {'srs': list(WMS_SRS), 'image_formats': ['image/png', 'image/jpeg'], 'md': {'title': 'c10'},
                'featureinfo_types': ['text', 'html', 'xml']},
    }
    sc = scenario.Scenario(d, conf)
    up = upstream.install()
    h = LayersWMS()
    up.register('lay', h)
    up.register('lay2', h)
    return sc


def wsgi_call(app, path_qs, authorize=None):
    """GET at the raw WSGI boundary with the authorization callback in the environ"""
    path, _, qs = path_qs.partition('?')
    environ = {}
    setup_testing_defaults(environ)
    environ['REQUEST_METHOD'] = 'GET'
    environ['SCRIPT_NAME'] = ''
    environ['PATH_INFO'] = urllib.parse.unquote(path, encoding='latin-1')
    environ['QUERY_STRING'] = qs
    environ['SERVER_NAME'] = 'localhost'
    environ['HTTP_HOST'] = 'localhost'
    if authorize is not None:
        environ['mapproxy.authorize'] = authorize
    got = {'n': 0}

    def start_response(status, hdrs, exc_info=None):
        got['n'] += 1
        got['status'] = status
        got['headers'] = hdrs
        return lambda data: None
    it = app(environ, start_response)
    try:
        chunks = list(it)
    finally:
        if hasattr(it, 'close'):
            it.close()
    return scenario.Response(got.get('status'), got.get('headers', []), b''.join(chunks), start_calls=got['n'])

