"""C17 - upstream servers are only asked for what they are configured to support.

Generated source configurations (WMS sources with supported_srs / supported_formats / coverage / min-max res or scale /
forward_req_params / WMS version / http method; tile sources with their own grid, URL template, coverage, res range;
caches in yet another SRS; cache-of-cache) are loaded through the real loader and driven with WMS GetMap /
GetFeatureInfo / TMS / WMTS requests.  The observation is the upstream log: every URL MapProxy hands to the HTTP
client is parsed like a server would parse it (axis order from pyproj) and judged against the source's
configuration by an oracle that uses pyproj + exact grid arithmetic only (never mapproxy.srs / coverage / grid)."""
import io
import json
import math
import os
import re
import shutil
import sys
import threading
import urllib.parse

from vlib import core, upstream, scenario
from vlib.gridmodel import GridModel

PID = 'C17'
LEVEL = 'exploration'
BUDGET_S = {'quick': 36, 'thorough': 540}
# quick: ~25% of seed 0 on a nearly idle machine (820 scenarios) = ~60% of the weakest of seeds 0-4 under moderate foreign
# load; thorough: ~30% of seed 0 under moderate load (5525 scenarios). Throughput of this check follows the machine load.
FLOORS = {'quick': {'scenarios': 200, 'client_requests': 3200, 'upstream_calls': 5200, 'judged_srs': 2500, 'judged_format': 1400,
                    'judged_bbox': 1900, 'judged_dims': 2700, 'judged_tile_exists': 2000, 'no_call_expected_checks': 2300,
                    'no_call_coverage': 1400, 'no_call_res': 1200, 'reprojection_forced_cases': 1350,
                    'equal_srs_other_code_cases': 350, 'dims_forwarded_cases': 950, 'dims_withheld_cases': 1600,
                    'bbox_on_coverage_edge': 1150, 'combined_upstream_requests': 70, 'rendezvous_of_sibling_sources': 200},
          'thorough': {'scenarios': 1650, 'client_requests': 26000, 'upstream_calls': 39000, 'judged_srs': 21000,
                       'judged_format': 12400, 'judged_bbox': 15700, 'judged_dims': 22600, 'judged_tile_exists': 16900,
                       'no_call_expected_checks': 17800, 'no_call_coverage': 11200, 'no_call_res': 8900,
                       'reprojection_forced_cases': 11400, 'equal_srs_other_code_cases': 3300, 'dims_forwarded_cases': 7500,
                       'dims_withheld_cases': 12900, 'bbox_on_coverage_edge': 9800, 'combined_upstream_requests': 600,
                       'rendezvous_of_sibling_sources': 2350}}
RULE = ("case = one generated configuration (1-3 WMS sources: supported_srs 0-3 codes out of 7, supported_formats, "
        "coverage bbox|polygon in any of the SRS, min/max res or scale tied to the cache ladder with factors "
        "1, 1.001, 1/1.001, 1.3 .., forward_req_params, version, method, optionally two sources behind one URL; optional "
        "tile source on its own (possibly small) grid with 6 URL template kinds behind a cache whose grid is the "
        "same|other origin|sub ladder|sub bbox|bigger bbox|shifted|other ladder, plus a cache-of-cache in another SRS; "
        "direct layer, cached layer in yet another SRS, preferred_src_proj; every 6th case each is biased to equal-SRS "
        "code pairs, shared URLs, near misses of projected coverages) driven by 10-16 client requests (GetMap "
        "1.1.1/1.3.0 in 7 SRS placed inside/partly/near outside/far outside the target source's coverage at resolutions "
        "inside/outside/at the limits, with TIME/ELEVATION/DIM_*/vendor parameters; GetFeatureInfo; TMS; WMTS KVP with "
        "dimensions). Sibling sources that MapProxy runs in parallel on one query object are made to rendezvous after "
        "their SRS negotiation (forced, legal schedule). evaluations = per-clause judgements of logged upstream URLs "
        "(srs, format, bbox, dims, tile_exists) + no-call judgements per (query a source was asked to answer, source). "
        "distinct = (source kind, clause, srs relation, coverage relation, res relation, cached|direct, op). "
        "non-trivial = the clause was constrained by the configuration (list / coverage / range / grid / client "
        "dimensions present) for that judgement")
ASSUMPTIONS = [
    "the upstream log (HTTPClient.open replaced) sees every request MapProxy sends upstream",
    "the query a cached source is asked to answer is observed at source.get_map (instance attribute wrapper, harness "
    "side); for direct layers and GetFeatureInfo it is the client's request",
    "coverage extent = bounding box of the configured coverage; expressed in the request SRS as the envelope of its "
    "densified outline (48 points per edge + interior lattice, pyproj); slack one upstream pixel + 1e-9 relative",
    "an upstream BBOX with minx >= maxx or miny >= maxy (or a non-positive size) is not a bounding box inside anything: "
    "flagged as bbox/invalid",
    "no-call (coverage): only queries whose densified footprint in the coverage SRS is more than 2 px away from the "
    "coverage bbox - for polygon coverages: whose footprint envelope is more than 2 px away from the polygon itself - are judged; nearer ones, queries outside the world rectangle of their SRS and footprints without a "
    "finite image are don't-care",
    "no-call (resolution): resolution = bbox extent / size in SRS units, degrees * 111319.49 m; limits +-1e-4 "
    "(projected) / +-2e-3 (geographic: the constant is not in the documentation) are don't-care; queries whose x and "
    "y resolution fall on different sides are don't-care",
    "EPSG:3857 and EPSG:900913 (and EPSG:4326 / CRS:84) are different codes: the request must carry a listed code",
    "GetFeatureInfo requests are judged for the SRS code and the coverage no-call clause only (their BBOX is the map "
    "context and is forwarded unclipped; info sources have no resolution gate): format outside supported_formats and "
    "contacts outside the resolution range are counted (…(not_flagged) counters), not flagged",
    "the rendezvous of sibling sources only selects one of the interleavings the real threads can produce; on "
    "timeout (15 s) the threads proceed and the event is counted",
]

DEG_M = 6378137.0 * 2 * math.pi / 360.0
POOL = ['EPSG:4326', 'EPSG:3857', 'EPSG:900913', 'EPSG:25832', 'EPSG:31467', 'EPSG:3035', 'CRS:84']
GRID_SRS = ['EPSG:3857', 'EPSG:900913', 'EPSG:4326', 'EPSG:25832', 'EPSG:3035', 'EPSG:31467']
WORLD = {'EPSG:3857': (-20037508.342789244, -20037508.342789244, 20037508.342789244, 20037508.342789244),
         'EPSG:900913': (-20037508.342789244, -20037508.342789244, 20037508.342789244, 20037508.342789244),
         'EPSG:4326': (-180.0, -90.0, 180.0, 90.0)}
AOI = (5.5, 46.5, 14.5, 55.5)
FORMATS = ['image/png', 'image/jpeg', 'image/tiff', 'image/gif']

# ---- independent geodesy -----------------------------------------------------------------------------------------
_TR = {}
_GEO = {}


def norm_code(code):
    c = code.upper()
    if c == 'EPSG:900913':
        return 'EPSG:3857'
    if c == 'CRS:84':
        return 'EPSG:4326'
    return c


def transformer(a, b):
    k = (norm_code(a), norm_code(b))
    if k not in _TR:
        import pyproj
        _TR[k] = pyproj.Transformer.from_crs(k[0], k[1], always_xy=True)
    return _TR[k]


def is_geographic(code):
    c = norm_code(code)
    if c not in _GEO:
        import pyproj
        _GEO[c] = bool(pyproj.CRS.from_user_input(c).is_geographic)
    return _GEO[c]


def upm(code):
    """SRS units per metre (documented: resolutions are metres per pixel, degrees are converted)"""
    return 1.0 / DEG_M if is_geographic(code) else 1.0


def outline(bbox, n=48):
    x0, y0, x1, y1 = bbox
    xs, ys = [], []
    for i in range(n):
        t = i / float(n)
        xs += [x0 + (x1 - x0) * t, x1, x1 - (x1 - x0) * t, x0]
        ys += [y0, y0 + (y1 - y0) * t, y1, y1 - (y1 - y0) * t]
    # interior lattice as well: a pole / projection centre inside the rectangle is not on its outline
    for i in range(1, 4):
        for j in range(1, 4):
            xs.append(x0 + (x1 - x0) * i / 4.0)
            ys.append(y0 + (y1 - y0) * j / 4.0)
    return xs, ys


def envelope(bbox, src, dst, n=48):
    """envelope in dst of the densified rectangle given in src; None if any point has no finite image"""
    if norm_code(src) == norm_code(dst):
        return tuple(float(v) for v in bbox)
    xs, ys = outline(bbox, n)
    try:
        tx, ty = transformer(src, dst).transform(xs, ys)
    except Exception:
        return None
    for v in tx:
        if not math.isfinite(v):
            return None
    for v in ty:
        if not math.isfinite(v):
            return None
    return (min(tx), min(ty), max(tx), max(ty))


def pt(src, dst, x, y):
    if norm_code(src) == norm_code(dst):
        return x, y
    return transformer(src, dst).transform(x, y)


# ---- configuration generator -------------------------------------------------------------------------------------

def gen_grid(rng, R0, srs=None, factor=None, tile_size=None, nlev=None, ll=None):
    srs = srs or rng.choice(GRID_SRS)
    u = upm(srs)
    if ll is not None:
        bbox = envelope(ll, 'EPSG:4326', srs)
    elif srs in WORLD and rng.random() < 0.3:
        bbox = WORLD[srs]
    else:
        ll = (AOI[0] - rng.uniform(0.2, 3), AOI[1] - rng.uniform(0.2, 2), AOI[2] + rng.uniform(0.2, 3), AOI[3] + rng.uniform(0.2, 2))
        bbox = envelope(ll, 'EPSG:4326', srs)
    factor = factor or rng.choice([2, 2, 2, 1.5, 3, math.sqrt(2)])
    nlev = nlev or rng.randint(3, 6)
    top = R0 * u * factor ** rng.choice([1, 2, 2, 3])
    res = [top / factor ** k for k in range(nlev)]
    tile_size = tile_size or rng.choice([(256, 256), (256, 256), (128, 128), (256, 128), (64, 64)])
    return {'srs': srs, 'bbox': [float(v) for v in bbox], 'res': res, 'tile_size': list(tile_size),
            'origin': rng.choice(['ll', 'ul'])}


def gen_coverage(rng, name, srs=None):
    srs = srs or rng.choice(POOL)
    w, h = rng.uniform(1.2, 6.0), rng.uniform(1.2, 6.0)
    lo0 = rng.uniform(AOI[0], AOI[2] - w)
    la0 = rng.uniform(AOI[1], AOI[3] - h)
    ll = (lo0, la0, lo0 + w, la0 + h)
    box = envelope(ll, 'EPSG:4326', srs)
    cov = {'srs': srs, 'll': list(ll)}
    if rng.random() < 0.3:
        cx, cy = (box[0] + box[2]) / 2, (box[1] + box[3]) / 2
        rx, ry = (box[2] - box[0]) / 2, (box[3] - box[1]) / 2
        k = rng.randint(3, 7)
        # a simple (star-shaped) polygon around the centre
        angs = [2 * math.pi * (i + rng.uniform(0.1, 0.9)) / k for i in range(k)]
        pts = [[cx + rx * rng.uniform(0.5, 1.0) * math.cos(a), cy + ry * rng.uniform(0.5, 1.0) * math.sin(a)] for a in angs]
        cov['kind'] = 'poly'
        cov['poly'] = pts
        cov['bbox'] = [min(p[0] for p in pts), min(p[1] for p in pts), max(p[0] for p in pts), max(p[1] for p in pts)]
        cov['file'] = 'cov_%s.txt' % name
    else:
        cov['kind'] = 'bbox'
        cov['bbox'] = [float(v) for v in box]
    return cov


LIMIT_FACTORS = [1.0, 1.001, 1 / 1.001, 1.3, 0.8, 1.02, 0.98, 1.0000001]


def gen_res_range(rng, ladder_m):
    """limits in metres tied to a level ladder (list of level resolutions in metres, coarse -> fine)"""
    n = len(ladder_m)
    kind = rng.choice(['both', 'min', 'max'])
    k1 = rng.randrange(0, max(1, n - 1))
    k2 = rng.randrange(k1 + 1, n) if n > 1 else 0
    out = {}
    if kind in ('both', 'min'):
        out['min_res'] = ladder_m[k1] * rng.choice(LIMIT_FACTORS)
    if kind in ('both', 'max'):
        out['max_res'] = ladder_m[k2] * rng.choice(LIMIT_FACTORS)
    if 'min_res' in out and 'max_res' in out and not out['min_res'] > out['max_res'] * 1.01:
        del out['max_res']
    # (the loader raises TypeError for a single min_scale / max_scale although the docs allow it: scales only in pairs)
    out['as_scale'] = rng.random() < 0.4 and 'min_res' in out and 'max_res' in out
    return out


def gen_wms_source(rng, name, ladder_m):
    s = {'kind': 'wms', 'name': name, 'host': name, 'layer': name}
    s['supported_srs'] = None if rng.random() < 0.2 else rng.sample(POOL, rng.choice([1, 1, 2, 2, 3]))
    s['supported_formats'] = None if rng.random() < 0.45 else rng.sample(FORMATS, rng.choice([1, 1, 2]))
    s['coverage'] = None if rng.random() < 0.22 else gen_coverage(rng, name)
    s['res'] = None if rng.random() < 0.35 else gen_res_range(rng, ladder_m)
    s['fwd'] = rng.choice([None, None, ['time'], ['TIME', 'elevation'], ['time', 'elevation', 'dim_foo'], ['dim_foo'],
                           ['DIM_FOO', 'foo'], ['elevation']])
    s['version'] = rng.choice(['1.1.1', '1.3.0'])
    s['transparent'] = rng.random() < 0.5
    s['method'] = rng.choice([None, None, 'GET', 'POST'])
    s['featureinfo'] = rng.random() < 0.5
    s['req_format'] = rng.choice([None, None, None, 'image/jpeg', 'image/png'])
    return s


TEMPLATES = {
    'zxy': 'http://%(host)s/zxy/%%(z)s/%%(x)s/%%(y)s.%%(format)s',
    'tms_path': 'http://%(host)s/tms/%%(tms_path)s.%%(format)s',
    'quadkey': 'http://%(host)s/qk/q%%(quadkey)s.png',
    'bbox': 'http://%(host)s/bb?box=%%(bbox)s&f=%%(format)s',
    'tc_path': 'http://%(host)s/tc/%%(tc_path)s.png',
    'arcgis': 'http://%(host)s/arc/%%(arcgiscache_path)s.png',
}


def gen_tile_source(rng, R0):
    s = {'kind': 'tile', 'name': 't0', 'host': 't0'}
    srs = rng.choice(['EPSG:3857', 'EPSG:25832', 'EPSG:4326', 'EPSG:3035', 'EPSG:900913'])
    ll = None
    if rng.random() < 0.35:
        # a source grid smaller than the area of interest: coverages and cache grids reach beyond it
        w, h = rng.uniform(2.0, 5.0), rng.uniform(2.0, 5.0)
        lo0, la0 = rng.uniform(AOI[0], AOI[2] - w), rng.uniform(AOI[1], AOI[3] - h)
        ll = (lo0, la0, lo0 + w, la0 + h)
    g = gen_grid(rng, R0, srs=srs, factor=rng.choice([2, 2, 2, 2, 1.5]), nlev=rng.randint(3, 6), ll=ll)
    s['grid_small'] = ll is not None
    s['grid'] = g
    s['template'] = rng.choice(sorted(TEMPLATES))
    ladder_m = [r / upm(srs) for r in g['res']]
    s['coverage'] = None if rng.random() < 0.3 else gen_coverage(rng, 't0')
    s['res'] = None if rng.random() < 0.45 else gen_res_range(rng, ladder_m)
    # grid of the cache in front of it
    rel = rng.choice(['same', 'same', 'other_origin', 'sub_ladder', 'sub_bbox', 'bigger_bbox', 'shifted', 'other_ladder'])
    cg = {'srs': g['srs'], 'bbox': list(g['bbox']), 'res': list(g['res']), 'tile_size': list(g['tile_size']), 'origin': g['origin']}
    tw, th = g['tile_size']
    if rel == 'other_origin':
        cg['origin'] = 'ul' if g['origin'] == 'll' else 'll'
    elif rel == 'sub_ladder':
        cg['res'] = g['res'][1:] if rng.random() < 0.5 else g['res'][::2]
    elif rel in ('sub_bbox', 'bigger_bbox', 'shifted'):
        k = rng.randrange(len(g['res']) - 1)     # (tile services need at least two levels)
        sx, sy = g['res'][k] * tw, g['res'][k] * th
        cg['res'] = g['res'][k:]
        W, H = g['bbox'][2] - g['bbox'][0], g['bbox'][3] - g['bbox'][1]
        nx, ny = max(1, int(W / sx)), max(1, int(H / sy))
        if rel == 'sub_bbox':
            i0, j0 = rng.randrange(nx), rng.randrange(ny)
            i1, j1 = rng.randint(i0 + 1, min(nx, i0 + 40)), rng.randint(j0 + 1, min(ny, j0 + 40))
        elif rel == 'bigger_bbox':
            i0, j0 = -rng.randint(0, 2), -rng.randint(0, 2)
            i1, j1 = min(nx, 30) + rng.randint(0, 2), min(ny, 30) + rng.randint(0, 2)
            if (i0, j0) == (0, 0):
                i0 = -1
        else:
            i0, j0 = rng.uniform(0, 1), rng.uniform(0, 1)
            i1, j1 = i0 + min(nx, 20), j0 + min(ny, 20)
        if g['origin'] == 'll':
            cg['bbox'] = [g['bbox'][0] + i0 * sx, g['bbox'][1] + j0 * sy, g['bbox'][0] + i1 * sx, g['bbox'][1] + j1 * sy]
        else:
            cg['bbox'] = [g['bbox'][0] + i0 * sx, g['bbox'][3] - j1 * sy, g['bbox'][0] + i1 * sx, g['bbox'][3] - j0 * sy]
    elif rel == 'other_ladder':
        k = rng.randrange(len(g['res']))
        cg['res'] = [r * (1.1 if i == k else 1.0) for i, r in enumerate(g['res'])]
    s['cache_grid'] = cg
    s['cache_grid_rel'] = rel
    return s


FLAVOURS = ['free', 'free', 'free', 'equal_codes', 'shared_url', 'near_miss']


def gen_spec(rng, flavour='free'):
    """flavour biases the draw towards configurations that are rare under uniform choice (never away from them):
    equal_codes = sources that list different codes of one SRS (3857/900913, 4326/CRS:84) next to each other;
    shared_url = two sources behind one URL with different resolution ranges; near_miss = coverages in a projected
    SRS queried with tall geographic rectangles that just miss them"""
    R0 = rng.choice([150, 300, 600, 1200, 2500]) * rng.uniform(0.8, 1.25)
    spec = {'R0': R0, 'flavour': flavour}
    pair = rng.choice([('EPSG:3857', 'EPSG:900913'), ('EPSG:900913', 'EPSG:3857'), ('EPSG:4326', 'CRS:84'), ('CRS:84', 'EPSG:4326')])
    cg = gen_grid(rng, R0, srs=(pair[0] if pair[0] != 'CRS:84' else 'EPSG:4326') if flavour == 'equal_codes' else None)
    spec['cg'] = cg
    ladder_m = [r / upm(cg['srs']) for r in cg['res']]
    nw = rng.choice([1, 2, 2, 3]) if flavour in ('free', 'near_miss') else rng.choice([2, 2, 3])
    srcs = [gen_wms_source(rng, 'w%d' % i, ladder_m) for i in range(nw)]
    if flavour == 'equal_codes':
        for i, sr in enumerate(srcs):
            sr['supported_srs'] = [pair[i % 2]] + rng.sample([c for c in POOL if c not in pair], rng.choice([0, 0, 1]))
            rng.shuffle(sr['supported_srs'])
            sr['featureinfo'] = True
        spec['bias_srs'] = list(pair)
    if flavour == 'near_miss':
        for sr in srcs:
            sr['coverage'] = gen_coverage(rng, sr['name'], srs=rng.choice(['EPSG:25832', 'EPSG:3035', 'EPSG:31467', 'EPSG:3857']))
            sr['res'] = None
        spec['bias_srs'] = ['EPSG:4326', 'CRS:84', 'EPSG:3035', 'EPSG:25832']
        spec['bias_near'] = True
    # a second source behind the same URL with the same srs/format/coverage: candidates for combined requests
    if nw >= 2 and (rng.random() < 0.3 or flavour == 'shared_url'):
        a, b = srcs[0], srcs[1]
        b['host'] = a['host']
        for k in ('supported_srs', 'supported_formats', 'coverage', 'version', 'method', 'transparent', 'req_format'):
            b[k] = a[k]
        if rng.random() < 0.5:
            b['fwd'] = a['fwd']
        if rng.random() < 0.6:
            b['res'] = a['res']     # (sources with different resolution ranges are not combined)
        if flavour == 'shared_url':
            a['res'] = gen_res_range(rng, ladder_m)
            b['res'] = gen_res_range(rng, ladder_m) if rng.random() < 0.5 else a['res']     # equal ranges stay combinable
            if rng.random() < 0.35:
                # the two layers of the server are configured with different codes of one SRS
                swap = {'EPSG:3857': 'EPSG:900913', 'EPSG:900913': 'EPSG:3857', 'EPSG:4326': 'CRS:84', 'CRS:84': 'EPSG:4326'}
                lst = [c for c in (a['supported_srs'] or []) if c in ('EPSG:25832', 'EPSG:31467', 'EPSG:3035')][:2]
                a['supported_srs'] = [rng.choice(sorted(swap))] + lst
                rng.shuffle(a['supported_srs'])
                b['supported_srs'] = [swap.get(c, c) for c in a['supported_srs']]
    # (a layer mixing sources with and without supported_srs answers every GetMap with 500: SupportedSRS.__eq__ against a
    #  plain list raises AttributeError in WMSSource._is_compatible - outside C17, kept rare)
    if nw >= 2 and rng.random() < 0.85:
        have = [s for s in srcs if s['supported_srs']]
        if have and len(have) < nw:
            for s in srcs:
                if not s['supported_srs']:
                    s['supported_srs'] = rng.sample(POOL, rng.choice([1, 2, 3]))
    spec['wms'] = srcs
    names = [s['name'] for s in srcs]
    spec['direct_sources'] = rng.sample(names, min(len(names), rng.choice([1, 2, 2])))
    if nw >= 2 and srcs[1]['host'] == srcs[0]['host']:
        spec['direct_sources'] = ['w0', 'w1']
    spec['cache_sources'] = rng.sample(names, min(len(names), rng.choice([1, 1, 2])))
    if flavour == 'equal_codes':
        spec['direct_sources'] = names[:2]
        spec['cache_sources'] = names[:2] if rng.random() < 0.7 else names[:1]
    spec['cache'] = {'meta_size': rng.choice([[1, 1], [2, 2], [3, 2], [1, 1]]), 'meta_buffer': rng.choice([0, 0, 20, 80]),
                     'format': rng.choice(['image/png', 'image/jpeg']),
                     'request_format': rng.choice([None, None, 'image/png', 'image/tiff', 'image/jpeg']),
                     'minimize_meta_requests': rng.random() < 0.2, 'concurrent_tile_creators': rng.choice([1, 2])}
    spec['dimensions'] = rng.random() < 0.4
    spec['concurrent_layer_renderer'] = rng.choice([1, 1, 2])
    spec['tile'] = gen_tile_source(rng, R0) if rng.random() < 0.55 else None
    if spec['tile'] is not None:
        spec['cc_grid'] = gen_grid(rng, R0)
    pref = {}
    for _ in range(rng.choice([0, 1, 2, 3])):
        pref[rng.choice(POOL[:6])] = rng.sample(POOL[:6], rng.randint(1, 3))
    if flavour == 'equal_codes':
        spec['concurrent_layer_renderer'] = rng.choice([1, 2])
        for _ in range(2):
            pref[rng.choice([c for c in POOL[:6] if c not in pair])] = [rng.choice(pair)] + rng.sample(POOL[:6], 1)
    spec['preferred'] = pref
    return spec


def src_conf(s, d):
    if s['kind'] == 'wms':
        c = {'type': 'wms', 'req': {'url': 'http://%s/service?' % s['host'], 'layers': s['layer'], 'transparent': s['transparent']},
             'wms_opts': {'version': s['version'], 'featureinfo': s['featureinfo']}}
        if s['req_format']:
            c['req']['format'] = s['req_format']
        if s['supported_srs']:
            c['supported_srs'] = list(s['supported_srs'])
        if s['supported_formats']:
            c['supported_formats'] = list(s['supported_formats'])
        if s['fwd']:
            c['forward_req_params'] = list(s['fwd'])
        if s['method']:
            c['http'] = {'method': s['method']}
    else:
        c = {'type': 'tile', 'url': TEMPLATES[s['template']] % {'host': s['host']}, 'grid': 'tg'}
    cov = s['coverage']
    if cov:
        if cov['kind'] == 'bbox':
            c['coverage'] = {'bbox': list(cov['bbox']), 'srs': cov['srs']}
        else:
            p = os.path.join(d, cov['file'])
            ring = cov['poly'] + [cov['poly'][0]]
            with open(p, 'w') as f:
                f.write('POLYGON((%s))\n' % ', '.join('%r %r' % (x, y) for x, y in ring))
            c['coverage'] = {'datasource': p, 'srs': cov['srs']}
    r = s['res']
    if r:
        for k in ('min_res', 'max_res'):
            if k in r:
                if r['as_scale']:
                    c['max_scale' if k == 'min_res' else 'min_scale'] = r[k] / 0.00028
                else:
                    c[k] = r[k]
    return c


def grid_conf(g):
    return {'srs': g['srs'], 'bbox': list(g['bbox']), 'bbox_srs': g['srs'], 'res': list(g['res']),
            'tile_size': list(g['tile_size']), 'origin': g['origin']}


def build_conf(spec, d):
    g = {}
    if spec['preferred']:
        g['srs'] = {'preferred_src_proj': spec['preferred']}
    conf = scenario.base_conf(**g)
    conf['globals']['cache']['concurrent_tile_creators'] = spec['cache']['concurrent_tile_creators']
    for s in spec['wms']:
        conf['sources'][s['name']] = src_conf(s, d)
    conf['grids']['cg'] = grid_conf(spec['cg'])
    cc = spec['cache']
    c0 = {'grids': ['cg'], 'sources': list(spec['cache_sources']), 'meta_size': cc['meta_size'], 'meta_buffer': cc['meta_buffer'],
          'format': cc['format'], 'minimize_meta_requests': cc['minimize_meta_requests']}
    if cc['request_format']:
        c0['request_format'] = cc['request_format']
    conf['caches']['c0'] = c0
    lc = {'name': 'lc', 'title': 'lc', 'sources': ['c0']}
    if spec['dimensions']:
        lc['dimensions'] = {'time': {'values': ['2020', '2021'], 'default': '2020'},
                            'elevation': {'values': ['0', '100'], 'default': '0'}}
    conf['layers'] = [{'name': 'ld', 'title': 'ld', 'sources': list(spec['direct_sources'])}, lc]
    t = spec['tile']
    if t:
        conf['sources']['t0'] = src_conf(t, d)
        conf['grids']['tg'] = grid_conf(t['grid'])
        conf['grids']['ctg'] = grid_conf(t['cache_grid'])
        conf['grids']['ccg'] = grid_conf(spec['cc_grid'])
        conf['caches']['ct'] = {'grids': ['ctg'], 'sources': ['t0'], 'format': 'image/png'}
        conf['caches']['cc'] = {'grids': ['ccg'], 'sources': ['ct'], 'meta_size': [2, 2], 'meta_buffer': 0}
        conf['layers'].append({'name': 'lt', 'title': 'lt', 'sources': ['ct']})
        conf['layers'].append({'name': 'lcc', 'title': 'lcc', 'sources': ['cc']})
    conf['services'] = {'wms': {'srs': list(POOL), 'image_formats': ['image/png', 'image/jpeg', 'image/gif'],
                                'md': {'title': 'c17'}, 'featureinfo_types': ['text', 'html', 'xml'],
                                'concurrent_layer_renderer': spec.get('concurrent_layer_renderer', 1)},
                        'tms': {}, 'wmts': {'kvp': True, 'restful': True}}
    return conf


# ---- synthetic upstreams -----------------------------------------------------------------------------------------
_IMG = {}


def image_bytes(size, fmt):
    fmt = (fmt or 'image/png').split(';')[0].strip().lower()
    if '/' not in fmt:
        fmt = 'image/' + fmt
    key = (size, fmt)
    b = _IMG.get(key)
    if b is None:
        from PIL import Image
        if len(_IMG) > 400:
            _IMG.clear()
        img = Image.new('RGB', size, (90, 140, 200))
        buf = io.BytesIO()
        if 'jp' in fmt:
            img.save(buf, 'JPEG', quality=60)
        elif 'tif' in fmt:
            img.save(buf, 'TIFF')
        elif 'gif' in fmt:
            img.save(buf, 'GIF')
        else:
            img.save(buf, 'PNG', compress_level=1)
        b = _IMG[key] = buf.getvalue()
    return b, fmt


SE = b'<?xml version="1.0"?><ServiceExceptionReport><ServiceException>%s</ServiceException></ServiceExceptionReport>'


def wms_handler(call):
    if call.kind == 'getmap':
        try:
            q = upstream.parse_getmap(call)
        except Exception as ex:
            call.extra['unparsable'] = repr(ex)
            return upstream.Resp(SE % b'unparsable', 'application/vnd.ogc.se_xml')
        call.extra['q'] = q
        w, h = q['size']
        if w <= 0 or h <= 0 or w * h > 4000 * 4000:
            return upstream.Resp(SE % b'size', 'application/vnd.ogc.se_xml')
        b, fmt = image_bytes((w, h), q['format'])
        return upstream.Resp(b, fmt)
    if call.kind == 'featureinfo':
        try:
            call.extra['q'] = upstream.parse_getmap(call)
        except Exception as ex:
            call.extra['unparsable'] = repr(ex)
        return upstream.Resp(b'feature info', 'text/plain')
    return upstream.Resp(SE % b'operation', 'application/vnd.ogc.se_xml')


def make_tile_handler(tsrc):
    kind = tsrc['template']
    tsize = tuple(tsrc['grid']['tile_size'])

    def handler(call):
        p = call.path
        try:
            if kind in ('zxy', 'tms_path'):
                m = re.match(r'^/(?:zxy|tms)/(-?\d+)/(-?\d+)/(-?\d+)\.(\w+)$', p)
                z, x, y = int(m.group(1)), int(m.group(2)), int(m.group(3))
                call.extra['tile'] = (x, y, z)
            elif kind == 'quadkey':
                m = re.match(r'^/qk/q([0-3]*)\.png$', p)
                qk = m.group(1)
                x = y = 0
                for ch in qk:
                    dgt = int(ch)
                    x = (x << 1) | (dgt & 1)
                    y = (y << 1) | (dgt >> 1)
                call.extra['tile'] = (x, y, len(qk))
            elif kind == 'bbox':
                call.extra['tile_bbox'] = tuple(float(v) for v in call.params['box'].split(','))
            elif kind == 'tc_path':
                m = re.match(r'^/tc/(\d+)/(\d{3})/(\d{3})/(\d{3})/(\d{3})/(\d{3})/(\d{3})\.png$', p)
                v = [int(s) for s in m.groups()]
                call.extra['tile'] = (v[1] * 1000000 + v[2] * 1000 + v[3], v[4] * 1000000 + v[5] * 1000 + v[6], v[0])
            else:
                m = re.match(r'^/arc/L(-?\d+)/R(-?[0-9a-f]+)/C(-?[0-9a-f]+)\.png$', p)
                call.extra['tile'] = (int(m.group(3), 16), int(m.group(2), 16), int(m.group(1)))
        except Exception as ex:
            call.extra['undecodable'] = repr(ex)
            return upstream.Resp(b'bad tile address', 'text/plain', 404)
        b, fmt = image_bytes(tsize, 'image/png')
        return upstream.Resp(b, fmt)
    return handler


# ---- observation of the query a source is asked to answer; forced schedule for sibling sources ----------------------
TL = threading.local()
BARRIER_TIMEOUT = 15.0


def _before(call):
    call.extra['asked'] = getattr(TL, 'cur', None)


class Obs(object):
    """per scenario: the queries put to wrapped sources, and the rendezvous groups of sibling sources.

    MapProxy hands ONE MapQuery object to all sources of a cache (TileCreator._query_sources, one thread per source)
    and, with concurrent_layer_renderer > 1, to all layers of a WMS request.  The rendezvous makes every sibling that
    was handed the same query object wait inside source.extent.contains (i.e. after the SRS negotiation, before the
    upstream request is built) until all siblings got there or left get_map: a legal interleaving of the real threads,
    chosen so that the outcome does not depend on the machine's load."""

    def __init__(self):
        self.asked = []
        self.lock = threading.Lock()
        self.groups = {}
        self.timeouts = 0
        self.waits = 0

    def enter(self, query, n):
        with self.lock:
            g = self.groups.get(id(query))
            if g is None or g['q'] is not query:
                g = self.groups[id(query)] = {'q': query, 'n': n, 'arrived': 0, 'cond': threading.Condition(self.lock)}
            return g

    def arrive(self, rec, wait):
        g = rec.get('_grp')
        if g is None or rec.get('_arrived'):
            return
        rec['_arrived'] = True
        with self.lock:
            g['arrived'] += 1
            g['cond'].notify_all()
            if wait and g['arrived'] < g['n']:
                self.waits += 1
                if not g['cond'].wait_for(lambda: g['arrived'] >= g['n'], timeout=BARRIER_TIMEOUT):
                    self.timeouts += 1


def wrap_source(obs, obj, src_name, cache_name, nsib, path):
    orig = obj.get_map

    def get_map(query):
        rec = {'src': src_name, 'cache': cache_name, 'bbox': tuple(float(v) for v in query.bbox),
               'size': tuple(int(v) for v in query.size), 'srs': query.srs.srs_code, 'path': path, 'calls': []}
        if nsib > 1:
            rec['_grp'] = obs.enter(query, nsib)
        obs.asked.append(rec)
        prev = getattr(TL, 'cur', None)
        TL.cur = rec
        try:
            return orig(query)
        finally:
            TL.cur = prev
            obs.arrive(rec, wait=False)
    obj.get_map = get_map
    ext = getattr(obj, 'extent', None)
    if nsib > 1 and ext is not None and hasattr(ext, 'contains'):
        orig_contains = ext.contains

        def contains(other):
            rec = getattr(TL, 'cur', None)
            if rec is not None and rec.get('src') == src_name:
                obs.arrive(rec, wait=True)
            return orig_contains(other)
        ext.contains = contains


def quiesce(run):
    """worker threads of a failed request may still be running when the response is out: let them finish"""
    me = threading.current_thread()
    for t in threading.enumerate():
        if t is me or t is threading.main_thread() or not t.is_alive():
            continue
        t.join(timeout=5.0)
        if t.is_alive():
            run.count('threads_still_running_after_request')


# ---- oracle ------------------------------------------------------------------------------------------------------

def res_relation(res_cfg, asked):
    """'none' | 'in' | 'out' | 'dc' | 'mixed' for the query (bbox, size, srs) against configured limits (metres)"""
    if not res_cfg or ('min_res' not in res_cfg and 'max_res' not in res_cfg):
        return 'none'
    b, (w, h) = asked['bbox'], asked['size']
    if w <= 0 or h <= 0:
        return 'dc'
    geo = is_geographic(asked['srs'])
    f = DEG_M if geo else 1.0
    band = 2e-3 if geo else 1e-4
    out = []
    for r in ((b[2] - b[0]) / w * f, (b[3] - b[1]) / h * f):
        st = 'in'
        hi, lo = res_cfg.get('min_res'), res_cfg.get('max_res')
        if hi is not None:
            if abs(r - hi) <= hi * band + 2e-6:
                st = 'dc'
            elif r > hi:
                st = 'out'
        if lo is not None and st == 'in':
            if abs(r - lo) <= lo * band + 2e-6:
                st = 'dc'
            elif r < lo:
                st = 'out'
        out.append(st)
    if 'dc' in out:
        return 'dc'
    if out[0] != out[1]:
        return 'mixed'
    return out[0]


def in_domain(srs, bbox):
    """rectangle within the nominal world rectangle of the SRS (where one is known)"""
    w = WORLD.get(norm_code(srs))
    if w is None:
        return True
    e = 1e-9 * (w[2] - w[0])
    return bbox[0] >= w[0] - e and bbox[1] >= w[1] - e and bbox[2] <= w[2] + e and bbox[3] <= w[3] + e


def cov_relation(cov, asked):
    """'none' | 'inside' | 'partial' | 'disjoint' | 'near' (don't-care) | 'undefined' of the asked query against the
    coverage bbox, computed in the coverage SRS with the densified footprint"""
    if not cov:
        return 'none'
    if not in_domain(asked['srs'], asked['bbox']):
        return 'undefined'
    fp = envelope(asked['bbox'], asked['srs'], cov['srs'])
    if fp is None:
        return 'undefined'
    cb = cov['bbox']
    w, h = asked['size']
    if w <= 0 or h <= 0 or not (fp[2] > fp[0] and fp[3] > fp[1]):
        return 'undefined'
    px = max((fp[2] - fp[0]) / w, (fp[3] - fp[1]) / h)
    gapx = max(cb[0] - fp[2], fp[0] - cb[2])
    gapy = max(cb[1] - fp[3], fp[1] - cb[3])
    gap = max(gapx, gapy)
    if gap > 2 * px:
        return 'disjoint'
    if gap > -2 * px:
        return 'near'
    if cov.get('kind') == 'poly':
        # inside / across the bounding box of a polygon coverage: the geometry decides (2 px band as above)
        import shapely.geometry as sg
        try:
            # (the envelope of the footprint, not the footprint: MapProxy tests the transformed bounding box, a query whose
            # envelope reaches the polygon may be passed on)
            fpp = sg.box(*fp)
            geom = sg.Polygon([tuple(p_) for p_ in cov['poly']])
            if fpp.is_valid and geom.is_valid and not fpp.is_empty:
                dist = fpp.distance(geom)
                if dist > 2 * px:
                    return 'disjoint'
                if not fpp.buffer(-2 * px).intersects(geom.buffer(-2 * px)):
                    return 'near'
        except Exception:
            return 'undefined'
    if fp[0] >= cb[0] and fp[1] >= cb[1] and fp[2] <= cb[2] and fp[3] <= cb[3]:
        return 'inside'
    return 'partial'


def srs_relation(src, asked_srs):
    lst = src.get('supported_srs')
    if not lst:
        return 'unconstrained'
    up_ = [c.upper() for c in lst]
    if asked_srs.upper() in up_:
        return 'listed'
    if norm_code(asked_srs) in [norm_code(c) for c in lst]:
        return 'equal_other_code'
    if any(is_geographic(c) == is_geographic(asked_srs) for c in lst):
        return 'reproject_same_kind'
    return 'reproject_other_kind'


def fmt_ext(f):
    f = (f or '').split(';')[0].strip().lower()
    if '/' in f:
        f = f.split('/', 1)[1]
    return 'jpeg' if f == 'jpg' else f


DIM_RE = re.compile(r'^(time|elevation|dim_.*)$')


class Ctx(object):
    pass


def judge_wms_call(run, ctx, call, src, asked, op, combined):
    """per-URL clauses for one WMS source"""
    q = call.extra.get('q')
    path = asked['path'] if asked else 'unattributed'
    base = {'source_kind': 'wms', 'path': path, 'op': op, 'kind': call.kind}
    if combined:
        base['combined'] = True
    if asked and asked.get('_grp') is not None:
        base['sibling_sources_share_query'] = True     # several sources were handed the same query object in parallel
    if q is None:
        ctx.bad(dict(base, clause='unparsable'), 'upstream request cannot be parsed by a server: %s (%s)' % (call.url[:300], call.extra.get('unparsable')))
        return
    srel = srs_relation(src, asked['srs']) if asked else 'unknown'
    crel = cov_relation(src['coverage'], asked) if asked else 'unknown'
    rrel = res_relation(src['res'], asked) if asked else 'unknown'
    cls = ('wms', srel, crel, rrel, path)
    # --- srs
    lst = src.get('supported_srs')
    if lst:
        run.hit('judged_srs')
        run.judge(cls + ('srs', call.kind), nontrivial=True)
        if (q['srs'] or '').upper() not in [c.upper() for c in lst]:
            used = q['srs'] or ''
            try:
                eq = norm_code(used) in [norm_code(c) for c in lst]
            except Exception:
                eq = False
            pref = []
            for k, v in ctx.preferred.items():
                if asked and norm_code(k) == norm_code(asked['srs']):
                    pref += [c.upper() for c in v]
            ctx.bad(dict(base, clause='srs', srs_relation=srel, used='other_code_of_a_listed_srs' if eq else 'unlisted_srs',
                         used_code_from_preferred_src_proj=used.upper() in pref),
                    'source %s supports %r, upstream request uses %r (asked in %s): %s' % (src['name'], lst, q['srs'], asked and asked['srs'], call.url[:400]))
        if srel.startswith('reproject'):
            run.hit('reprojection_forced_cases')
        if srel == 'equal_other_code':
            run.hit('equal_srs_other_code_cases')
    else:
        run.judge(cls + ('srs', call.kind), nontrivial=False)
        run.count('srs_unconstrained_calls')
    if call.kind == 'featureinfo':
        sf = src.get('supported_formats')
        if sf and fmt_ext(q['format']) not in [fmt_ext(f) for f in sf]:
            run.count('fi_format_outside_supported_formats(not_flagged)')
        return
    # --- format
    sf = src.get('supported_formats')
    if sf:
        run.hit('judged_format')
        run.judge(cls + ('format',), nontrivial=True)
        if fmt_ext(q['format']) not in [fmt_ext(f) for f in sf]:
            ctx.bad(dict(base, clause='format'), 'source %s supports formats %r, upstream request uses %r: %s' % (src['name'], sf, q['format'], call.url[:400]))
    else:
        run.judge(cls + ('format',), nontrivial=False)
    # --- bbox
    b = q['bbox']
    w, h = q['size']
    valid = w > 0 and h > 0 and all(math.isfinite(v) for v in b) and b[2] > b[0] and b[3] > b[1]
    if not valid:
        ctx.bad(dict(base, clause='bbox', sub='invalid', coverage_relation=crel), 'upstream request with empty/inverted bbox or size: bbox=%r size=%r: %s' % (b, (w, h), call.url[:400]))
    cov = src['coverage']
    if cov and valid:
        env = ctx.cov_env(src, q['srs'])
        if env is None:
            run.dc('coverage_envelope_not_finite_in_request_srs')
        else:
            run.hit('judged_bbox')
            px, py = (b[2] - b[0]) / w, (b[3] - b[1]) / h
            ex = px + 1e-9 * max(abs(b[0]), abs(b[2]), 1.0)
            ey = py + 1e-9 * max(abs(b[1]), abs(b[3]), 1.0)
            over = (env[0] - b[0], env[1] - b[1], b[2] - env[2], b[3] - env[3])
            clipped = any(abs(o) <= e for o, e in zip(over, (ex, ey, ex, ey)))
            run.judge(cls + ('bbox', 'clipped' if clipped else 'interior'), nontrivial=True)
            if clipped:
                run.hit('bbox_on_coverage_edge')
            if over[0] > ex or over[2] > ex or over[1] > ey or over[3] > ey:
                beyond = bool(asked and any(math.isfinite(v_) and abs(v_) > 1e9 for v_ in asked.get('bbox', [])))
                ctx.bad(dict(base, clause='bbox', sub='outside_coverage', coverage_kind=cov['kind'],
                             same_srs=norm_code(cov['srs']) == norm_code(q['srs']), client_bbox_beyond_any_coordinate=beyond),
                        'source %s coverage bbox %r (%s) = %r in %s; upstream bbox %r size %r exceeds it by (%.4g, %.4g, %.4g, %.4g) px: %s' % (
                            src['name'], cov['bbox'], cov['srs'], env, q['srs'], b, (w, h), over[0] / px, over[1] / py, over[2] / px, over[3] / py, call.url[:300]))
    elif valid:
        run.judge(cls + ('bbox',), nontrivial=False)
    # --- dimensions
    allowed = set(p.lower() for p in (src.get('fwd') or []))
    present = [k for k in call.params if DIM_RE.match(k)]
    client_dims = ctx.client_dims
    run.hit('judged_dims')
    run.judge(cls + ('dims', bool(allowed), bool(client_dims)), nontrivial=bool(client_dims))
    if client_dims and allowed & client_dims:
        run.hit('dims_forwarded_cases')
    if client_dims - allowed:
        run.hit('dims_withheld_cases')
    extra = [k for k in present if k not in allowed]
    if extra:
        ctx.bad(dict(base, clause='dims'), 'source %s forwards %r only, upstream request carries %r (client sent %r): %s' % (
            src['name'], sorted(allowed), extra, sorted(client_dims), call.url[:400]))


def judge_tile_call(run, ctx, call, src, asked, op):
    path = asked['path'] if asked else 'unattributed'
    base = {'source_kind': 'tile', 'path': path, 'op': op, 'template': src['template'], 'cache_grid_rel': src['cache_grid_rel']}
    crel = cov_relation(src['coverage'], asked) if asked else 'unknown'
    rrel = res_relation(src['res'], asked) if asked else 'unknown'
    cls = ('tile', src['template'], src['cache_grid_rel'], crel, rrel, path)
    run.hit('judged_tile_exists')
    run.judge(cls + ('tile_exists',), nontrivial=True)
    gm = ctx.tile_model
    g = src['grid']
    if 'undecodable' in call.extra:
        ctx.bad(dict(base, clause='tile_exists', sub='undecodable'), 'tile URL does not decode to an address: %s' % call.url[:300])
        return
    if 'tile' in call.extra:
        x, y, z = call.extra['tile']
        ok = 0 <= z < len(g['res'])
        if ok:
            nx, ny = gm.grid_size(z)
            ok = 0 <= x < nx and 0 <= y < ny
        if not ok:
            ctx.bad(dict(base, clause='tile_exists', sub='outside_grid'),
                    'tile (x=%d, y=%d, z=%d) does not exist in the source grid (levels %d, size at z: %r): %s' % (
                        x, y, z, len(g['res']), gm.grid_size(z) if 0 <= z < len(g['res']) else None, call.url[:300]))
    else:
        b = call.extra['tile_bbox']
        tw, th = g['tile_size']
        found = False
        for z, r in enumerate(g['res']):
            sx, sy = r * tw, r * th
            if abs((b[2] - b[0]) - sx) > 1e-6 * sx + 3e-8 or abs((b[3] - b[1]) - sy) > 1e-6 * sy + 3e-8:
                continue
            fx = (b[0] - g['bbox'][0]) / sx
            fy = ((g['bbox'][3] - b[3]) / sy) if g['origin'] == 'ul' else ((b[1] - g['bbox'][1]) / sy)
            tol = 1e-6 + 3e-8 / min(sx, sy)
            if abs(fx - round(fx)) > tol or abs(fy - round(fy)) > tol:
                continue
            nx, ny = gm.grid_size(z)
            if 0 <= round(fx) < nx and 0 <= round(fy) < ny:
                found = True
                break
        if not found:
            ctx.bad(dict(base, clause='tile_exists', sub='bbox_not_a_tile'),
                    'bbox %r in the tile URL is not the rectangle of an existing tile of the source grid: %s' % (b, call.url[:300]))


def judge_no_call(run, ctx, src, asked, ncalls, op, first_url):
    """the query `asked` was put to `src` (or would have been: direct layer); ncalls upstream requests went out"""
    crel = cov_relation(src['coverage'], asked)
    rrel = res_relation(src['res'], asked)
    if op == 'fi':
        # GetFeatureInfo: MapProxy applies no resolution gate to info sources; counted, not flagged (see ASSUMPTIONS)
        if rrel == 'out' and ncalls:
            run.count('fi_contact_outside_res_range(not_flagged)')
        rrel = 'none'
    srel = srs_relation(src, asked['srs']) if src['kind'] == 'wms' else 'n/a'
    cls = (src['kind'], srel, crel, rrel, asked['path'], 'no_call', op)
    if crel == 'near':
        run.dc('query_within_2px_of_coverage_edge')
    if crel == 'undefined':
        run.dc('query_outside_srs_domain_or_footprint_not_finite_in_coverage_srs')
    if rrel == 'dc':
        run.dc('resolution_within_band_of_limit')
    if rrel == 'mixed':
        run.dc('x_and_y_resolution_on_different_sides_of_limit')
    if crel != 'disjoint' and rrel != 'out':
        run.judge(cls, nontrivial=False, n=0)
        return
    run.hit('no_call_expected_checks')
    if crel == 'disjoint':
        run.hit('no_call_coverage')
    if rrel == 'out':
        run.hit('no_call_res')
    run.judge(cls, nontrivial=True)
    if ncalls:
        why = []
        if crel == 'disjoint':
            why.append('coverage %r (%s) does not intersect the query' % (src['coverage']['bbox'], src['coverage']['srs']))
        if rrel == 'out':
            why.append('resolution range %r excludes the query' % ({k: v for k, v in src['res'].items() if k != 'as_scale'},))
        b, (w, h) = asked['bbox'], asked['size']
        ctx.bad({'source_kind': src['kind'], 'clause': 'no_call_coverage' if crel == 'disjoint' else 'no_call_res', 'path': asked['path'],
                 'op': op, 'combined': bool(asked.get('combined'))},
                'source %s was contacted %d times although %s; query bbox=%r size=%r srs=%s (res %.6g x %.6g units/px); first URL %s' % (
                    src['name'], ncalls, ' and '.join(why), b, (w, h), asked['srs'], (b[2] - b[0]) / w, (b[3] - b[1]) / h, first_url[:300]))


# ---- client requests ---------------------------------------------------------------------------------------------

def pick_res_m(rng, src, R0):
    r = src.get('res') if src else None
    lims = []
    if r:
        if 'min_res' in r:
            lims.append(('hi', r['min_res']))
        if 'max_res' in r:
            lims.append(('lo', r['max_res']))
    if not lims or rng.random() < 0.25:
        return R0 * 2 ** rng.uniform(-2, 2.5), 'free'
    which, lim = rng.choice(lims)
    mode = rng.choice(['at', 'at', 'out', 'in'])
    if mode == 'at':
        return lim * rng.choice([1.0, 1.001, 1 / 1.001, 1.01, 0.99, 1.00005]), 'at_' + which
    if (mode == 'out') == (which == 'hi'):
        return lim * rng.uniform(1.05, 3.0), mode
    return lim / rng.uniform(1.05, 3.0), mode


def place_bbox(rng, src, srs, rx, ry, size, near=False):
    """client bbox of `size` pixels at resolution rx, ry in `srs`, placed relative to the coverage of src"""
    w, h = size[0] * rx, size[1] * ry
    cov = src.get('coverage') if src else None
    env = envelope(cov['bbox'], cov['srs'], srs) if cov else None
    if env is None:
        box = envelope(AOI, 'EPSG:4326', srs)
        cx = rng.uniform(box[0], box[2])
        cy = rng.uniform(box[1], box[3])
        return [cx - w / 2, cy - h / 2, cx + w / 2, cy + h / 2], 'free'
    ew, eh = env[2] - env[0], env[3] - env[1]
    if near:
        # a tall rectangle reaching beyond the coverage to the north and south, a few pixels beside it
        ry = rx = eh * rng.uniform(1.2, 2.5) / size[1]
        w, h = size[0] * rx, size[1] * ry
    mode = 'near' if near else rng.choice(['inside', 'inside', 'partial', 'partial', 'near', 'near', 'far'])
    if cov.get('kind') == 'poly' and not near and rng.random() < 0.3:
        mode = 'corner'
    ecx, ecy = (env[0] + env[2]) / 2, (env[1] + env[3]) / 2
    if mode == 'corner':
        # inside the bounding box of a polygon coverage, outside the polygon: a small query in a corner of the box
        rx = ry = min(ew, eh) * rng.uniform(0.04, 0.12) / max(size)
        w, h = size[0] * rx, size[1] * ry
        cx = rng.choice([env[0] + w / 2 + 0.01 * ew, env[2] - w / 2 - 0.01 * ew])
        cy = rng.choice([env[1] + h / 2 + 0.01 * eh, env[3] - h / 2 - 0.01 * eh])
    elif mode == 'inside':
        cx, cy = ecx + rng.uniform(-0.25, 0.25) * ew, ecy + rng.uniform(-0.25, 0.25) * eh
    elif mode == 'partial':
        cx = rng.choice([env[0], env[2], ecx]) + rng.uniform(-0.3, 0.3) * w
        cy = rng.choice([env[1], env[3], ecy]) + rng.uniform(-0.3, 0.3) * h
    else:
        gap_px = rng.choice([0.5, 1.5, 3, 4, 10, 40]) if mode == 'near' else rng.uniform(300, 3000)
        if near:
            gap_px = rng.choice([0.3, 0.6, 1.0, 1.5, 2.5])
        side = rng.choice(['l', 'r']) if near else rng.choice(['l', 'r', 'b', 't'])
        cx, cy = ecx + rng.uniform(-0.3, 0.3) * ew, ecy + rng.uniform(-0.3, 0.3) * eh
        if side == 'l':
            cx = env[0] - gap_px * rx - w / 2
        elif side == 'r':
            cx = env[2] + gap_px * rx + w / 2
        elif side == 'b':
            cy = env[1] - gap_px * ry - h / 2
        else:
            cy = env[3] + gap_px * ry + h / 2
    box = [cx - w / 2, cy - h / 2, cx + w / 2, cy + h / 2]
    if not in_domain(srs, box) and rng.random() < 0.9:
        # keep most requests inside the world rectangle of the SRS: slide back in, else shrink
        wd = WORLD[norm_code(srs)]
        dx = max(0.0, wd[0] - box[0]) - max(0.0, box[2] - wd[2])
        dy = max(0.0, wd[1] - box[1]) - max(0.0, box[3] - wd[3])
        box = [box[0] + dx, box[1] + dy, box[2] + dx, box[3] + dy]
        mode = mode + '_slid'
    return box, mode


CLIENT_DIMS = [('TIME', '2020'), ('ELEVATION', '100'), ('DIM_FOO', 'a'), ('DIM_BAR', 'b'), ('FOO', 'x'), ('time', '2021'),
               ('Dim_Foo', 'c')]


def gen_requests(rng, spec):
    reqs = []
    byname = dict((s['name'], s) for s in spec['wms'])
    t = spec['tile']
    n = rng.randint(10, 16)
    layers = ['ld', 'ld', 'ld', 'lc', 'lc', 'lc']
    if t:
        layers += ['lt', 'lt', 'lcc', 'lcc']
    for _ in range(n):
        layer = rng.choice(layers)
        if layer == 'ld':
            target = byname[rng.choice(spec['direct_sources'])]
        elif layer == 'lc':
            target = byname[rng.choice(spec['cache_sources'])]
        else:
            target = t
        ops = ['getmap', 'getmap', 'getmap']
        if layer == 'ld':
            if any(byname[n]['featureinfo'] for n in spec['direct_sources']):
                ops.append('fi')
        else:
            ops += ['tms', 'tms']
            if layer == 'lc' and spec['cg']['origin'] == 'ul':     # (WMTS skips grids it cannot address from the top)
                ops += ['wmts', 'wmts']
        op = rng.choice(ops)
        dims = {}
        if rng.random() < 0.7:
            for k, v in rng.sample(CLIENT_DIMS, rng.randint(1, 4)):
                if k.lower() not in [d.lower() for d in dims]:
                    dims[k] = v
        if op in ('getmap', 'fi'):
            srs = rng.choice(spec['bias_srs']) if spec.get('bias_srs') and rng.random() < 0.6 else rng.choice(POOL)
            u = upm(srs)
            r_m, rmode = pick_res_m(rng, target, spec['R0'])
            rx = ry = r_m * u
            if rng.random() < 0.12:
                ry = rx * rng.choice([0.5, 0.8, 1.25, 2.0])
            size = [rng.randint(40, 420), rng.randint(40, 420)]
            near = bool(spec.get('bias_near')) and rng.random() < 0.6
            if near:
                size = [rng.randint(40, 160), rng.randint(300, 420)]
            bbox, cmode = place_bbox(rng, target, srs, rx, ry, size, near)
            req = {'op': op, 'layers': [layer], 'version': rng.choice(['1.1.1', '1.3.0']), 'srs': srs, 'bbox': bbox, 'size': size,
                   'format': rng.choice(['image/png', 'image/png', 'image/jpeg', 'image/gif']), 'dims': dims, 'target': target['name'],
                   'want': [cmode, rmode]}
            if op == 'getmap' and rng.random() < 0.08:
                # numbers that are no numbers: every comparison with NaN is false, a gate written as "not disjoint" lets them
                # through, one written as "overlaps" does not
                bad_ = list(bbox)
                for k_ in rng.sample(range(4), rng.choice([1, 2, 4])):
                    bad_[k_] = rng.choice([float('nan'), float('nan'), float('inf'), float('-inf'), 1e308, -1e308])
                req['bbox'] = bad_
                req['want'] = ['nonfinite', rmode]
            if op == 'getmap' and rng.random() < 0.15:
                other = rng.choice([x for x in set(layers) if x != layer])
                req['layers'] = [layer, other] if rng.random() < 0.5 else [other, layer]
            if op == 'fi':
                req['pos'] = [rng.randrange(size[0]), rng.randrange(size[1])]
                req['info_format'] = rng.choice(['text/plain', 'text/html'])
            reqs.append(req)
        else:
            g = spec['cg'] if layer == 'lc' else (t['cache_grid'] if layer == 'lt' else spec['cc_grid'])
            gname = 'cg' if layer == 'lc' else ('ctg' if layer == 'lt' else 'ccg')
            z = rng.randrange(len(g['res']))
            cov = target.get('coverage')
            mode = rng.choice(['cov', 'cov', 'aoi', 'grid'])
            if mode == 'cov' and cov:
                ll = cov['ll']
                lo, la = rng.uniform(ll[0] - 0.5, ll[2] + 0.5), rng.uniform(ll[1] - 0.5, ll[3] + 0.5)
                px_, py_ = pt('EPSG:4326', g['srs'], lo, la)
            elif mode == 'grid':
                px_, py_ = rng.uniform(g['bbox'][0], g['bbox'][2]), rng.uniform(g['bbox'][1], g['bbox'][3])
            else:
                px_, py_ = pt('EPSG:4326', g['srs'], rng.uniform(AOI[0], AOI[2]), rng.uniform(AOI[1], AOI[3]))
            sx, sy = g['res'][z] * g['tile_size'][0], g['res'][z] * g['tile_size'][1]
            x = int(math.floor((px_ - g['bbox'][0]) / sx))
            if op == 'tms':
                y = int(math.floor((py_ - g['bbox'][1]) / sy))
            else:
                y = int(math.floor((g['bbox'][3] - py_) / sy))
            x, y = max(0, x), max(0, y)
            req = {'op': op, 'layer': layer, 'grid': gname, 'tile': [x, y, z], 'dims': dims, 'target': target['name'],
                   'fmt': 'png' if layer != 'lc' else ('jpeg' if spec['cache']['format'] == 'image/jpeg' else 'png')}
            reqs.append(req)
    return reqs


def request_url(req, tms_paths):
    if req['op'] in ('getmap', 'fi'):
        b = req['bbox']
        v13 = req['version'] == '1.3.0'
        if v13 and upstream.northing_first(req['srs']):
            b = [b[1], b[0], b[3], b[2]]
        p = [('SERVICE', 'WMS'), ('VERSION', req['version']), ('REQUEST', 'GetMap' if req['op'] == 'getmap' else 'GetFeatureInfo'),
             ('LAYERS', ','.join(req['layers'])), ('STYLES', ''), ('CRS' if v13 else 'SRS', req['srs']),
             ('BBOX', ','.join(repr(float(v)) for v in b)), ('WIDTH', str(req['size'][0])), ('HEIGHT', str(req['size'][1])),
             ('FORMAT', req['format'])]
        if req['op'] == 'fi':
            p += [('QUERY_LAYERS', ','.join(req['layers'])), ('INFO_FORMAT', req['info_format']),
                  ('I' if v13 else 'X', str(req['pos'][0])), ('J' if v13 else 'Y', str(req['pos'][1]))]
        p += list(req['dims'].items())
        return '/service?' + urllib.parse.urlencode(p)
    x, y, z = req['tile']
    if req['op'] == 'tms':
        base = tms_paths.get(req['layer'])
        if base is None:
            return None
        q = urllib.parse.urlencode(list(req['dims'].items()))
        return '%s/%d/%d/%d.%s%s' % (base, z, x, y, req['fmt'], ('?' + q) if q else '')
    p = [('SERVICE', 'WMTS'), ('REQUEST', 'GetTile'), ('VERSION', '1.0.0'), ('LAYER', req['layer']), ('STYLE', 'default'),
         ('TILEMATRIXSET', req['grid']), ('TILEMATRIX', '%02d' % z), ('TILEROW', str(y)), ('TILECOL', str(x)),
         ('FORMAT', 'image/' + req['fmt'])]
    p += list(req['dims'].items())
    return '/service?' + urllib.parse.urlencode(p)


# ---- case execution ----------------------------------------------------------------------------------------------

def gen_cases(run):
    # directed case: the open known finding (feature info keeps the client's code of a listed SRS) is reproduced in every run
    with open(os.path.join(os.path.dirname(os.path.abspath(__file__)), 'c17_directed.json')) as f:
        for c in json.load(f):
            yield c
    for i in range(run.pick(2000, 30000)):
        yield {'i': i}


def setup_shard(run):
    up = upstream.install()
    up.before = _before


def run_case(run, case):
    rng = run.rng('case', case['i'])
    spec = case.get('spec') or gen_spec(rng, FLAVOURS[case['i'] % len(FLAVOURS)])
    reqs = case.get('requests') or gen_requests(rng, spec)
    d = run.subdir('c17')
    try:
        _run(run, case, spec, reqs, d)
    finally:
        TL.cur = None
        quiesce(run)
        shutil.rmtree(d, ignore_errors=True)


def _run(run, case, spec, reqs, d):
    up = upstream.install()
    up.before = _before
    os.makedirs(d, exist_ok=True)
    try:
        conf = build_conf(spec, d)
        sc = scenario.Scenario(d, conf)
    except Exception as ex:
        run.dc('config_rejected_by_loader:' + type(ex).__name__)
        run.count('config_rejected:' + repr(ex)[:80])
        return
    by_name = dict((s['name'], s) for s in spec['wms'])
    t = spec['tile']
    if t:
        by_name['t0'] = t
    by_host = {}
    for s in by_name.values():
        by_host.setdefault(s['host'], []).append(s)
        up.register(s['host'], wms_handler if s['kind'] == 'wms' else make_tile_handler(t))
    # wrap the sources inside the tile managers
    obs = Obs()
    for cname, snames in (('c0', spec['cache_sources']), ('ct', ['t0'] if t else [])):
        if not snames:
            continue
        tm = sc.tile_manager(cname)
        if len(tm.sources) != len(snames):
            raise RuntimeError('tile manager %s has %d sources, configured %d' % (cname, len(tm.sources), len(snames)))
        for obj, sname in zip(tm.sources, snames):
            wrap_source(obs, obj, sname, cname, len(snames), 'cached')
    if spec.get('concurrent_layer_renderer', 1) > 1 and len(spec['direct_sources']) > 1:
        # the direct sources of layer ld are rendered in parallel threads with one shared query
        servers = []
        for svc in sc.services:
            servers.append(svc)
            if isinstance(getattr(svc, 'services', None), dict):      # OWSServer wraps the WMS / WMTS KVP servers
                servers.extend(svc.services.values())
        for svc in servers:
            if type(svc).__name__ != 'WMSServer':
                continue
            lyr = svc.layers.get('ld')
            objs = getattr(lyr, 'map_layers', None)
            if objs and len(objs) == len(spec['direct_sources']) and all(hasattr(o, 'supported_srs') for o in objs):
                for obj, sname in zip(objs, spec['direct_sources']):
                    wrap_source(obs, obj, sname, None, len(objs), 'direct')
                run.count('scenarios_with_parallel_direct_layers')
                break
    body = sc.get('/tms/1.0.0/').body.decode('utf-8', 'replace')
    tms_paths = {}
    for m in re.finditer(r'href="http://localhost(/tms/1\.0\.0/([^/"]+)/([^/"]+))"', body):
        tms_paths[m.group(2)] = m.group(1)

    ctx = Ctx()
    ctx.failed = False
    ctx.tile_model = GridModel(t['grid']['bbox'], t['grid']['res'], t['grid']['tile_size'], t['grid']['origin']) if t else None
    envs = {}

    def cov_env(src, srs):
        k = (src['name'], norm_code(srs))
        if k not in envs:
            envs[k] = envelope(src['coverage']['bbox'], src['coverage']['srs'], srs)
        return envs[k]
    ctx.cov_env = cov_env
    ctx.preferred = spec.get('preferred') or {}
    done = []

    def bad(mech, detail):
        # a scenario stops at its first unknown violation; known findings are recorded and the scenario goes on
        if run.violation(mech, {'i': case['i'], 'spec': spec, 'requests': done[-3:]}, detail + ' | client request: %r' % (done[-1],)) != 'known':
            ctx.failed = True
    ctx.bad = bad

    layer_sources = {'ld': [by_name[n] for n in spec['direct_sources']]}
    for req in reqs:
        if ctx.failed:
            break
        url = request_url(req, tms_paths)
        if url is None:
            run.dc('tms_layer_not_offered')
            continue
        done.append(req)
        up.reset_log()
        del obs.asked[:]
        TL.cur = None
        try:
            resp = sc.get(url)
            run.count('client_%s_status_%d' % (req['op'], resp.code))
        except Exception as ex:
            run.count('client_request_raised:' + type(ex).__name__)
        quiesce(run)
        calls = list(up.log)
        asked_list = [a for a in obs.asked if a['path'] == 'cached']
        run.hit('client_requests')
        op = req['op']
        ctx.client_dims = set(k.lower() for k in req['dims'] if DIM_RE.match(k.lower()))
        # the query direct sources are asked to answer = the client's request
        direct_asked = None
        if op in ('getmap', 'fi'):
            direct_asked = {'bbox': tuple(req['bbox']), 'size': tuple(req['size']), 'srs': req['srs'], 'path': 'direct'}
        per_direct = {}
        for call in calls:
            srcs = by_host.get(call.host)
            if not srcs:
                bad({'clause': 'unknown_host'}, 'request to unconfigured upstream %s' % call.url[:300])
                continue
            run.hit('upstream_calls')
            if srcs[0]['kind'] == 'tile':
                a = call.extra.get('asked')
                if a is not None and a['src'] == 't0':
                    a['calls'].append(call)
                else:
                    a = None
                judge_tile_call(run, ctx, call, srcs[0], a, op)
                continue
            if call.kind not in ('getmap', 'featureinfo'):
                run.count('other_upstream_calls:' + call.kind)
                continue
            lay = [x for x in call.params.get('layers', '').split(',') if x]
            mine = [s for s in srcs if s['layer'] in lay]
            if not mine:
                bad({'clause': 'unknown_layer'}, 'upstream request for layers %r: %s' % (lay, call.url[:300]))
                continue
            a = call.extra.get('asked')
            if a is not None and a['path'] == 'cached' and call.kind == 'getmap' and any(s['name'] == a['src'] for s in mine):
                a['calls'].append(call)
                asked = a
            elif direct_asked is not None and 'ld' in req['layers'] and all(s in layer_sources['ld'] for s in mine):
                asked = direct_asked
                if a is not None and a['path'] == 'direct' and a.get('_grp') is not None:
                    asked = dict(direct_asked, _grp=a['_grp'])
                for s in mine:
                    per_direct.setdefault(s['name'], []).append(call)
            elif call.kind == 'featureinfo' and direct_asked is not None:
                asked = dict(direct_asked, path='cached_layer_info')
            else:
                asked = None
                run.count('unattributed_calls')
            if len(mine) > 1:
                run.hit('combined_upstream_requests')
            for s in mine:
                judge_wms_call(run, ctx, call, s, asked, op, len(mine) > 1)
        # no-call judgements: cached path, one per observed query
        for a in asked_list:
            src = by_name[a['src']]
            judge_no_call(run, ctx, src, a, len(a['calls']), op, a['calls'][0].url if a['calls'] else '')
            if op in ('tms', 'wmts'):
                cross_check_level(run, ctx, spec, req, a)
        # direct path
        if direct_asked is not None and 'ld' in req['layers']:
            for s in layer_sources['ld']:
                if op == 'fi' and not s['featureinfo']:
                    continue
                cl = per_direct.get(s['name'], [])
                a = dict(direct_asked, combined=any(len([x for x in c.params.get('layers', '').split(',') if x]) > 1 for c in cl))
                judge_no_call(run, ctx, s, a, len(cl), op, cl[0].url if cl else '')
    if obs.waits:
        run.hit('rendezvous_of_sibling_sources', obs.waits)
    if obs.timeouts:
        run.count('rendezvous_timeouts', obs.timeouts)
    if not ctx.failed:
        run.hit('scenarios')
        if case['i'] < 3:
            run.sample({'spec': spec, 'requests': reqs[:3]})


def cross_check_level(run, ctx, spec, req, a):
    """tile requests: the resolution of the query the source is asked to answer is the configured level resolution"""
    if a['cache'] == 'c0' and req['layer'] == 'lc':
        g = spec['cg']
    elif a['cache'] == 'ct' and req['layer'] == 'lt':
        g = spec['tile']['cache_grid']
    else:
        return
    if g['srs'] in WORLD and tuple(g['bbox']) == WORLD[g['srs']]:
        return      # global profiles: the tile services renumber the levels
    z = req['tile'][2]
    rx = (a['bbox'][2] - a['bbox'][0]) / a['size'][0]
    run.hit('asked_resolution_crosschecked')
    if abs(rx - g['res'][z]) > 1e-3 * g['res'][z]:     # (meta tiles clipped at the grid border are rounded to pixels)
        run.count('asked_resolution_differs_from_requested_level')
        if os.environ.get('C17_DEBUG'):
            print('LEVELDIFF', req, a, g)


def evidence_extra(total):
    m = total.monitors
    return {'upstream_calls_judged': {k: m.get('judged_' + k, 0) for k in ('srs', 'format', 'bbox', 'dims', 'tile_exists')},
            'no_call_expected_checks': {'total': m.get('no_call_expected_checks', 0), 'coverage': m.get('no_call_coverage', 0),
                                        'res_range': m.get('no_call_res', 0)},
            'reprojection_forced_cases': m.get('reprojection_forced_cases', 0)}


if __name__ == '__main__':
    core.main(sys.modules[__name__])
