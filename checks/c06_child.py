"""child for the strace cross-check of C06: python -m checks.c06_child '<case json>' <dir>
builds the scenario deterministically from the case and performs the store (setup was done by the parent)."""
import json
import sys

from vlib import core

if __name__ == '__main__':
    core.use_repo()
    from checks import c06
    case = json.loads(sys.argv[1])
    sc = c06.build(case, sys.argv[2])
    sc.op()
