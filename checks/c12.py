"""C12 - cleanup removes exactly the expired tiles it was asked to remove.

Real cache backends are populated through the cache API with tiles whose timestamps are set explicitly around
a threshold T, foreign files are put next to the cache, a cleanup task is built by the REAL seed configuration
loader from a generated mapproxy.yaml + seed.yaml and executed by mapproxy.seed.cleanup.cleanup with real
workers.  An independent oracle (own level/time parsing, pyproj + shapely geometry on exact tile rectangles of
vlib.gridmodel) decides for every stored tile MUST-REMOVE / MUST-KEEP / don't-care and compares with what a
fresh cache object and a raw directory listing / sqlite SELECT find afterwards; every foreign file must be
byte-identical.
"""
import contextlib
import datetime
import hashlib
import io
import math
import os
import re
import shutil
import sqlite3
import sys
import time
import traceback
import zoneinfo

from vlib import core
from vlib.gridmodel import GridModel

PID = 'C12'
LEVEL = 'exploration'
BUDGET_S = {'quick': 40, 'thorough': 600}
FLOORS = {'quick': {'tasks': 530, 'must_remove_checked': 5500, 'must_keep_checked': 14000,
                    'foreign_files_checked': 8000, 'strategy_directory_walk': 70, 'strategy_bulk_delete': 100,
                    'strategy_tile_walk': 330, 'vanished_under_cleanup': 150, 'tile_walk_with_cache_refresh_rule': 40, 'tasks_after_a_timeless_cache': 18},
          'thorough': {'tasks': 10000, 'must_remove_checked': 100000, 'must_keep_checked': 270000,
                       'foreign_files_checked': 160000, 'strategy_directory_walk': 1350,
                       'strategy_bulk_delete': 1750, 'strategy_tile_walk': 6600, 'vanished_under_cleanup': 2500}}
RULE = ("case = one cleanup task: backend (file x 6 layouts, sqlite, mbtiles +-timestamps, geopackage +-levels, "
        "compact v1/v2) populated at 3-5 levels with <=60 tiles around the coverage, timestamps T+{-1e6,-3600,-2,"
        "+2,+3600}, foreign files next to it; mapproxy.yaml + seed.yaml (levels list/range/from/to/all, "
        "remove_before time/mtime/delta/default or remove_all, coverage bbox/polygon in grid or other SRS or "
        "full extent, meta_size 1x1..3x3) loaded by the real loader, executed by seed.cleanup.cleanup("
        "concurrency=1). evaluations = per-tile and per-foreign-file oracle judgements. distinct = (backend, "
        "layout, strategy, remove_before kind, coverage class, levels shape); non-trivial = the task has at "
        "least one MUST-REMOVE and one MUST-KEEP tile")
ASSUMPTIONS = [
    "must-remove = level selected AND (remove_all OR mtime <= T-2s) AND coverage reaches more than 2 px (plus "
    "stated transformation slack) into the meta-tile rectangle clipped to the grid bbox; must-keep = level not "
    "selected OR mtime >= T+2s OR unclipped meta-tile rectangle farther than 1 px from the coverage OR not a "
    "tile of the cache; everything between is don't-care",
    "for now-relative thresholds (delta / default) T is bracketed by wall-clock readings before and after "
    "loading; the bracket widens the don't-care band, no verdict depends on sleeping",
    "coverages in another SRS: accepted band spans both the vertex-wise and the densified transformation "
    "(polygons) resp. the true shape and its envelope (bbox)",
    "tiles of backends without timestamps have no age: with a time threshold they are don't-care",
    "mbtiles with timestamps cannot be configured through the loader; the task is built by the loader and the "
    "backend object of its tile manager is replaced by MBTilesCache(with_timestamps=True) before task creation",
    "time zone set per case via TZ/tzset; thresholds chosen away from DST changes",
    "a non-tile file inside a level directory counts as 'not a tile of that cache' (strict reading)",
    "redis/couchdb/s3/azure backends need servers and are not reachable offline; concurrency 1; no dry-run, "
    "no progress store",
]

FILE_LAYOUTS = ['tc', 'mp', 'tms', 'reverse_tms', 'quadkey', 'arcgis']
OTHER_BACKENDS = ['sqlite', 'mbtiles', 'mbtiles_ts', 'geopackage', 'geopackage_levels', 'compact1', 'compact2']
TIMELESS = ('mbtiles', 'geopackage', 'geopackage_levels', 'compact1', 'compact2')
# backends for which the loader itself turns "no timestamps" into remove_all / a configuration error
TIMELESS_DECLARED = ('mbtiles', 'geopackage', 'compact1', 'compact2')

GRIDS = {
    'gm': {'srs': 'EPSG:3857', 'origin': 'll', 'num_levels': 14},
    'gw': {'srs': 'EPSG:3857', 'origin': 'ul', 'num_levels': 13},
    'gg': {'srs': 'EPSG:4326', 'origin': 'll', 'num_levels': 13},
    'ut': {'srs': 'EPSG:25832', 'bbox': [279000.5, 5235000.25, 921000.75, 6102000.5],
           'res': [2800, 1400, 700, 350, 175, 87.5, 43.75, 20, 10, 5, 2.5], 'origin': 'ul',
           'tile_size': [256, 128]},
    'us': {'srs': 'EPSG:25832', 'bbox': [243900.0, 5200000.0, 943900.0, 6100000.0], 'origin': 'll',
           'res_factor': 'sqrt2', 'num_levels': 12, 'tile_size': [200, 200]},
    'sm': {'srs': 'EPSG:3857', 'bbox': [550000.0, 5800000.0, 1720000.0, 7400000.0], 'origin': 'ul',
           'num_levels': 5},
}
POW2_GRIDS = ['gm', 'gw', 'gg']

OFFS = [-10 ** 6, -3600, -2, 2, 3600]
OFFS_NOW = [-10 ** 6, -3600, -30, -2, 2, 30, 3600]
TZS = ['UTC', 'Europe/Berlin', 'America/St_Johns', 'Asia/Kolkata', 'Australia/Lord_Howe']

_GRID_CACHE = {}
_TRANSFORMERS = {}
_VALS = {}


# ---- small helpers -----------------------------------------------------------------------------------------

def gen_grid(name):
    """grid object used for *generating* the workload only (tile windows); the oracle uses GridModel."""
    if name not in _GRID_CACHE:
        from mapproxy.grid import tile_grid
        gc = grid_conf(name)
        _GRID_CACHE[name] = tile_grid(srs=gc['srs'], bbox=gc.get('bbox'), res=gc.get('res'),
                                      origin=gc.get('origin'), num_levels=gc.get('num_levels'),
                                      tile_size=tuple(gc.get('tile_size', (256, 256))),
                                      res_factor=gc.get('res_factor', 2.0), name=name)
    return _GRID_CACHE[name]


def grid_conf(name):
    if name == 'g2a':
        return {'srs': 'EPSG:4326', 'origin': 'll', 'num_levels': 12}
    if name == 'g2b':
        return {'srs': 'EPSG:3857', 'origin': 'll', 'num_levels': 12}
    return GRIDS[name]


def transformer(a, b):
    if (a, b) not in _TRANSFORMERS:
        import pyproj
        _TRANSFORMERS[(a, b)] = pyproj.Transformer.from_crs(a, b, always_xy=True)
    return _TRANSFORMERS[(a, b)]


def value(vid):
    """vid < 100000: unique PNG; vid >= 100000: single colour PNG."""
    if vid not in _VALS:
        from PIL import Image
        if vid >= 100000:
            img = Image.new('RGB', (8, 8), [(255, 0, 0), (0, 128, 255)][vid % 2])
        else:
            img = Image.new('RGB', (8, 8), (10, 20, 30))
            img.putpixel((0, 0), (vid % 256, (vid // 256) % 256, 77))
            img.putpixel((7, 7), (1, 2, 3))
        b = io.BytesIO()
        img.save(b, 'PNG')
        _VALS[vid] = b.getvalue()
        if len(_VALS) > 4000:
            _VALS.clear()
    return _VALS[vid]


def local_str(ts, tz):
    """'YYYY-MM-DD HH:MM:SS' local time of epoch ts in zone tz - the format the sqlite backends write."""
    return datetime.datetime.fromtimestamp(int(math.floor(ts)), zoneinfo.ZoneInfo(tz)).strftime('%Y-%m-%d %H:%M:%S')


def stable_offset(T, tz):
    z = zoneinfo.ZoneInfo(tz)
    offs = set()
    for dt in (-1100000, -90000, -4000, 0, 4000, 90000):
        offs.add(datetime.datetime.fromtimestamp(T + dt, z).utcoffset())
    return len(offs) == 1


def selected_levels(levels_conf, nlevels):
    """the documented meaning of the seed.yaml `levels` option, written independently of the loader."""
    if levels_conf is None:
        return list(range(nlevels))
    if isinstance(levels_conf, list):
        return sorted(set(z for z in levels_conf if 0 <= z < nlevels))
    lo = levels_conf.get('from')
    hi = levels_conf.get('to')
    lo = 0 if lo is None else lo
    hi = nlevels - 1 if hi is None else min(hi, nlevels - 1)
    return list(range(lo, hi + 1))


def infer_strategy(case):
    if case['coverage'] is not None:
        return 'tile_walk'
    if case['backend'] == 'file':
        return 'tile_walk' if case['layout'] == 'reverse_tms' else 'directory_walk'
    return 'bulk_delete'


# ---- workload generation ---------------------------------------------------------------------------------------

def other_srs_for(srs, rng):
    if srs == 'EPSG:3857':
        return 'EPSG:4326'
    if srs == 'EPSG:4326':
        return 'EPSG:3857'
    return rng.choice(['EPSG:4326', 'EPSG:3857'])


def build_case(run, spec):
    """expand a small spec into a fully explicit, replayable case dict."""
    rng = run.rng('case', spec['i'], spec['backend'], spec.get('layout'))
    backend, layout = spec['backend'], spec.get('layout')
    force = spec.get('force', {})
    cov_class = force.get('cov_class') or rng.choices(
        ['full', 'bbox_same', 'bbox_other', 'poly_same', 'poly_other', 'edge_coarse', 'straddle_coarse',
         'poly_whole_grid'],
        [36, 18, 11, 12, 10, 8, 5, 6])[0]
    full = cov_class == 'full'
    # layouts without a level directory fall back to (or, for quadkey, should fall back to) a walk over every
    # tile of the selected levels: keep those levels shallow
    full_walk = full and backend == 'file' and layout in ('reverse_tms', 'quadkey')
    if full_walk or cov_class == 'poly_whole_grid':
        gname = 'sm'
    elif layout == 'quadkey':
        gname = rng.choice(POW2_GRIDS)
    elif cov_class in ('edge_coarse', 'straddle_coarse'):
        gname = rng.choice(['gm', 'gw', 'gg', 'ut'])
    else:
        gname = rng.choice(['gm', 'gw', 'gg', 'ut', 'us', 'sm'])
    gname = force.get('grid', gname)
    grid = gen_grid(gname)
    nl = grid.levels
    meta = force.get('meta') or [rng.randint(1, 3), rng.randint(1, 3)]

    # populated levels
    k = rng.randint(3, 5)
    pool = list(range(nl))
    P = set(rng.sample(pool, min(k, len(pool))))
    if nl > 10 and rng.random() < 0.45:
        P.add(rng.randrange(10, nl))
    if rng.random() < 0.3:
        P.add(0)
    if cov_class in ('edge_coarse', 'straddle_coarse'):
        P.add(rng.randrange(max(5, nl - 6), nl))
    P = sorted(P)[:6]
    if 'populated' in force:
        P = force['populated']

    # selected levels
    shape = force.get('shape') or rng.choice(['list', 'list', 'range', 'range', 'from', 'to', 'all'])
    if cov_class in ('edge_coarse', 'straddle_coarse') and shape in ('from', 'all'):
        shape = 'list'
    if shape == 'list':
        sel = rng.sample(P, rng.randint(1, max(1, len(P) - 1)))
        if cov_class in ('edge_coarse', 'straddle_coarse') and P[-1] not in sel:
            sel.append(P[-1])
        extra = [z for z in range(nl) if z not in P]
        if extra and rng.random() < 0.4:
            sel.append(rng.choice(extra))
        if rng.random() < 0.25:
            sel.append(rng.choice([nl, nl + 5, 99]))
        rng.shuffle(sel)
        levels_conf = sel
    elif shape == 'range':
        i = rng.randrange(len(P))
        j = rng.randrange(i, len(P))
        levels_conf = {'from': P[i], 'to': P[j]}
    elif shape == 'from':
        levels_conf = {'from': P[rng.randrange(len(P))]}
    elif shape == 'to':
        levels_conf = {'to': P[rng.randrange(len(P))] if rng.random() < 0.8 else nl + 3}
    else:
        levels_conf = None
    if 'levels_conf' in force:
        levels_conf = force['levels_conf']
    sel_levels = selected_levels(levels_conf, nl)
    zmax = max(sel_levels)

    # region in grid SRS
    gb = grid.bbox
    sx = grid.resolution(zmax) * grid.tile_size[0]
    sy = grid.resolution(zmax) * grid.tile_size[1]
    W, H = gb[2] - gb[0], gb[3] - gb[1]
    wt = rng.uniform(1.2, 5.0) if rng.random() < 0.8 else rng.uniform(5.0, 9.0)
    ht = rng.uniform(1.2, 5.0) if rng.random() < 0.8 else rng.uniform(5.0, 9.0)
    w, h = min(wt * sx, W * 0.9), min(ht * sy, H * 0.9)
    r = rng.random()
    if r < 0.25 and gname not in POW2_GRIDS:     # pokes over the border of a regional grid
        cx = rng.choice([gb[0] + w * rng.uniform(0.1, 0.6), gb[2] - w * rng.uniform(0.1, 0.6)])
        cy = rng.choice([gb[1] + h * rng.uniform(0.1, 0.6), gb[3] - h * rng.uniform(0.1, 0.6)])
    else:
        cx = rng.uniform(gb[0] + w / 2, gb[2] - w / 2)
        cy = rng.uniform(gb[1] + h / 2, gb[3] - h / 2)
    if grid.srs.srs_code == 'EPSG:4326':
        cy = max(-78.0, min(78.0, cy))
    region = [cx - w / 2, cy - h / 2, cx + w / 2, cy + h / 2]
    coarse = None
    if cov_class in ('edge_coarse', 'straddle_coarse'):
        # put a coverage edge next to a tile boundary of a much coarser level
        zc = rng.randint(1, max(1, min(4, zmax - 3)))
        rc = grid.resolution(zc)
        gsx, gsy = grid.grid_sizes[zc]
        kx = rng.randint(1, max(1, gsx - 1))
        bx = gb[0] + kx * rc * grid.tile_size[0]
        if bx >= gb[2] - w:
            bx = gb[0] + rc * grid.tile_size[0]
        px = grid.resolution(zmax)
        if cov_class == 'edge_coarse':
            intr = rng.choice([3, 5, 10, 30, 100]) * px
            side = rng.choice(['left', 'right'])
            if side == 'left':   # coverage mostly right of the boundary, reaches intr to the left
                region[0], region[2] = bx - intr, bx - intr + w
            else:
                region[0], region[2] = bx + intr - w, bx + intr
            coarse = {'zc': zc, 'intrusion_px': intr / px, 'side': side}
        else:
            wpx = rng.choice([6, 12, 40, 120])
            region[0], region[2] = bx - wpx * px / 2, bx + wpx * px / 2
            coarse = {'zc': zc, 'width_px': wpx}
    if gname in POW2_GRIDS:      # stay inside the world: coordinates beyond it are not valid input
        region = [max(region[0], gb[0]), max(region[1], gb[1]), min(region[2], gb[2]), min(region[3], gb[3])]
    if cov_class == 'poly_whole_grid':
        # a polygon whose bounding box is (a little more than) the whole grid but which leaves part of it out
        gx, gy = (gb[2] - gb[0]) * 0.01, (gb[3] - gb[1]) * 0.01
        region = [gb[0] - gx, gb[1] - gy, gb[2] + gx, gb[3] + gy]
        if gname in POW2_GRIDS:
            region = list(gb)
    region = [float(v) for v in region]

    # coverage configuration
    coverage = None
    gsrs = grid.srs.srs_code
    if not full:
        kind = 'polygon' if cov_class.startswith('poly') else 'bbox'
        other = cov_class.endswith('_other')
        csrs = other_srs_for(gsrs, rng) if other else gsrs
        if other:
            tr = transformer(gsrs, csrs)
            xs, ys = tr.transform([region[0], region[2], region[0], region[2]],
                                  [region[1], region[1], region[3], region[3]])
            cb = [min(xs), min(ys), max(xs), max(ys)]
        else:
            cb = list(region)
        if kind == 'bbox':
            coverage = {'kind': 'bbox', 'srs': csrs, 'bbox': cb, 'form': rng.choice(['bbox', 'datasource'])}
        else:
            x0, y0, x1, y1 = cb
            ww, hh = x1 - x0, y1 - y0
            pshape = rng.choice(['tri', 'quad', 'L', 'hole']) if cov_class != 'poly_whole_grid' else rng.choice(['L', 'hole'])
            if pshape == 'tri':
                pts = [(x0, y0), (x1, y0 + hh * rng.uniform(0, 0.5)), (x0 + ww * rng.uniform(0.2, 0.8), y1)]
                rings = [pts]
            elif pshape == 'quad':
                pts = [(x0 + ww * rng.uniform(0, 0.4), y0), (x1, y0 + hh * rng.uniform(0, 0.4)),
                       (x1 - ww * rng.uniform(0, 0.4), y1), (x0, y1 - hh * rng.uniform(0, 0.4))]
                rings = [pts]
            elif pshape == 'L':
                mx_, my_ = x0 + ww * rng.uniform(0.3, 0.6), y0 + hh * rng.uniform(0.3, 0.6)
                rings = [[(x0, y0), (x1, y0), (x1, my_), (mx_, my_), (mx_, y1), (x0, y1)]]
            else:
                rings = [[(x0, y0), (x1, y0), (x1, y1), (x0, y1)],
                         [(x0 + ww * 0.3, y0 + hh * 0.3), (x0 + ww * 0.3, y0 + hh * 0.7),
                          (x0 + ww * 0.7, y0 + hh * 0.7), (x0 + ww * 0.7, y0 + hh * 0.3)]]
            wkt = 'POLYGON(' + ','.join(
                '(' + ','.join('%r %r' % (float(px_), float(py_)) for px_, py_ in ring + [ring[0]]) + ')'
                for ring in rings) + ')'
            coverage = {'kind': 'polygon', 'srs': csrs, 'wkt': wkt, 'shape': pshape}

    # tiles around the region on every populated level
    tiles = []
    for z in P:
        gsx, gsy = grid.grid_sizes[z]
        res = grid.resolution(z)
        eps = res / 1000.0
        xa, ya, _ = grid.tile(min(max(region[0], gb[0]), gb[2] - eps), min(max(region[1], gb[1]), gb[3] - eps), z)
        xb, yb, _ = grid.tile(max(min(region[2], gb[2] - eps), gb[0]), max(min(region[3], gb[3] - eps), gb[1]), z)
        x0, x1 = sorted((xa, xb))
        y0, y1 = sorted((ya, yb))
        cx0, cx1 = max(0, x0), min(gsx - 1, x1)
        cy0, cy1 = max(0, y0), min(gsy - 1, y1)
        mx_, my_ = meta[0] + 1, meta[1] + 1
        rx0, rx1 = max(0, x0 - mx_), min(gsx - 1, x1 + mx_)
        ry0, ry1 = max(0, y0 - my_), min(gsy - 1, y1 + my_)
        picked = []

        def pick_from(ax, bx_, ay, by_, n, avoid=None):
            if ax > bx_ or ay > by_:
                return
            total = (bx_ - ax + 1) * (by_ - ay + 1)
            if total <= 4 * n + 16:
                cand = [(x, y) for x in range(ax, bx_ + 1) for y in range(ay, by_ + 1)
                        if not (avoid and avoid[0] <= x <= avoid[1] and avoid[2] <= y <= avoid[3])]
                cand = [c for c in cand if c not in picked]
                picked.extend(cand if len(cand) <= n else rng.sample(cand, n))
            else:
                # large window (level deeper than the coverage was sized for): corners, edges, random interior
                cand = {(ax, ay), (bx_, by_), (ax, by_), (bx_, ay)}
                tries = 0
                while len(cand) < n and tries < 10 * n:
                    tries += 1
                    cand.add((rng.choice([ax, bx_, rng.randint(ax, bx_)]), rng.choice([ay, by_, rng.randint(ay, by_)])))
                for c in sorted(cand):
                    if avoid and avoid[0] <= c[0] <= avoid[1] and avoid[2] <= c[1] <= avoid[3]:
                        continue
                    if c not in picked and len(picked) < 14:
                        picked.append(c)
        pick_from(cx0, cx1, cy0, cy1, 7)
        pick_from(rx0, rx1, ry0, ry1, 6, avoid=(cx0, cx1, cy0, cy1))
        for (x, y) in picked:
            if layout == 'quadkey' and (x >= (1 << z) or y >= (1 << z)):
                continue
            tiles.append([x, y, z])

    # remove_before
    timeless = backend in TIMELESS
    if 'rb' in force:
        rbk = force['rb']
    elif timeless:
        rbk = rng.choices(['remove_all', 'default', 'time'], [5, 3, 2])[0]
    else:
        rbk = rng.choices(['remove_all', 'time', 'time_native', 'mtime', 'delta', 'default'], [3, 4, 2, 4, 3, 2])[0]
    tz = 'UTC'
    rb = {'kind': rbk}
    if rbk in ('time', 'time_native', 'mtime', 'remove_all'):
        tz = rng.choice(TZS)
        while True:
            T = rng.randrange(1325376000, 1735000000)
            if stable_offset(T, tz):
                break
        rb['T'] = T
        if rbk == 'mtime' and rng.random() < 0.3:
            rb['T'] = T + 0.5
    elif rbk == 'delta':
        form = rng.choice(['days', 'weeks_hours', 'minutes', 'seconds', 'mixed'])
        if form == 'days':
            rb['delta'] = {'days': rng.randint(40, 3000)}
        elif form == 'weeks_hours':
            rb['delta'] = {'weeks': rng.randint(6, 300), 'hours': rng.randint(1, 23)}
        elif form == 'minutes':
            rb['delta'] = {'minutes': rng.randint(10 ** 5, 10 ** 6)}
        elif form == 'seconds':
            rb['delta'] = {'seconds': rng.randint(10 ** 7, 10 ** 8)}
        else:
            rb['delta'] = {'weeks': rng.randint(5, 20), 'days': rng.randint(1, 6), 'hours': rng.randint(1, 23),
                           'minutes': rng.randint(1, 59), 'seconds': rng.randint(1, 59)}
    offs = OFFS_NOW if rbk in ('delta', 'default') else OFFS
    for t in tiles:
        t.append(rng.choice(offs))

    link = backend == 'file' and rng.random() < 0.15
    if link:
        for t in tiles:
            t.append(1 if rng.random() < 0.3 else 0)
    two_grids = backend in ('file', 'sqlite', 'geopackage_levels', 'compact1', 'compact2') and rng.random() < 0.4
    return {'kind': 'explicit', 'backend': backend, 'layout': layout, 'grid': gname, 'meta': meta,
            'levels_conf': levels_conf, 'shape': shape, 'rb': rb, 'tz': tz, 'coverage': coverage,
            'cov_class': cov_class, 'coarse': coarse, 'tiles': tiles, 'link': link, 'two_grids': two_grids,
            'populated': P,
            # the cache's own refresh rule (mapproxy.yaml, refresh_before) is about serving, not about what a cleanup
            # has to remove: half an hour to either side of the cleanup's threshold
            'cache_refresh': rng.choice([None, None, -1800, 1800]) if rbk in ('time', 'time_native', 'mtime') else None,
            # a second cache without time stamps (mbtiles) listed before this one in the same cleanup section: for it the
            # documented meaning of 'no remove_before' is 'remove everything'; that must not rub off on this cache
            'timeless_first': bool(rbk == 'default' and backend not in TIMELESS and rng.random() < 0.6),
            # a concurrent remover (second cleanup, seeder rewriting a tile): some tile files vanish in the very
            # moment the cleanup looks at them
            'vanish': (spec['i'] * 7919 + 13) if (backend == 'file' and not link and spec['i'] % 3 == 0) else None}


# ---- backend plumbing ------------------------------------------------------------------------------------------

def cache_yaml(backend, layout, link):
    if backend == 'file':
        return {'type': 'file', 'directory_layout': layout}
    if backend == 'sqlite':
        return {'type': 'sqlite'}
    if backend in ('mbtiles', 'mbtiles_ts'):
        return {'type': 'mbtiles'}
    if backend == 'geopackage':
        return {'type': 'geopackage'}
    if backend == 'geopackage_levels':
        return {'type': 'geopackage', 'levels': True}
    if backend == 'compact1':
        return {'type': 'compact', 'version': 1}
    if backend == 'compact2':
        return {'type': 'compact', 'version': 2}
    raise ValueError(backend)


def expected_path(backend, base, cname, gname, srs):
    """where the documentation says the cache lives."""
    if backend == 'file':
        return os.path.join(base, cname + '_' + srs.replace(':', ''))
    if backend in ('sqlite', 'geopackage_levels', 'compact1', 'compact2'):
        return os.path.join(base, cname, gname)
    if backend in ('mbtiles', 'mbtiles_ts'):
        return os.path.join(base, cname + '.mbtiles')
    if backend == 'geopackage':
        return os.path.join(base, cname + '.gpkg')
    raise ValueError(backend)


def make_cache(backend, layout, path, grid, table, link=False):
    if backend == 'file':
        from mapproxy.cache.file import FileCache
        return FileCache(path, 'png', directory_layout=layout, link_single_color_images=link)
    if backend in ('mbtiles', 'mbtiles_ts'):
        from mapproxy.cache.mbtiles import MBTilesCache
        return MBTilesCache(path, with_timestamps=(backend == 'mbtiles_ts'))
    if backend == 'sqlite':
        from mapproxy.cache.mbtiles import MBTilesLevelCache
        return MBTilesLevelCache(path)
    if backend == 'geopackage':
        from mapproxy.cache.geopackage import GeopackageCache
        return GeopackageCache(path, grid, table)
    if backend == 'geopackage_levels':
        from mapproxy.cache.geopackage import GeopackageLevelCache
        return GeopackageLevelCache(path, grid, table)
    if backend == 'compact1':
        from mapproxy.cache.compact import CompactCacheV1
        return CompactCacheV1(path)
    if backend == 'compact2':
        from mapproxy.cache.compact import CompactCacheV2
        return CompactCacheV2(path)
    raise ValueError(backend)


def cache_path_of(c):
    return (getattr(c, 'cache_dir', None) or getattr(c, 'mbtile_file', None)
            or getattr(c, 'geopackage_file', None))


def close_cache(c):
    try:
        if hasattr(c, 'cleanup'):
            c.cleanup()
    except Exception:
        pass


def store(cache, coord, data):
    from mapproxy.cache.tile import Tile
    from mapproxy.image import ImageSource
    t = Tile(tuple(coord))
    t.source = ImageSource(io.BytesIO(data))
    cache.store_tile(t)


def read_tile(cache, coord):
    from mapproxy.cache.tile import Tile
    cached = bool(cache.is_cached(Tile(tuple(coord))))
    t = Tile(tuple(coord))
    cache.load_tile(t)
    data = None
    if t.source is not None:
        buf = t.source.as_buffer()
        try:
            buf.seek(0)
        except Exception:
            pass
        data = buf.read()
        t.source.close_buffers()
    return cached, data


def set_sql_timestamps(dbfile, rows, tz):
    """rows: [(x, y, z, ts)] -> last_modified in the textual local-time format the backend writes itself."""
    con = sqlite3.connect(dbfile)
    try:
        con.executemany("UPDATE tiles SET last_modified = ? WHERE tile_column = ? AND tile_row = ? AND zoom_level = ?",
                        [(local_str(ts, tz), x, y, z) for x, y, z, ts in rows])
        con.commit()
    finally:
        con.close()


def sql_tiles(dbfile, table='tiles'):
    if not os.path.isfile(dbfile):
        return set()
    con = sqlite3.connect('file:%s?mode=ro' % dbfile, uri=True)
    try:
        has = con.execute("SELECT name FROM sqlite_master WHERE type='table' AND name=?", (table,)).fetchone()
        if not has:
            return set()
        return set((r[1], r[2], r[0]) for r in con.execute(
            "SELECT zoom_level, tile_column, tile_row FROM [%s]" % table))
    finally:
        con.close()


def raw_listing(backend, path, table):
    """what is physically there, without the cache API. returns ('files', set(paths)) or ('tiles', set(coords))
    or ('leveldirs', set(levels))."""
    if backend == 'file':
        out = set()
        for dp, dn, fn in os.walk(path):
            for f in fn:
                out.add(os.path.join(dp, f))
        return 'files', out
    if backend in ('mbtiles', 'mbtiles_ts'):
        return 'tiles', sql_tiles(path)
    if backend == 'geopackage':
        return 'tiles', sql_tiles(path, table)
    if backend in ('sqlite', 'geopackage_levels'):
        ext = '.mbtile' if backend == 'sqlite' else '.gpkg'
        tb = 'tiles' if backend == 'sqlite' else table
        out = set()
        if os.path.isdir(path):
            for f in os.listdir(path):
                m = re.match(r'^(\d+)' + re.escape(ext) + '$', f)
                if m:
                    for (x, y, z) in sql_tiles(os.path.join(path, f), tb):
                        if z == int(m.group(1)):
                            out.add((x, y, z))
        return 'tiles', out
    levels = set()
    if os.path.isdir(path):
        for f in os.listdir(path):
            m = re.match(r'^L(\d\d)$', f)
            if m and any(n.endswith('.bundle') for n in os.listdir(os.path.join(path, f))):
                levels.add(int(m.group(1)))
    return 'leveldirs', levels


def is_main_container(backend, main_path, p):
    """does path p belong to the tile storage of the cache under cleanup (then it is not 'foreign')?"""
    if backend == 'file':
        return False       # decided by the recorded tile paths
    if backend in ('mbtiles', 'mbtiles_ts', 'geopackage'):
        return p == main_path or p.startswith(main_path + '-') or p.startswith(main_path + '.')
    if not p.startswith(main_path + os.sep):
        return False
    rel = p[len(main_path) + 1:]
    if backend == 'sqlite':
        return re.match(r'^\d+\.mbtile([-.].*)?$', rel) is not None
    if backend == 'geopackage_levels':
        return re.match(r'^\d+\.gpkg([-.].*)?$', rel) is not None
    return re.match(r'^L\d\d/R[0-9a-f]{4}C[0-9a-f]{4}\.(bundle|bundlx|lck)$', rel) is not None


def file_sig(p):
    if os.path.islink(p):
        return 'link:' + os.readlink(p)
    with open(p, 'rb') as f:
        return hashlib.sha1(f.read()).hexdigest()


def snapshot(root, skip):
    snap = {}
    for dp, dn, fn in os.walk(root):
        for f in fn:
            p = os.path.join(dp, f)
            if skip(p):
                continue
            snap[p] = file_sig(p)
    return snap


# ---- oracle geometry -------------------------------------------------------------------------------------------

def densify(ring, n):
    out = []
    for (ax, ay), (bx, by) in zip(ring[:-1], ring[1:]):
        for i in range(n):
            out.append((ax + (bx - ax) * i / n, ay + (by - ay) * i / n))
    out.append(ring[-1])
    return out


def tr_ring(tr, ring):
    xs, ys = tr.transform([p[0] for p in ring], [p[1] for p in ring])
    return list(zip(xs, ys))


def tr_polygon(tr, poly, n):
    from shapely.geometry import Polygon
    ext = list(poly.exterior.coords)
    ints = [list(r.coords) for r in poly.interiors]
    if n > 1:
        ext = densify(ext, n)
        ints = [densify(r, n) for r in ints]
    p = Polygon(tr_ring(tr, ext), [tr_ring(tr, r) for r in ints])
    if not p.is_valid:
        p = p.buffer(0)
    return p


def coverage_geoms(cov, gsrs):
    """(lo, hi, slack): the task coverage in grid SRS; lo = certainly covered, hi = possibly covered."""
    from shapely.geometry import box
    from shapely import wkt as swkt
    if cov is None:
        return None, None, 0.0
    if cov['kind'] == 'bbox':
        b = cov['bbox']
        if cov['srs'] == gsrs:
            g = box(*b)
            return g, g, 2e-6 * max(b[2] - b[0], b[3] - b[1])
        tr = transformer(cov['srs'], gsrs)
        true = tr_polygon(tr, box(*b), 256)
        env = true.bounds
        ring4 = densify(list(box(*b).exterior.coords), 4)
        pts = tr_ring(tr, ring4)
        e4 = (min(p[0] for p in pts), min(p[1] for p in pts), max(p[0] for p in pts), max(p[1] for p in pts))
        scale = max(env[2] - env[0], env[3] - env[1])
        eps = max(abs(a - c) for a, c in zip(env, e4)) + 1e-9 * scale
        lo = true.buffer(-eps)
        return lo, box(*env), eps + 2e-6 * scale
    poly = swkt.loads(cov['wkt'])
    if cov['srs'] == gsrs:
        b = poly.bounds
        return poly, poly, 2e-6 * max(b[2] - b[0], b[3] - b[1])
    tr = transformer(cov['srs'], gsrs)
    p1 = tr_polygon(tr, poly, 1)
    p2 = tr_polygon(tr, poly, 64)
    b = p2.bounds
    return p1.intersection(p2), p1.union(p2), 2e-6 * max(b[2] - b[0], b[3] - b[1])


def meta_rects(model, gsizes, meta, coord):
    """unclipped and clipped rectangle of the meta tile that contains coord (blocks anchored at tile 0,0)."""
    x, y, z = coord
    mx = min(meta[0], gsizes[z][0])
    my = min(meta[1], gsizes[z][1])
    bx, by = x // mx * mx, y // my * my
    a = model.tile_rect(bx, by, z)
    b = model.tile_rect(bx + mx - 1, by + my - 1, z)
    U = (float(min(a[0], b[0])), float(min(a[1], b[1])), float(max(a[2], b[2])), float(max(a[3], b[3])))
    gb = [float(v) for v in model.bbox]
    C = (max(U[0], gb[0]), max(U[1], gb[1]), min(U[2], gb[2]), min(U[3], gb[3]))
    if C[0] >= C[2] or C[1] >= C[3]:
        C = None
    return U, C


def geo_class(U, C, res, lo, hi, slack):
    from shapely.geometry import box
    if lo is None:
        return 'in'
    m = 2 * res + slack
    if C is not None and C[2] - C[0] > 2 * m and C[3] - C[1] > 2 * m and not lo.is_empty:
        if box(C[0] + m, C[1] + m, C[2] - m, C[3] - m).intersects(lo):
            return 'in'
    o = res + slack
    if not box(U[0] - o, U[1] - o, U[2] + o, U[3] + o).intersects(hi):
        return 'out'
    return 'band'


def coarse_inset_level(model, gsizes, meta, cb, coord, upto):
    """Mechanism classifier (not part of the verdict): the tile walk descends from level 0 and at every level L
    keeps only the (meta) tile columns/rows between the tiles that contain (coverage bbox min + res_L/10) and
    (coverage bbox max - res_L/10).  Returns the first level L < upto at which this range is empty ('empty')
    or does not contain the tile `coord` (L), else None."""
    if coord is not None:
        r = model.tile_rect(*coord)
        px, py = (r[0] + r[2]) / 2, (r[1] + r[3]) / 2
    for L in range(upto):
        d = model.res[L] / 10
        ax, ay = model.tile_index(cb[0] + float(d), cb[1] + float(d), L)
        bx, by = model.tile_index(cb[2] - float(d), cb[3] - float(d), L)
        if model.ul:
            ay, by = by, ay
        if ax > bx or ay > by:
            return 'empty', L
        if coord is None:
            continue
        mx = min(meta[0], gsizes[L][0])
        my = min(meta[1], gsizes[L][1])
        tx, ty = model.tile_index(px, py, L)
        if not (ax // mx * mx <= tx <= bx // mx * mx + mx - 1 and ay // my * my <= ty <= by // my * my + my - 1):
            return 'excluded', L
    return None, None


# ---- execution -------------------------------------------------------------------------------------------------

def execute(run, case):
    d = run.subdir('c12')
    old_tz = os.environ.get('TZ')
    try:
        os.environ['TZ'] = case['tz']
        time.tzset()
        return _execute(run, case, d)
    finally:
        if old_tz is None:
            os.environ.pop('TZ', None)
        else:
            os.environ['TZ'] = old_tz
        time.tzset()
        shutil.rmtree(d, ignore_errors=True)


def _execute(run, case, d):
    import yaml
    from mapproxy.config.loader import load_configuration
    from mapproxy.seed.config import load_seed_tasks_conf, SeedConfigurationError
    import mapproxy.seed.cleanup as cleanup_mod

    backend, layout, gname = case['backend'], case['layout'], case['grid']
    gconf = dict(grid_conf(gname))
    gsrs = gconf['srs']
    rb = case['rb']
    tz = case['tz']
    strategy = infer_strategy(case)
    base = os.path.join(d, 'cache_data')
    os.makedirs(base)
    g2 = None
    if case.get('two_grids'):
        g2 = 'g2a' if gsrs != 'EPSG:4326' else 'g2b'

    taken = []

    def mech(obs, **kw):
        m = {'backend': backend, 'layout': layout, 'strategy': taken[0] if taken else strategy, 'obs': obs}
        if victims:
            m['files_vanish_under_cleanup'] = True
        if case.get('timeless_first'):
            m['after_timeless_cache_in_same_section'] = True
        if case.get('cache_refresh') is not None:
            m['cache_has_refresh_before'] = 'earlier' if case['cache_refresh'] < 0 else 'later'
        m.update(kw)
        return m

    # -- configuration files
    grids = {gname: gconf}
    if g2:
        grids[g2] = dict(grid_conf(g2))
    ccache = {'sources': [], 'grids': [gname] + ([g2] if g2 else []), 'meta_size': list(case['meta']),
              'cache': cache_yaml(backend, layout, case.get('link'))}
    ocache = {'sources': [], 'grids': [gname], 'meta_size': [2, 2],
              'cache': cache_yaml(backend, layout, False)}
    if case.get('link'):
        ccache['link_single_color_images'] = True
    if case.get('cache_refresh') is not None:
        ccache['refresh_before'] = {'time': local_str(rb['T'] + case['cache_refresh'], case['tz']).replace(' ', 'T')}
    mp = {'globals': {'cache': {'base_dir': base}}, 'services': {'demo': None}, 'grids': grids,
          'caches': {'c': ccache, 'o': ocache}}
    if case.get('timeless_first'):
        mp['caches']['a_timeless'] = {'sources': [], 'grids': [gname], 'cache': {'type': 'mbtiles', 'filename': 'a_timeless.mbtiles'}}
    mp_file = os.path.join(d, 'mapproxy.yaml')
    with open(mp_file, 'w') as f:
        yaml.safe_dump(mp, f)

    now_rel = rb['kind'] in ('delta', 'default')
    if now_rel:
        dsec = 0
        if rb['kind'] == 'delta':
            dl = rb['delta']
            dsec = (dl.get('weeks', 0) * 604800 + dl.get('days', 0) * 86400 + dl.get('hours', 0) * 3600
                    + dl.get('minutes', 0) * 60 + dl.get('seconds', 0))
        T0 = int(time.time()) - dsec
    else:
        dsec = None
        T0 = rb['T']

    cl = {'caches': ['c'], 'grids': [gname]}
    if case.get('timeless_first'):
        cl['caches'] = ['a_timeless', 'c']
    if case['levels_conf'] is not None:
        cl['levels'] = case['levels_conf']
    if rb['kind'] == 'remove_all':
        cl['remove_all'] = True
    elif rb['kind'] == 'time':
        cl['remove_before'] = {'time': local_str(T0, tz).replace(' ', 'T')}
    elif rb['kind'] == 'time_native':
        cl['remove_before'] = {'time': datetime.datetime.strptime(local_str(T0, tz), '%Y-%m-%d %H:%M:%S')}
    elif rb['kind'] == 'mtime':
        stamp = os.path.join(d, 'stamp.txt')
        with open(stamp, 'w') as f:
            f.write('x')
        os.utime(stamp, (T0, T0))
        cl['remove_before'] = {'mtime': 'stamp.txt'}
    elif rb['kind'] == 'delta':
        cl['remove_before'] = dict(rb['delta'])
    seed = {'cleanups': {'cl': cl}}
    cov = case['coverage']
    if cov is not None:
        if cov['kind'] == 'bbox':
            if cov.get('form') == 'datasource':
                seed['coverages'] = {'cov': {'datasource': list(cov['bbox']), 'srs': cov['srs']}}
            else:
                seed['coverages'] = {'cov': {'bbox': list(cov['bbox']), 'srs': cov['srs']}}
        else:
            with open(os.path.join(d, 'cov.wkt'), 'w') as f:
                f.write(cov['wkt'])
            seed['coverages'] = {'cov': {'datasource': 'cov.wkt', 'srs': cov['srs']}}
        cl['coverages'] = ['cov']
    seed_file = os.path.join(d, 'seed.yaml')
    with open(seed_file, 'w') as f:
        yaml.safe_dump(seed, f)

    conf = load_configuration(mp_file, seed=True)
    rgrid = conf.grids[gname].tile_grid()
    model = GridModel(rgrid.bbox, rgrid.resolutions, rgrid.tile_size, rgrid.origin)
    nlevels = len(rgrid.resolutions)
    gsizes = [tuple(rgrid.grid_sizes[z]) for z in range(nlevels)]
    for z in range(nlevels):
        if tuple(model.grid_size(z)) != gsizes[z]:
            run.count('gridsize_model_mismatch')
    table = 'c_' + gname

    # -- populate: main cache, sibling cache 'o', optional second grid of 'c'
    main_path = expected_path(backend, base, 'c', gname, gsrs)
    other_path = expected_path(backend, base, 'o', gname, gsrs)
    main = make_cache(backend, layout, main_path, rgrid, table, link='symlink' if case.get('link') else False)
    stored = {}      # coord -> {'ts', 'data', 'path'}
    vid = 0
    for t in case['tiles']:
        coord = (t[0], t[1], t[2])
        if coord in stored:
            continue
        vid += 1
        single = bool(case.get('link') and len(t) > 4 and t[4])
        data = value(100000 + vid % 2) if single else value(vid)
        store(main, coord, data)
        ent = {'ts': T0 + t[3], 'data': data, 'off': t[3]}
        if backend == 'file':
            from mapproxy.cache.tile import Tile
            ent['path'] = main.tile_location(Tile(coord))
            os.utime(ent['path'], (ent['ts'], ent['ts']), follow_symlinks=False)
        stored[coord] = ent
    close_cache(main)
    if backend == 'sqlite':
        bylev = {}
        for (x, y, z), e in stored.items():
            bylev.setdefault(z, []).append((x, y, z, e['ts']))
        for z, rows in bylev.items():
            set_sql_timestamps(os.path.join(main_path, '%d.mbtile' % z), rows, tz)
    elif backend == 'mbtiles_ts':
        set_sql_timestamps(main_path, [(x, y, z, e['ts']) for (x, y, z), e in stored.items()], tz)
    if backend in TIMELESS:
        for e in stored.values():
            e['ts'] = None

    old = T0 - 10 ** 6
    where = {}        # foreign path -> class

    def foreign(path, cls, data=b'keep me'):
        os.makedirs(os.path.dirname(path), exist_ok=True)
        with open(path, 'wb') as f:
            f.write(data)
        os.utime(path, (old, old))
        where[path] = cls

    ocoords = sorted(stored)[::3][:12]
    oc = make_cache(backend, layout, other_path, rgrid, 'o_' + gname)
    for i, coord in enumerate(ocoords):
        store(oc, coord, value(50000 + i))
        if backend == 'file':
            from mapproxy.cache.tile import Tile
            os.utime(oc.tile_location(Tile(coord)), (old, old))
    close_cache(oc)
    if backend == 'sqlite':
        for z in set(c[2] for c in ocoords):
            set_sql_timestamps(os.path.join(other_path, '%d.mbtile' % z),
                               [(x, y, zz, old) for (x, y, zz) in ocoords if zz == z], tz)
    elif backend == 'mbtiles_ts':
        set_sql_timestamps(other_path, [(x, y, z, old) for (x, y, z) in ocoords], tz)
    g2_path = None
    if g2:
        g2grid = conf.grids[g2].tile_grid()
        g2_path = expected_path(backend, base, 'c', g2, grid_conf(g2)['srs'])
        gc = make_cache(backend, layout, g2_path, g2grid, 'c_' + g2)
        n2 = 0
        for coord in sorted(stored):
            x, y, z = coord
            if z < g2grid.levels and x < g2grid.grid_sizes[z][0] and y < g2grid.grid_sizes[z][1]:
                store(gc, coord, value(60000 + n2))
                if backend == 'file':
                    from mapproxy.cache.tile import Tile
                    os.utime(gc.tile_location(Tile(coord)), (old, old))
                n2 += 1
                if n2 >= 10:
                    break
        close_cache(gc)
        if backend == 'sqlite' and os.path.isdir(g2_path):
            for f in os.listdir(g2_path):
                m = re.match(r'^(\d+)\.mbtile$', f)
                if m:
                    con = sqlite3.connect(os.path.join(g2_path, f))
                    con.execute("UPDATE tiles SET last_modified = ?", (local_str(old, tz),))
                    con.commit()
                    con.close()

    foreign(os.path.join(base, 'tile_locks', '0a1b2c3d.lck'), 'tile_locks', b'')
    root_is_dir = backend not in ('mbtiles', 'mbtiles_ts', 'geopackage')
    foreign(os.path.join(main_path if root_is_dir else base, 'README'), 'cache_root')
    if backend == 'file':
        foreign(os.path.join(main_path, 'single_color_tiles', 'a0b1c2.png'), 'single_color_tiles', value(100001))
        done_levels = set()
        for coord in sorted(stored):
            z = coord[2]
            if z in done_levels or len(done_levels) >= 3:
                continue
            done_levels.add(z)
            p = stored[coord]['path']
            rel = os.path.relpath(p, main_path).split(os.sep)
            if len(rel) > 1:       # first directory below the cache root: the level directory (row dir for reverse_tms)
                cls = 'level_dir' if layout != 'reverse_tms' else 'row_dir'
                foreign(os.path.join(main_path, rel[0], 'notes.txt'), cls)
    elif backend in ('compact1', 'compact2'):
        for z in sorted(set(c[2] for c in stored))[:3]:
            foreign(os.path.join(main_path, 'L%02d' % z, 'notes.txt'), 'level_dir')
    elif root_is_dir:
        foreign(os.path.join(main_path, 'notes.txt'), 'cache_root')

    tile_paths = set(e['path'] for e in stored.values() if 'path' in e)

    def skip(p):
        return p in tile_paths or is_main_container(backend, main_path, p)
    snap = snapshot(d, skip)
    for p in snap:
        if p not in where:
            if p.startswith(other_path):
                where[p] = 'other_cache'
            elif g2_path and p.startswith(g2_path):
                where[p] = 'other_grid'
            elif p.startswith(os.path.join(main_path, 'single_color_tiles')):
                where[p] = 'single_color_tiles'
            else:
                where[p] = 'config'

    # sanity: everything stored is visible before the cleanup (else the harness is broken, not the code)
    kind0, raw0 = raw_listing(backend, main_path, table)
    for coord, e in stored.items():
        ok = (e['path'] in raw0) if kind0 == 'files' else (coord in raw0 if kind0 == 'tiles' else coord[2] in raw0)
        if not ok:
            raise AssertionError('stored tile %s not visible before cleanup (%s)' % (coord, backend))

    # -- build the task with the real loader
    t_before = time.time()
    rejected = None
    tasks = []
    with conf:
        seed_conf = load_seed_tasks_conf(seed_file, conf)
        if backend == 'mbtiles_ts':
            from mapproxy.cache.mbtiles import MBTilesCache
            for tg, extent, mgr in conf.caches['c'].caches():
                mgr.cache = MBTilesCache(cache_path_of(mgr.cache), with_timestamps=True)
        try:
            tasks = seed_conf.cleanups(['cl'])
        except SeedConfigurationError as ex:
            rejected = ex
    t_after = time.time()
    expect_reject = backend in TIMELESS_DECLARED and rb['kind'] in ('time', 'time_native', 'mtime', 'delta')
    if rejected is not None and not expect_reject:
        raise AssertionError('seed configuration unexpectedly rejected: %r' % (rejected,))
    if rejected is None:
        if expect_reject:
            run.count('timeless_remove_before_not_rejected')
        want_tasks = 2 if case.get('timeless_first') else 1
        if len(tasks) != want_tasks:
            raise AssertionError('expected %d cleanup task(s), got %d' % (want_tasks, len(tasks)))
        task = tasks[-1]
        if case.get('timeless_first'):
            if tasks[0].md['cache_name'] != 'a_timeless' or task.md['cache_name'] != 'c':
                raise AssertionError('unexpected task order %r' % ([t.md for t in tasks],))
            run.hit('tasks_after_a_timeless_cache')
        got = os.path.normpath(cache_path_of(task.tile_manager.cache))
        if got != os.path.normpath(main_path):
            raise AssertionError('cache lives at %s, expected %s' % (got, main_path))

    # -- oracle: threshold, levels, coverage
    if rb['kind'] == 'remove_all':
        T_lo = T_hi = None
    elif now_rel:
        T_lo = math.floor(t_before) - dsec - 1
        T_hi = t_after - dsec
    else:
        T_lo = T_hi = T0
    remove_all = rb['kind'] == 'remove_all' or (backend in TIMELESS_DECLARED and rb['kind'] == 'default')
    sel = set(selected_levels(case['levels_conf'], nlevels))
    lo, hi, slack = coverage_geoms(cov, gsrs)

    # -- fault: tile files that vanish when the cleanup looks at them
    victims = set()
    vanished = set()
    if case.get('vanish') is not None and backend == 'file':
        import random as _random
        vr = _random.Random(case['vanish'])
        victims = set(e['path'] for c_, e in sorted(stored.items()) if vr.random() < 0.2)

    # -- run it
    exc = None
    if rejected is None:
        origs = {}
        for fname, sname in (('simple_cleanup', 'directory_walk'), ('cache_cleanup', 'bulk_delete'),
                             ('tilewalker_cleanup', 'tile_walk')):
            origs[fname] = getattr(cleanup_mod, fname)

            def wrap(orig, sname):
                def w(*a, **kw):
                    taken.append(sname)
                    return orig(*a, **kw)
                return w
            setattr(cleanup_mod, fname, wrap(origs[fname], sname))
        real_lstat = os.lstat
        if victims:
            def lstat_vanishing(path, *a, **kw):
                try:
                    sp = os.fspath(path)
                except TypeError:
                    return real_lstat(path, *a, **kw)
                if sp in victims and sp not in vanished:
                    vanished.add(sp)
                    try:
                        os.remove(sp)
                    except OSError:
                        pass
                return real_lstat(path, *a, **kw)
            os.lstat = lstat_vanishing
        try:
            with conf:
                with contextlib.redirect_stdout(io.StringIO()):
                    cleanup_mod.cleanup(tasks, concurrency=1, dry_run=False, verbose=False)
        except Exception as ex:
            exc = (ex, traceback.format_exc()[-1800:])
        finally:
            os.lstat = real_lstat
            for fname, o in origs.items():
                setattr(cleanup_mod, fname, o)
            try:
                task.tile_manager.cleanup()
            except Exception:
                pass
        for s in taken:
            run.hit('strategy_' + s)
        if 'tile_walk' in taken and case.get('cache_refresh') is not None:
            run.hit('tile_walk_with_cache_refresh_rule')
        if taken and taken[0] != strategy:
            run.count('strategy_differs_from_inference')
            strategy = taken[0]
    else:
        run.count('config_rejected_timeless_remove_before')
    run.hit('tasks')

    summary = {'backend': backend, 'layout': layout, 'grid': gname, 'meta': case['meta'],
               'levels': case['levels_conf'], 'selected': sorted(sel), 'populated': case.get('populated'),
               'remove_before': cl.get('remove_before', 'remove_all' if cl.get('remove_all') else 'default'),
               'tz': tz, 'coverage': seed.get('coverages', {}).get('cov'), 'cov_class': case['cov_class'],
               'coarse': case.get('coarse'), 'strategy': strategy, 'taken': taken}
    if rb['kind'] == 'time_native':
        summary['remove_before'] = {'time': str(cl['remove_before']['time']) + ' (yaml timestamp)'}
    if rejected is None:
        summary['task_levels'] = list(task.levels)
        summary['task_remove_timestamp'] = task.remove_timestamp
        summary['task_remove_all'] = task.remove_all
    summary['oracle_T'] = [T_lo, T_hi]

    cb = hi.bounds if hi is not None else None
    if exc is not None:
        m = mech('exception', exc=type(exc[0]).__name__)
        if strategy == 'tile_walk' and cb is not None:
            k_, L_ = coarse_inset_level(model, gsizes, case['meta'], cb, None, max(sel) + 1)
            m['coarse_level_range_empty'] = k_ == 'empty'
            summary['coarse_level_range_empty_at'] = L_
        run.violation(m, case, "cleanup raised %r\ntask: %s\n%s" % (exc[0], summary, exc[1]))

    # -- observe: raw listing first (the API may create files), then a fresh cache object
    kind1, raw1 = raw_listing(backend, main_path, table)
    fresh = make_cache(backend, layout, main_path, rgrid, table)
    n_rm = n_keep = n_dc = 0
    njudged = 0
    try:
        for coord in sorted(stored):
            e = stored[coord]
            z = coord[2]
            U, C = meta_rects(model, gsizes, case['meta'], coord)
            gcl = geo_class(U, C, float(rgrid.resolutions[z]), lo, hi, slack)
            if remove_all:
                tcl = 'old'
            elif rejected is not None:
                tcl = 'new'       # nothing ran: everything must still be there
            elif e['ts'] is None:
                tcl = 'timeless'
            elif e['ts'] <= T_lo - 2:
                tcl = 'old'
            elif e['ts'] >= T_hi + 2:
                tcl = 'new'
            else:
                tcl = 'band'
            if rejected is not None or z not in sel or tcl == 'new' or gcl == 'out':
                verdict = 'keep'
            elif tcl == 'old' and gcl == 'in':
                verdict = 'remove'
            else:
                verdict = 'dc'
                n_dc += 1
                run.dc('timeless_backend_with_time_threshold' if tcl == 'timeless' else
                       ('time_band' if tcl == 'band' else 'coverage_edge_band'))
            if kind1 == 'files':
                p_raw = e['path'] in raw1
            elif kind1 == 'tiles':
                p_raw = coord in raw1
            else:
                p_raw = None if z in raw1 else False
            cached, data = read_tile(fresh, coord)
            p_api = cached or data is not None
            if tcl == 'timeless' and verdict == 'dc':
                run.count('timeless_%s_%s' % (strategy, 'removed' if not p_api else 'kept'))
            if verdict == 'dc':
                continue
            if e.get('path') in victims:
                # removed by the other party or by the cleanup: either way it says nothing
                run.dc('tile_vanished_under_cleanup')
                if e['path'] in vanished:
                    run.hit('vanished_under_cleanup')
                continue
            njudged += 1
            why = {'level_selected': z in sel, 'time': tcl, 'geo': gcl, 'off': e['off'], 'coord': list(coord),
                   'present_raw': p_raw, 'present_api': p_api}
            if verdict == 'remove':
                n_rm += 1
                run.hit('must_remove_checked')
                if exc is not None:
                    continue      # the escaped exception is the finding; survivors are its consequence
                if p_api or p_raw:
                    m = mech('must_remove_tile_survived')
                    if strategy == 'directory_walk':
                        m['two_digit_level'] = z >= 10
                    elif strategy == 'tile_walk' and cb is not None:
                        k_, L_ = coarse_inset_level(model, gsizes, case['meta'], cb, coord, z)
                        m['coarse_level_inset'] = k_ is not None
                        why['lost_at_coarser_level'] = L_
                    run.violation(m, case,
                                  "tile %s should have been removed but is still there: %s\nmeta rect %s, task: %s"
                                  % (coord, why, U, summary))
            else:
                n_keep += 1
                run.hit('must_keep_checked')
                reason = ('level_not_selected' if z not in sel else
                          ('newer_than_threshold' if tcl == 'new' else 'outside_coverage'))
                if rejected is not None:
                    reason = 'task_rejected'
                if not p_api or p_raw is False:
                    run.violation(mech('must_keep_tile_removed', reason=reason), case,
                                  "tile %s must be kept (%s) but is gone: %s\nmeta rect %s, task: %s"
                                  % (coord, reason, why, U, summary))
                elif data != e['data']:
                    run.violation(mech('must_keep_tile_changed', reason=reason), case,
                                  "tile %s must be kept (%s) but its bytes changed\ntask: %s" % (coord, reason, summary))
    finally:
        close_cache(fresh)

    # -- foreign files
    for p, sig in sorted(snap.items()):
        njudged += 1
        run.hit('foreign_files_checked')
        cls = where.get(p, 'config')
        if not (os.path.exists(p) or os.path.islink(p)):
            run.violation(mech('foreign_file_removed', where=cls), case,
                          "foreign file %s (%s) was removed\ntask: %s" % (os.path.relpath(p, d), cls, summary))
        elif file_sig(p) != sig:
            run.violation(mech('foreign_file_modified', where=cls), case,
                          "foreign file %s (%s) was modified\ntask: %s" % (os.path.relpath(p, d), cls, summary))

    lshape = case['shape']
    run.judge((backend, layout, strategy, rb['kind'], case['cov_class'], lshape),
              nontrivial=(n_rm > 0 and n_keep > 0), n=njudged)
    run.count('tiles_stored', len(stored))
    if n_rm and n_keep:
        run.count('tasks_nontrivial')
    summary.update({'must_remove': n_rm, 'must_keep': n_keep, 'dont_care': n_dc, 'foreign': len(snap),
                    'exception': repr(exc[0]) if exc else None})
    return summary


# ---- cases -----------------------------------------------------------------------------------------------------

class _AfterFork(object):
    pass


_AFTER_FORK = _AfterFork()


def _die_with_parent(_obj):
    try:
        import ctypes
        import signal
        ctypes.CDLL(None, use_errno=True).prctl(1, signal.SIGKILL)      # PR_SET_PDEATHSIG
    except Exception:
        pass


def setup_shard(run):
    # the cleanup workers are multiprocessing children blocked on a queue: make sure they do not outlive a
    # shard that is killed by the watchdog
    from multiprocessing import util
    util.register_after_fork(_AFTER_FORK, _die_with_parent)


def backend_configs():
    cfgs = [('file', lay) for lay in FILE_LAYOUTS]
    cfgs += [(b, None) for b in OTHER_BACKENDS]
    return cfgs


def gen_cases(run):
    i = 0
    cfgs = backend_configs()
    # directed: every backend x {full extent, bbox coverage} x {remove_all, time}
    for b, lay in cfgs:
        for covc in ('full', 'bbox_same'):
            for rbk in ('remove_all', 'time'):
                if b in TIMELESS and rbk == 'time':
                    continue
                force = {'cov_class': covc, 'rb': rbk, 'shape': 'list'}
                if covc == 'full' and not (b == 'file' and lay in ('reverse_tms', 'quadkey')):
                    force['grid'] = 'gm' if b != 'file' else 'gw'
                    force['populated'] = [0, 1, 2, 3, 10, 11]
                    force['levels_conf'] = [1, 2, 10]
                yield {'i': i, 'backend': b, 'layout': lay, 'force': force}
                i += 1
    n = run.pick(100, 2000)
    for r in range(n):
        for b, lay in cfgs:
            yield {'i': i, 'backend': b, 'layout': lay}
            i += 1


def run_case(run, case):
    if case.get('kind') != 'explicit':
        spec = case
        case = build_case(run, spec)
    summary = execute(run, case)
    if summary and (summary['must_remove'] and summary['must_keep']):
        run.sample(summary)


def evidence_extra(total):
    return {'exhaustive': False, 'backend_configurations': len(backend_configs())}


if __name__ == '__main__':
    core.main(sys.modules[__name__])
