"""C09 - serving requests never touches files outside the cache and lock directories.

The real application (MapProxyApp built by the real loader, and MultiMapProxy over a directory of project files) lives
inside a JAIL  <scratch>/jail/a/b/c/conf/  with `cache_data`, `locks`, `tile_locks` as the only configured roots.  Every
ancestor and sibling directory inside the jail holds decoy tile trees (all six file layouts, solid magenta tiles),
sentinel files, sqlite/mbtiles/geopackage decoys and decoy project files.  Hostile requests (every hostile value carries
a unique marker token zqx<N>k) are sent over all services; an interpreter audit hook (installed once, active only
while a request is in flight) records every file-system event, resolves its path the way the kernel would (realpath of
the parent + basename, plus the fully followed path for calls that follow a final symlink) and the oracle judges each
request:  a mutating event inside the jail or on a marker path but outside the roots, or any event at all (reads,
listdir) on a marker path / decoy outside the roots, is a violation.  The judged area is the jail plus everything around
it up to the shard's private scratch directory (marker-less traversals of up to 8 levels end there); paths elsewhere are
judged only if they carry a marker.  Afterwards the whole jail outside the roots is compared byte by byte with a
snapshot taken before the first request, and the directories above the jail are checked for stray entries.  A few cases
per run are repeated in a short-lived server process under `strace -f -e trace=%file`: every file system call the kernel
saw on a jail/marker path must have been seen by the audit hook as well (validation of the monitor itself).
"""
import hashlib
import io
import json
import os
import re
import shutil
import sqlite3
import stat
import subprocess
import sys
import threading
import urllib.parse
import urllib.request
from wsgiref.util import setup_testing_defaults

import yaml

from vlib import core, upstream

PID = 'C09'
LEVEL = 'exploration'
BUDGET_S = {'quick': 40, 'thorough': 600}
FLOORS = {
    'quick': {'requests': 3700, 'marker_requests': 3200, 'audit_events_in_flight': 25000, 'mutating_events_checked': 18000,
              'mutating_events_inside_roots': 18000, 'events_inside_roots': 19000, 'marker_events_checked': 4000,
              'control_images_served': 400, 'jail_snapshots_compared': 125, 'cases': 125, 'multiapp_cases': 30,
              'requests_wms': 1400, 'requests_wms_fi': 60, 'requests_wms_legend': 60, 'requests_tms': 370, 'requests_tiles': 120,
              'requests_kml': 120, 'requests_wmts_kvp': 570, 'requests_wmts_rest': 310, 'requests_demo': 240,
              'requests_headers': 120, 'requests_multiapp': 300, 'strace_cases': 1, 'strace_paths_compared': 140,
              'strace_mutating_paths_compared': 130},
    'thorough': {'requests': 80000, 'marker_requests': 70000, 'audit_events_in_flight': 500000, 'mutating_events_checked': 400000,
                 'mutating_events_inside_roots': 400000, 'events_inside_roots': 400000, 'marker_events_checked': 90000,
                 'control_images_served': 9000, 'jail_snapshots_compared': 2800, 'cases': 2800, 'multiapp_cases': 750,
                 'requests_wms': 30000, 'requests_wms_fi': 1300, 'requests_wms_legend': 1300, 'requests_tms': 8000,
                 'requests_tiles': 2600, 'requests_kml': 2600, 'requests_wmts_kvp': 12500, 'requests_wmts_rest': 6900,
                 'requests_demo': 5200, 'requests_headers': 2600, 'requests_multiapp': 7200, 'strace_cases': 4,
                 'strace_paths_compared': 1400, 'strace_mutating_paths_compared': 1400},
}
RULE = ("case = one jail + one configuration variant (forward_req_params on/off, grid origin, WMTS REST template with or "
        "without dimension segments, single app or MultiMapProxy) driven by ~25 items; item = (vector, payload class, "
        "layer/backend) expanded to 1-3 concrete requests (set-up request + hostile request). evaluations = requests "
        "whose in-flight audit events were all judged + jail snapshot comparisons. distinct = (service, vector class, "
        "payload class, backend/layout, dimensions configured on the layer?). non-trivial = the request carries a hostile "
        "value (positive controls with valid values are trivial)")
ASSUMPTIONS = [
    "file-system access of the code under test goes through the interpreter (open/os.*/shutil/sqlite3.connect/glob raise audit "
    "events); C-level access inside sqlite (journal files next to the database) and PIL is covered only by the snapshot "
    "comparison and, in the thorough tier, by the strace cross-check",
    "an audit event fires before the system call: an attempted access of a request-controlled path outside the roots counts "
    "as touching it (it succeeds whenever the attacker-chosen target exists)",
    "reads of the configuration files themselves, of mapproxy's package data and of python/PIL/proj data are not judged; only "
    "paths inside the jail (and around it up to the shard's scratch directory) and paths carrying a marker token are",
    "the strace cross-check requires strace-seen paths to be a subset of audit-seen paths (sqlite's own journal/wal/directory "
    "opens next to an audited database are attributed to its sqlite3.connect event); audit events without a system call "
    "(rejected before reaching the kernel) are only counted",
    "roots = realpath of globals.cache.base_dir, lock_dir and tile_lock_dir of the scenario; all caches use the default "
    "directories below base_dir",
    "upstream = synthetic NOISE WMS (vlib/upstream.py); urllib openers used by the demo service for http(s) are replaced by a "
    "stub, the file:// handler is left in place",
]

MARK_RE = re.compile(r'zqx\d+k', re.I)
MAGENTA = (255, 0, 255)
WORLD = [-20037508.342789244, -20037508.342789244, 20037508.342789244, 20037508.342789244]
BBOX = ','.join(repr(v) for v in WORLD)
FILE_LAYOUTS = ['tc', 'mp', 'tms', 'reverse_tms', 'quadkey', 'arcgis']
DIMS = {'time': {'values': ['2020-01-01', '2020-01-02'], 'default': '2020-01-01'},
        'elevation': {'values': [0, 100], 'default': 0},
        'dim_foo': {'values': ['a', 'b'], 'default': 'a'}}

# ---------------------------------------------------------------------------------------------------------------------
# audit monitor (process global, installed once)
# ---------------------------------------------------------------------------------------------------------------------

_WRITE_FLAGS = os.O_WRONLY | os.O_RDWR | os.O_CREAT | os.O_TRUNC | os.O_APPEND
# event -> (kind, indices of path arguments, mutating, follows final symlink, index of dir_fd argument(s))
EVENTS = {
    'os.mkdir': ('mkdir', (0,), True, False, (2,)),
    'os.rename': ('rename', (0, 1), True, False, (2, 3)),
    'os.remove': ('remove', (0,), True, False, (1,)),
    'os.rmdir': ('rmdir', (0,), True, False, (1,)),
    'os.symlink': ('symlink', (1,), True, False, (2,)),
    'os.link': ('link', (0, 1), True, False, (2, 3)),
    'os.listdir': ('listdir', (0,), False, True, ()),
    'os.scandir': ('scandir', (0,), False, True, ()),
    'os.walk': ('walk', (0,), False, True, ()),
    'os.chmod': ('chmod', (0,), True, True, (2,)),
    'os.chown': ('chown', (0,), True, True, (3,)),
    'os.truncate': ('truncate', (0,), True, True, ()),
    'os.utime': ('utime', (0,), True, True, (3,)),
    'os.mkfifo': ('mkfifo', (0,), True, False, (2,)),
    'os.mknod': ('mknod', (0,), True, False, (3,)),
    'shutil.rmtree': ('rmtree', (0,), True, False, ()),
    'shutil.copyfile': ('copyfile', (0, 1), True, True, ()),
    'shutil.copymode': ('copymode', (0, 1), True, True, ()),
    'shutil.copystat': ('copystat', (0, 1), True, True, ()),
    'shutil.copytree': ('copytree', (0, 1), True, True, ()),
    'shutil.move': ('move', (0, 1), True, False, ()),
    'shutil.make_archive': ('make_archive', (0,), True, False, ()),
    'shutil.unpack_archive': ('unpack_archive', (0, 1), True, False, ()),
    'sqlite3.connect': ('sqlite_connect', (0,), True, True, ()),
    'glob.glob': ('glob', (0,), False, True, ()),
    'tempfile.mkstemp': ('mkstemp', (0,), True, False, ()),
    'tempfile.mkdtemp': ('mkdtemp', (0,), True, False, ()),
}
PROCESS_EVENTS = ('subprocess.Popen', 'os.system', 'os.exec', 'os.posix_spawn', 'os.fork')


class Monitor(object):
    def __init__(self):
        self.inflight = False
        self.events = []
        self.errors = 0
        self.lock = threading.Lock()

    def hook(self, event, args):
        if not self.inflight:
            return
        try:
            if event == 'open':
                path, mode, flags = (tuple(args) + (None, None, None))[:3]
                if isinstance(flags, int):
                    w = bool(flags & _WRITE_FLAGS)
                else:
                    w = bool(mode) and any(c in str(mode) for c in 'wax+')
                self._add('open_write' if w else 'open_read', [path], w, True)
            elif event in EVENTS:
                kind, idxs, mut, follow, dirfds = EVENTS[event]
                for i in dirfds:
                    if i < len(args) and isinstance(args[i], int) and args[i] >= 0:
                        self._raw(kind, mut, '<dir_fd %d>/%r' % (args[i], args[0]), None, None)
                        return
                paths = [args[i] for i in idxs if i < len(args)]
                if event == 'os.symlink' and len(args) >= 2:
                    # the link itself is created at args[1]; its target string is relative to the link's directory
                    self._add(kind, [args[1]], mut, False)
                    try:
                        tgt = os.fspath(args[0])
                        if isinstance(tgt, bytes):
                            tgt = os.fsdecode(tgt)
                        base = os.path.dirname(os.fspath(args[1]) if not isinstance(args[1], bytes) else os.fsdecode(args[1]))
                        self._add('symlink_target', [os.path.join(base, tgt)], mut, True)
                    except Exception:
                        self.errors += 1
                    return
                self._add(kind, paths, mut, follow)
            elif event in PROCESS_EVENTS:
                self._raw('process:' + event, True, repr(args)[:300], None, None)
        except Exception:       # a raising audit hook would change the behaviour of the code under test
            self.errors += 1

    def _raw(self, kind, mut, raw, rp, rpf):
        with self.lock:
            self.events.append((kind, mut, raw, rp, rpf))
            if kind in ('symlink', 'rename', 'remove', 'rmdir', 'link', 'move', 'rmtree'):
                RES.clear()          # the next event is resolved against the changed tree

    def _add(self, kind, paths, mut, follow):
        for p in paths:
            if p is None and kind in ('listdir', 'scandir'):
                p = '.'
            if isinstance(p, int):
                self._raw(kind, mut, '<fd %d>' % p, None, None)
                continue
            try:
                p = os.fspath(p)
            except TypeError:
                self._raw(kind, mut, repr(p)[:200], None, None)
                continue
            if isinstance(p, bytes):
                p = os.fsdecode(p)
            raw = p
            if kind == 'sqlite_connect':
                if p == ':memory:' or p == '':
                    continue
                if p.startswith('file:'):
                    p = urllib.parse.unquote(p[5:].split('?', 1)[0])
                    while p.startswith('//'):
                        p = p[1:]
            if kind == 'glob':
                # the fixed directory prefix of the pattern
                m = re.search(r'[*?\[]', p)
                if m:
                    p = os.path.dirname(p[:m.start()] + 'x')
            if '\0' in p:
                p = p.split('\0', 1)[0]
            if not os.path.isabs(p):
                p = os.path.join(os.getcwd(), p)
            rp, rpf = resolve(p, follow)
            self._raw(kind, mut, raw, rp, rpf)

    def begin(self):
        with self.lock:
            self.events = []
        RES.clear()
        self.inflight = True

    def end(self):
        self.inflight = False
        with self.lock:
            ev, self.events = self.events, []
        return ev


class Resolver(object):
    """memoised component-wise realpath (a chain of 1700 nested mkdir events would otherwise cost 1700 lstat calls
    each).  Non-existing components are kept lexically, like os.path.realpath(strict=False)."""

    def __init__(self):
        self.memo = {'/': '/'}

    def clear(self):
        self.memo = {'/': '/'}

    def rdir(self, d):
        d = d.rstrip('/') or '/'
        memo = self.memo
        stack = []
        cur = d
        while cur not in memo:
            stack.append(cur)
            nxt = os.path.dirname(cur)
            if nxt == cur:
                break
            cur = nxt
        base = memo.get(cur, '/')
        while stack:
            cur = stack.pop()
            name = os.path.basename(cur)
            if name in ('', '.'):
                r = base
            elif name == '..':
                r = os.path.dirname(base)
            else:
                cand = (base if base != '/' else '') + '/' + name
                try:
                    islink = stat.S_ISLNK(os.lstat(cand).st_mode)
                except (OSError, ValueError):
                    islink = False
                if islink:
                    try:
                        r = os.path.realpath(cand)
                    except (OSError, ValueError):
                        r = cand
                else:
                    r = cand
            memo[cur] = r
            base = r
        return base


RES = Resolver()


def resolve(p, follow):
    """kernel-like resolution: realpath of the parent directory + last component (rp); for calls that follow a final
    symlink also the fully resolved path (rpf)"""
    q = p.rstrip('/') or '/'
    parent, name = os.path.split(q)
    if name in ('', '.', '..'):
        rp = RES.rdir(q)
    else:
        rp = os.path.join(RES.rdir(parent), name)
    rpf = RES.rdir(q) if follow else None
    return rp, rpf


MON = Monitor()
_hook_installed = [False]


def install_monitor():
    if not _hook_installed[0]:
        sys.addaudithook(MON.hook)
        _hook_installed[0] = True
    return MON


# ---------------------------------------------------------------------------------------------------------------------
# stub for urllib (used by the demo service to fetch its own capabilities); file:// stays real
# ---------------------------------------------------------------------------------------------------------------------

class _StubHTTPResponse(io.BytesIO):
    def __init__(self, url):
        io.BytesIO.__init__(self, b'<stub-capabilities/>')
        self.url = url
        self.code = self.status = 200
        self.msg = 'OK'
        import email.message
        self.headers = email.message.Message()

    def info(self):
        return self.headers

    def geturl(self):
        return self.url


URLOPEN_LOG = []


class _StubHTTP(urllib.request.HTTPHandler):
    def http_open(self, req):
        URLOPEN_LOG.append(req.full_url)
        return _StubHTTPResponse(req.full_url)


class _StubHTTPS(urllib.request.HTTPSHandler):
    def https_open(self, req):
        URLOPEN_LOG.append(req.full_url)
        return _StubHTTPResponse(req.full_url)


_opener_installed = [False]


def install_opener():
    if not _opener_installed[0]:
        urllib.request.install_opener(urllib.request.build_opener(_StubHTTP, _StubHTTPS))
        _opener_installed[0] = True


# ---------------------------------------------------------------------------------------------------------------------
# jail
# ---------------------------------------------------------------------------------------------------------------------

def png_bytes(color, size=(64, 64)):
    from PIL import Image
    b = io.BytesIO()
    Image.new('RGB', size, color).save(b, 'PNG')
    return b.getvalue()


_PNG = {}


def decoy_png():
    if 'm' not in _PNG:
        _PNG['m'] = png_bytes(MAGENTA)
    return _PNG['m']


DECOY_TILE_FILES = [
    '00/000/000/000/000/000/000.png',      # tc  (0,0,0)
    '00/0000/0000/0000/0000.png',          # mp
    '0/0/0.png',                           # tms and reverse_tms
    '.png',                                # quadkey of level 0
    'L00/R00000000/C00000000.png',         # arcgis
    '01/000/000/000/000/000/000.png',
    '1/0/0.png',
]


def _write(path, data):
    os.makedirs(os.path.dirname(path), exist_ok=True)
    with open(path, 'wb') as f:
        f.write(data)


def fill_decoy_dir(d, label, proj_yaml):
    os.makedirs(d, exist_ok=True)
    png = decoy_png()
    for rel in DECOY_TILE_FILES:
        _write(os.path.join(d, rel), png)
    _write(os.path.join(d, 'SENTINEL.txt'), ('sentinel %s - must never be read, changed or removed\n' % label).encode())
    # what the demo service would fetch if its capabilities URL could be turned into a file:// URL
    for rel in ('service?REQUEST=GetCapabilities&SERVICE=WMS', 'service?REQUEST=GetCapabilities&SERVICE=WMS&tiled=true',
                'service?REQUEST=GetCapabilities&SERVICE=WMTS', 'wmts/1.0.0/WMTSCapabilities.xml', 'tms/1.0.0/decoylayer/decoysrs'):
        _write(os.path.join(d, rel), b'<decoy-capabilities/>')
    for name in ('decoy.mbtiles', 'decoy.gpkg', '0.mbtile'):
        p = os.path.join(d, name)
        db = sqlite3.connect(p)
        db.execute('create table tiles (zoom_level integer, tile_column integer, tile_row integer, tile_data blob)')
        db.execute('create table metadata (name text, value text)')
        db.execute('insert into tiles values (0, 0, 0, ?)', (sqlite3.Binary(png),))
        db.commit()
        db.close()
    _write(os.path.join(d, 'decoyproj.yaml'), proj_yaml)
    _write(os.path.join(d, 'p1.yaml'), proj_yaml)


class Jail(object):
    """<top>/jail/a/b/c/conf with decoys in every ancestor and sibling"""

    def __init__(self, top):
        self.top = os.path.realpath(top)
        self.root = os.path.join(self.top, 'jail')
        self.area = os.path.dirname(self.top)
        self.conf = os.path.join(self.root, 'a', 'b', 'c', 'conf')
        self.roots = [os.path.join(self.conf, n) for n in ('cache_data', 'locks', 'tile_locks')]
        self.projects = os.path.join(self.conf, 'projects')
        self.config_files = set()
        self.decoy_dirs = []

    def build(self, decoy_proj_yaml):
        os.makedirs(self.conf)
        anc = [self.root, os.path.join(self.root, 'a'), os.path.join(self.root, 'a', 'b'),
               os.path.join(self.root, 'a', 'b', 'c'), self.conf]
        for k, a in enumerate(anc):
            fill_decoy_dir(a, 'anc%d' % k, decoy_proj_yaml)
            fill_decoy_dir(os.path.join(a, 'sib'), 'sib%d' % k, decoy_proj_yaml)
            self.decoy_dirs += [a, os.path.join(a, 'sib')]
        # name-prefix siblings of the roots (catches prefix-compare sanitisers - and a sloppy oracle)
        for n in ('cache_data_evil', 'locks2', 'tile_locks.bak'):
            fill_decoy_dir(os.path.join(self.conf, n), n, decoy_proj_yaml)
            self.decoy_dirs.append(os.path.join(self.conf, n))
        for r in self.roots:
            os.makedirs(r, exist_ok=True)

    def in_roots(self, p):
        for r in self.roots:
            if p == r or p.startswith(r + os.sep):
                return True
        return False

    def in_jail(self, p):
        # judged area: the jail and everything around it up to the shard's scratch directory (nothing else is
        # written there while a request is in flight); marker-less traversals of up to 8 levels end there
        return p == self.area or p.startswith(self.area + os.sep)

    def is_config(self, p):
        return p in self.config_files or p == self.projects

    def snapshot(self):
        """everything in the jail outside the roots: path -> (type, mode, digest/target)"""
        snap = {}
        for dp, dns, fns in os.walk(self.root):
            dns[:] = [d for d in dns if not self.in_roots(os.path.join(dp, d))]
            for d in list(dns):
                p = os.path.join(dp, d)
                st = os.lstat(p)
                if os.path.islink(p):
                    snap[p] = ('l', 0, os.readlink(p))
                    dns.remove(d)
                else:
                    snap[p] = ('d', st.st_mode & 0o7777, '')
            for f in fns:
                p = os.path.join(dp, f)
                st = os.lstat(p)
                if os.path.islink(p):
                    snap[p] = ('l', 0, os.readlink(p))
                else:
                    with open(p, 'rb') as fh:
                        snap[p] = ('f', st.st_mode & 0o7777, hashlib.sha1(fh.read()).hexdigest())
        return snap


# ---------------------------------------------------------------------------------------------------------------------
# configuration
# ---------------------------------------------------------------------------------------------------------------------

def layer_table():
    """name -> (backend, layout, dims_configured)"""
    t = {}
    for lay in FILE_LAYOUTS:
        for dm in (0, 1):
            t['f_%s_d%d' % (lay, dm)] = ('file', lay, bool(dm))
    t['f_link_d0'] = ('file_link', 'tc', False)
    t['compact1'] = ('compact1', None, False)
    t['compact2'] = ('compact2', None, False)
    t['sqlite'] = ('sqlite', None, False)
    t['mbtiles'] = ('mbtiles', None, False)
    t['gpkg'] = ('geopackage', None, False)
    return t


LAYERS = layer_table()
LAYER_NAMES = sorted(LAYERS)


_YAML = {}


def conf_yaml(variant, rel='', decoy=False):
    key = (json.dumps(variant, sort_keys=True), rel, decoy)
    if key not in _YAML:
        conf = build_conf(variant, rel)
        if decoy:
            conf['globals']['cache'].update(base_dir='./decoy_cache', lock_dir='./decoy_locks', tile_lock_dir='./decoy_tlocks')
        _YAML[key] = yaml.safe_dump(conf, default_flow_style=False).encode()
    return _YAML[key]


def build_conf(variant, rel=''):
    """rel: prefix of the directories relative to the yaml file ('' for conf/mapproxy.yaml, '../' for conf/projects/p1.yaml)"""
    g = {'cache': {'base_dir': './%scache_data' % rel, 'lock_dir': './%slocks' % rel, 'tile_lock_dir': './%stile_locks' % rel,
                   'meta_size': [1, 1], 'meta_buffer': 0},
         'image': {'paletted': False, 'resampling_method': 'nearest'}}
    conf = {'services': {}, 'layers': [], 'caches': {}, 'sources': {}, 'grids': {}, 'globals': g}
    conf['grids']['g'] = {'srs': 'EPSG:3857', 'tile_size': [64, 64], 'num_levels': 4, 'origin': variant['origin'],
                          'bbox': list(WORLD)}
    src = {'type': 'wms', 'req': {'url': 'http://noise/service?', 'layers': 'a'}, 'supported_srs': ['EPSG:3857'],
           'wms_opts': {'featureinfo': True, 'legendgraphic': True}, 'concurrent_requests': 2}
    flat = {'type': 'wms', 'req': {'url': 'http://flat/service?', 'layers': 'a'}, 'supported_srs': ['EPSG:3857']}
    if variant['fwd']:
        src['forward_req_params'] = ['time', 'elevation', 'dim_foo']
        flat['forward_req_params'] = ['time', 'elevation', 'dim_foo']
    conf['sources']['s_main'] = src
    conf['sources']['s_flat'] = flat
    for name in LAYER_NAMES:
        backend, layout, dm = LAYERS[name]
        c = {'grids': ['g'], 'sources': ['s_main'], 'format': 'image/png'}
        if backend == 'file':
            c['cache'] = {'type': 'file', 'directory_layout': layout}
        elif backend == 'file_link':
            c['cache'] = {'type': 'file', 'directory_layout': layout}
            c['link_single_color_images'] = True
            c['sources'] = ['s_flat']
        elif backend == 'compact1':
            c['cache'] = {'type': 'compact', 'version': 1}
        elif backend == 'compact2':
            c['cache'] = {'type': 'compact', 'version': 2}
        else:
            c['cache'] = {'type': backend}
        conf['caches'][name] = c
        lyr = {'name': name, 'title': name, 'sources': [name]}
        if dm:
            lyr['dimensions'] = json.loads(json.dumps(DIMS))
        conf['layers'].append(lyr)
    wmts = {'restful': True, 'kvp': True}
    if variant['rest_dims']:
        wmts['restful_template'] = '/{Layer}/{TileMatrixSet}/{Time}/{Elevation}/{TileMatrix}/{TileCol}/{TileRow}.{Format}'
    conf['services'] = {'demo': {}, 'kml': {}, 'tms': {}, 'wmts': wmts,
                        'wms': {'srs': ['EPSG:3857'], 'image_formats': ['image/png'], 'md': {'title': 'c09'}}}
    return conf


def flat_handler(call):
    if call.kind != 'getmap':
        return upstream.Resp(b'<ServiceExceptionReport/>', 'application/vnd.ogc.se_xml', 200)
    try:
        w, h = int(call.params.get('width', 64)), int(call.params.get('height', 64))
    except ValueError:
        w, h = 64, 64
    w, h = max(1, min(w, 1024)), max(1, min(h, 1024))
    return upstream.Resp(png_bytes((10, 200, 30), (w, h)), 'image/png')


class World(object):
    """jail + loaded application(s) for one case"""

    def __init__(self, top, variant):
        self.variant = variant
        self.jail = Jail(top)
        self.jail.build(conf_yaml(variant, decoy=True))
        j = self.jail
        if variant['multi']:
            os.makedirs(j.projects)
            for pn in ('p1', 'p2'):
                p = os.path.join(j.projects, pn + '.yaml')
                with open(p, 'wb') as f:
                    f.write(conf_yaml(variant, rel='../'))
                j.config_files.add(p)
            from mapproxy import multiapp
            self.app = multiapp.make_wsgi_app(j.projects, allow_listing=True)
            self.prefix = '/p1'
        else:
            p = os.path.join(j.conf, 'mapproxy.yaml')
            with open(p, 'wb') as f:
                f.write(conf_yaml(variant))
            j.config_files.add(p)
            from mapproxy.config.loader import load_configuration
            from mapproxy.wsgiapp import MapProxyApp
            conf = load_configuration(p, ignore_warnings=True)
            self.app = MapProxyApp(conf.configured_services(), conf.base_config)
            self.prefix = ''
        from mapproxy.grid import tile_grid
        grid = tile_grid(srs='EPSG:3857', bbox=WORLD, tile_size=(64, 64), num_levels=4, origin=variant['origin'])
        up = upstream.install()
        up.register('noise', upstream.NoiseWMS(upstream.Lattice.from_grid(grid), ['EPSG:3857']))
        up.register('flat', flat_handler)
        up.reset_log()
        import mapproxy.service
        tpl = os.path.join(os.path.dirname(os.path.realpath(mapproxy.service.__file__)), 'templates', 'demo', 'static')
        self.subst = {
            '@@JAIL@@': j.root,
            '@@CONF@@': j.conf,
            '@@TPLREL@@': os.path.relpath(os.path.join(j.root, 'SENTINEL.txt'), tpl),
        }

    def sub(self, s):
        if '@@' in s:
            for k, v in self.subst.items():
                s = s.replace(k, v)
        return s


def call_app(world, req):
    """req = {'p': PATH_INFO, 'q': QUERY_STRING, 'h': {header: value}}; returns (status code, headers, body, exception)"""
    environ = {}
    setup_testing_defaults(environ)
    environ['REQUEST_METHOD'] = 'GET'
    environ['SCRIPT_NAME'] = ''
    environ['PATH_INFO'] = world.sub(req['p'])
    environ['QUERY_STRING'] = world.sub(req.get('q', ''))
    environ['SERVER_NAME'] = 'localhost'
    environ['HTTP_HOST'] = 'localhost'
    for k, v in (req.get('h') or {}).items():
        environ['HTTP_' + k.upper().replace('-', '_')] = world.sub(v)
    got = {}

    def start_response(status, hdrs, exc_info=None):
        got['status'] = status
        got['headers'] = hdrs
        return lambda data: None
    body = b''
    exc = None
    MON.begin()
    try:
        it = world.app(environ, start_response)
        try:
            body = b''.join(it)
        finally:
            if hasattr(it, 'close'):
                it.close()
    except Exception as ex:      # exceptions are C18's subject; here only the side effects count
        exc = ex
    finally:
        events = MON.end()
    code = 0
    try:
        code = int((got.get('status') or '0').split(' ', 1)[0])
    except ValueError:
        pass
    return code, got.get('headers', []), body, exc, events


# ---------------------------------------------------------------------------------------------------------------------
# hostile generators
# ---------------------------------------------------------------------------------------------------------------------

PAYLOAD_CLASSES = ['dotdot', 'dotdot_deep', 'dotdot_embedded', 'decoy_dir', 'decoy_sib', 'decoy_via_marker', 'absolute',
                   'pct_encoded', 'nul', 'long', 'unicode', 'unicode_compat', 'trailing', 'backslash', 'tilde', 'dash', 'sep_mix', 'valid']


def payload(pclass, M, rng):
    """returns (setup_value or None, value).  M = unique marker token.  The set-up value (sent first with the same
    parameter) creates the literal directory '<key>-..' that a later read-only traversal has to pass through."""
    up = '../'
    if pclass == 'dotdot':
        k = rng.choice([1, 2, 3, 4])
        return None, up * k + M
    if pclass == 'dotdot_deep':
        k = rng.choice([5, 6, 7, 8])
        return None, up * k + M
    if pclass == 'dotdot_embedded':
        return None, rng.choice(['a/../../../../../' + M, M + '/../../../../../' + M + 'b', './.././../.././../' + M,
                                 'x/' + up * 6 + M + '/y'])
    if pclass == 'decoy_dir':
        k = rng.choice([3, 4, 5, 6, 7])
        return up + M, (up * k).rstrip('/')
    if pclass == 'decoy_sib':
        k = rng.choice([3, 4, 5, 6, 7])
        return up + M, up * k + rng.choice(['sib', 'sib', 'cache_data_evil', 'locks2'])
    if pclass == 'decoy_via_marker':
        k = rng.choice([3, 4, 5, 6])
        return None, up * k + M + '/../sib'
    if pclass == 'absolute':
        return None, rng.choice(['/' + M, '/abs/' + M + '/..', '@@JAIL@@/sib/' + M, '//' + M, '@@JAIL@@/sib', '/tmp/../' + M,
                                 'file://@@JAIL@@/' + M])
    if pclass == 'pct_encoded':
        return None, rng.choice(['..%2f..%2f..%2f' + M, '%2e%2e/%2e%2e/%2e%2e/' + M, '..%252f..%252f' + M,
                                 '%c0%ae%c0%ae/%c0%ae%c0%ae/' + M, '..%c0%af..%c0%af' + M, '%2e%2e%2f%2e%2e%2f' + M,
                                 '..%5c..%5c' + M, '%252e%252e%252f' + M])
    if pclass == 'nul':
        return None, rng.choice([up * 3 + M + '\x00', '\x00' + up * 3 + M, '../..\x00/../' + M, M + '\x00/../../..',
                                 up * 4 + M + '\x00.png'])
    if pclass == 'long':
        return None, rng.choice(['A' * 5000 + M, up * 1700 + M, M + '/' * 5000, up * 4 + M + '/' + 'B' * 5000,
                                 (M + '/') * 600, up * 4 + 'C' * 255 + M])
    if pclass == 'unicode':
        return None, rng.choice(['..∕..∕' + M, '．．/．．/' + M, '..⁄..⁄' + M,
                                 up * 4 + M + '‮', 'é' + up * 4 + M, up * 3 + M + '\U0001f5fa', '‥/‥/' + M,
                                 up * 4 + M + '́'])
    if pclass == 'unicode_compat':
        # characters that turn into separators and dots under Unicode compatibility normalisation (NFKC/NFKD) or case / width
        # folding: a sanitiser that looks for '/' and '..' before such a step sees nothing
        k = rng.choice([3, 4, 5, 6, 7])
        seg = rng.choice(['\u2025\uff0f', '\uff0e\uff0e\uff0f', '\u2024\u2024\uff0f', '\u2025\uff3c', '\uff0e\uff0e\uff3c', '\ufe52\ufe52\uff0f'])
        return None, rng.choice([seg * k + M, 'a\uff0f' + seg * k + M, seg * k + M + '\uff0f\u2025', '\uff0f' + M, seg * k + 'sib'])
    if pclass == 'trailing':
        return None, rng.choice([up * 4 + M + '.', up * 4 + M + ' ', '.. /.. /.. /' + M, '.../.../' + M, '..../..../' + M,
                                 up * 4 + M + '...', up * 4 + M + '/.', up * 4 + M + '/', ' ' + up * 4 + M])
    if pclass == 'backslash':
        return None, rng.choice(['..\\..\\..\\' + M, '..\\/..\\/' + M, '\\\\' + M + '\\share', '..\\' + up * 3 + M, up * 3 + '\\' + M])
    if pclass == 'tilde':
        return None, rng.choice(['~/' + M, '~root/' + M, '~', up * 4 + '~' + M, '~/../' + M])
    if pclass == 'dash':
        return None, rng.choice(['-' + M, '--' + M + '=1', '-rf /' + M, '-/../../../' + M, '-' + up * 4 + M])
    if pclass == 'sep_mix':
        return None, rng.choice(['..;/..;/' + M, '..//..//..//' + M, './.././.././' + M, '..?/../' + M, '..#/../' + M,
                                 '..&x=/../' + M, '..+/..+/' + M, '..=/../' + M, ';' + up * 4 + M])
    if pclass == 'valid':
        return None, None
    raise ValueError(pclass)


INDEX_PAYLOADS = ['-1', '-0', str(2 ** 63), str(2 ** 64 + 1), str(-2 ** 63 - 1), '0000000001', '+1', '1e3', '../1', '1/../1', '0x1',
                  '١', '1_0', ' 1', '1 ', '1.0', '', '9' * 400, '%2e%2e', '1\x00', 'NaN', '..', '-', '00', '1/../../../..']

VECTORS = [
    # (name, service, weight, touches cache of the layer?)
    ('dimension_depth_sequence', 'wms', 0, True),
    ('wms_dimension_value', 'wms', 8, True),
    ('wms_dimension_name', 'wms', 5, True),
    ('wms_fi_dimension_value', 'wms_fi', 1, False),
    ('wms_layer_name', 'wms', 1, False),
    ('wms_format', 'wms', 1, False),
    ('wms_legend', 'wms_legend', 1, False),
    ('wms_misc_param', 'wms', 1, False),
    ('tms_layer_name', 'tms', 1, False),
    ('tms_layer_spec', 'tms', 1, True),
    ('tms_index', 'tms', 1, True),
    ('tms_format', 'tms', 1, True),
    ('tiles_layer_name', 'tiles', 1, False),
    ('tiles_index', 'tiles', 1, True),
    ('kml_layer_name', 'kml', 1, False),
    ('kml_index', 'kml', 1, True),
    ('wmts_kvp_dimension_value', 'wmts_kvp', 4, True),
    ('wmts_kvp_dimension_name', 'wmts_kvp', 2, True),
    ('wmts_kvp_names', 'wmts_kvp', 2, True),
    ('wmts_kvp_fi_dimension_value', 'wmts_kvp', 1, False),
    ('wmts_rest_dimension_segment', 'wmts_rest', 3, True),
    ('wmts_rest_names', 'wmts_rest', 2, True),
    ('demo_static_path', 'demo', 2, False),
    ('demo_args', 'demo', 1, False),
    ('demo_caps_headers', 'demo', 1, False),
    ('header_script_name', 'headers', 1, True),
    ('header_forwarded_host', 'headers', 1, True),
    ('multiapp_project_name', 'multiapp', 2, False),
]
VEC = {v[0]: v for v in VECTORS}
VEC_WEIGHTED = [v[0] for v in VECTORS for _ in range(v[2])]


def qs(pairs, enc):
    """enc 'q': percent-encode names and values (what a browser sends); 'raw': put them into QUERY_STRING as they are"""
    out = []
    for k, v in pairs:
        if enc == 'raw':
            out.append('%s=%s' % (k, v))
        else:
            out.append('%s=%s' % (urllib.parse.quote(k, safe=''), urllib.parse.quote(v, safe=',:')))
    return '&'.join(out)


def pathseg(v, enc):
    """a hostile value inside PATH_INFO. 'q' = what a WSGI server hands over for the percent-encoded UTF-8 URL (latin-1
    view of the UTF-8 bytes); 'raw' = the unicode string itself"""
    if enc == 'raw':
        return v
    return v.encode('utf-8', 'surrogatepass').decode('latin-1')


def getmap_pairs(layer, extra=(), **over):
    p = [('SERVICE', 'WMS'), ('VERSION', '1.1.1'), ('REQUEST', 'GetMap'), ('LAYERS', layer), ('STYLES', ''),
         ('SRS', 'EPSG:3857'), ('BBOX', BBOX), ('WIDTH', '64'), ('HEIGHT', '64'), ('FORMAT', 'image/png')]
    p = [(k, over.get(k, v)) for k, v in p]
    return p + list(extra)


def gettile_pairs(layer, extra=(), **over):
    p = [('SERVICE', 'WMTS'), ('VERSION', '1.0.0'), ('REQUEST', 'GetTile'), ('LAYER', layer), ('STYLE', ''),
         ('TILEMATRIXSET', 'g'), ('TILEMATRIX', '00'), ('TILEROW', '0'), ('TILECOL', '0'), ('FORMAT', 'image/png')]
    p = [(k, over.get(k, v)) for k, v in p]
    return p + list(extra)


def make_item(n, vector, pclass, layer, rng, variant):
    """one item = list of concrete requests (the last one is the hostile request proper)"""
    M = 'zqx%dk' % n
    backend, layout, dm = LAYERS[layer]
    enc = rng.choice(['q', 'q', 'raw'])
    setup, val = payload(pclass, M, rng)
    valid = pclass == 'valid'
    reqs = []
    info = {}
    dimname = rng.choice(['TIME', 'ELEVATION', 'DIM_FOO', 'time', 'Dim_Foo'])
    validv = {'time': '2020-01-02', 'elevation': '100', 'dim_foo': 'b'}[dimname.lower()]
    P = '@@PFX@@'

    def R(p, pairs=None, h=None, q=None):
        r = {'p': P + p, 'q': q if q is not None else (qs(pairs, enc) if pairs else '')}
        if h:
            r['h'] = h
        return r

    if vector == 'wms_dimension_value':
        info['param'] = dimname.lower()
        if setup:
            reqs.append(R('/service', getmap_pairs(layer, [(dimname, setup)])))
        reqs.append(R('/service', getmap_pairs(layer, [(dimname, validv if valid else val)])))
        if rng.random() < 0.3 and not valid:     # second identical request: the tile is now 'cached' -> read path
            reqs.append(dict(reqs[-1]))
    elif vector == 'wms_dimension_name':
        if valid:
            reqs.append(R('/service', getmap_pairs(layer, [('DIM_FOO', 'b'), ('TIME', '2020-01-02')])))
        else:
            form = rng.choice(['name', 'name', 'name_slash_value'])
            if form == 'name':
                reqs.append(R('/service', getmap_pairs(layer, [('DIM_' + val, '1')])))
            else:
                reqs.append(R('/service', getmap_pairs(layer, [('dim_' + val + '/x', '/../' + M)])))
    elif vector == 'wms_fi_dimension_value':
        ex = [('QUERY_LAYERS', layer), ('X', '10'), ('Y', '10'), ('INFO_FORMAT', 'text/plain'), (dimname, validv if valid else val)]
        reqs.append(R('/service', getmap_pairs(layer, ex, REQUEST='GetFeatureInfo')))
    elif vector == 'wms_layer_name':
        if valid:
            reqs.append(R('/service', getmap_pairs(layer)))
        else:
            w = rng.choice(['LAYERS', 'LAYERS', 'QUERY_LAYERS', 'LAYER'])
            if w == 'LAYERS':
                reqs.append(R('/service', getmap_pairs(rng.choice([val, layer + '/' + val, layer + ',' + val]))))
            elif w == 'QUERY_LAYERS':
                reqs.append(R('/service', getmap_pairs(layer, [('QUERY_LAYERS', val), ('X', '1'), ('Y', '1')], REQUEST='GetFeatureInfo')))
            else:
                reqs.append(R('/service', [('SERVICE', 'WMS'), ('VERSION', '1.1.1'), ('REQUEST', 'GetLegendGraphic'),
                                           ('LAYER', val), ('FORMAT', 'image/png')]))
    elif vector == 'wms_format':
        if valid:
            reqs.append(R('/service', getmap_pairs(layer)))
        else:
            w = rng.choice(['FORMAT', 'FORMAT', 'INFO_FORMAT', 'EXCEPTIONS'])
            v = rng.choice(['image/png/' + val, 'image/' + val, val, 'png/../../' + M, 'image/png; mode=' + val])
            if w == 'INFO_FORMAT':
                reqs.append(R('/service', getmap_pairs(layer, [('QUERY_LAYERS', layer), ('X', '1'), ('Y', '1'), ('INFO_FORMAT', v)],
                                                       REQUEST='GetFeatureInfo')))
            elif w == 'EXCEPTIONS':
                reqs.append(R('/service', getmap_pairs(layer + 'x', [('EXCEPTIONS', v)])))
            else:
                reqs.append(R('/service', getmap_pairs(layer, FORMAT=v)))
    elif vector == 'wms_legend':
        pairs = [('SERVICE', 'WMS'), ('VERSION', '1.1.1'), ('REQUEST', 'GetLegendGraphic'), ('LAYER', layer), ('FORMAT', 'image/png')]
        if not valid:
            w = rng.choice(['FORMAT', 'SCALE', 'SLD_VERSION', 'STYLE'])
            pairs = [(k, v) for k, v in pairs if k != w] + [(w, 'image/' + val if w == 'FORMAT' else val)]
        reqs.append(R('/service', pairs))
    elif vector == 'wms_misc_param':
        if valid:
            reqs.append(R('/service', [('SERVICE', 'WMS'), ('VERSION', '1.1.1'), ('REQUEST', 'GetCapabilities')]))
        else:
            w = rng.choice(['SRS', 'STYLES', 'BGCOLOR', 'SLD', 'SLD_BODY', 'VERSION', 'REQUEST', 'SERVICE', 'TILED', 'WIDTH'])
            v = 'file://@@JAIL@@/SENTINEL.txt#' + M if w == 'SLD' and rng.random() < 0.5 else val
            if w in ('SRS', 'STYLES', 'VERSION', 'REQUEST', 'SERVICE', 'WIDTH'):
                reqs.append(R('/service', getmap_pairs(layer, **{w: v})))
            else:
                reqs.append(R('/service', getmap_pairs(layer, [(w, v)])))
    elif vector in ('tms_layer_name', 'tiles_layer_name', 'kml_layer_name'):
        base = {'tms_layer_name': '/tms/1.0.0/', 'tiles_layer_name': '/tiles/', 'kml_layer_name': '/kml/'}[vector]
        ext = 'kml' if vector.startswith('kml') and rng.random() < 0.5 else 'png'
        if valid:
            reqs.append(R('%s%s/EPSG3857/1/0/0.%s' % (base, layer, ext)))
        else:
            v = pathseg(val, enc)
            form = rng.choice(['layer', 'layer', 'layer_prefix', 'caps'])
            if form == 'layer':
                reqs.append(R('%s%s/EPSG3857/1/0/0.%s' % (base, v, ext)))
            elif form == 'layer_prefix':
                reqs.append(R('%s%s/%s/EPSG3857/1/0/0.%s' % (base, layer, v, ext)))
            else:
                reqs.append(R('%s%s' % (base, v)))
    elif vector == 'tms_layer_spec':
        v = 'EPSG3857' if valid else pathseg(val, enc)
        reqs.append(R('/tms/1.0.0/%s/%s/1/0/0.png' % (layer, v)))
    elif vector in ('tms_index', 'tiles_index', 'kml_index'):
        base = {'tms_index': '/tms/1.0.0/', 'tiles_index': '/tiles/', 'kml_index': '/kml/'}[vector]
        ext = 'kml' if vector.startswith('kml') and rng.random() < 0.5 else 'png'
        if valid:
            reqs.append(R('%s%s/EPSG3857/1/1/0.%s' % (base, layer, ext)))
        else:
            idx = ['1', '0', '0']
            k = rng.randrange(3)
            idx[k] = pathseg(rng.choice(INDEX_PAYLOADS + [val]), enc)
            info['index'] = 'zxy'[k]
            reqs.append(R('%s%s/EPSG3857/%s/%s/%s.%s' % (base, layer, idx[0], idx[1], idx[2], ext)))
    elif vector == 'tms_format':
        if valid:
            reqs.append(R('/tms/1.0.0/%s/EPSG3857/1/0/1.png' % layer))
        else:
            v = pathseg(val, enc)
            reqs.append(R('/tms/1.0.0/%s/EPSG3857/1/0/0.%s' % (layer, rng.choice(['png/' + v, v, 'png/../../../' + v, 'png%2f' + v]))))
    elif vector == 'wmts_kvp_dimension_value':
        info['param'] = dimname.lower()
        if setup:
            reqs.append(R('/service', gettile_pairs(layer, [(dimname, setup)])))
        reqs.append(R('/service', gettile_pairs(layer, [(dimname, validv if valid else val)])))
    elif vector == 'wmts_kvp_dimension_name':
        if valid:
            reqs.append(R('/service', gettile_pairs(layer, [('dim_foo', 'a'), ('elevation', '0')])))
        else:
            reqs.append(R('/service', gettile_pairs(layer, [(rng.choice([val, 'DIM_' + val, 'time/' + val]), rng.choice(['1', val]))])))
    elif vector == 'wmts_kvp_names':
        if valid:
            reqs.append(R('/service', gettile_pairs(layer, TILEMATRIX='01', TILEROW='1', TILECOL='1')))
        else:
            w = rng.choice(['LAYER', 'TILEMATRIXSET', 'TILEMATRIX', 'TILEROW', 'TILECOL', 'FORMAT', 'STYLE'])
            v = rng.choice(INDEX_PAYLOADS + [val]) if w in ('TILEMATRIX', 'TILEROW', 'TILECOL') else val
            if w == 'FORMAT':
                v = rng.choice(['image/png/' + val, 'image/' + val, val, 'png/../../' + M])
            info['param'] = w.lower()
            reqs.append(R('/service', gettile_pairs(layer, **{w: v})))
    elif vector == 'wmts_kvp_fi_dimension_value':
        ex = [('INFOFORMAT', 'text/plain'), ('I', '3'), ('J', '3'), (dimname, validv if valid else val)]
        reqs.append(R('/service', gettile_pairs(layer, ex, REQUEST='GetFeatureInfo')))
    elif vector == 'wmts_rest_dimension_segment':
        if variant['rest_dims']:
            t = '2020-01-02' if (valid and dm) else ('default' if valid else pathseg(val, enc))
            e = 'default' if (valid or rng.random() < 0.5) else pathseg(val, enc)
            if setup and not valid:
                reqs.append(R('/wmts/%s/g/%s/default/00/0/0.png' % (layer, pathseg(setup, enc))))
            reqs.append(R('/wmts/%s/g/%s/%s/00/0/0.png' % (layer, t, e)))
        else:
            # template without dimension segments: extra segments / query dimensions on the REST url
            if valid:
                reqs.append(R('/wmts/%s/g/00/0/0.png' % layer))
            else:
                v = pathseg(val, enc)
                reqs.append(rng.choice([R('/wmts/%s/g/%s/00/0/0.png' % (layer, v)),
                                        R('/wmts/%s/g/00/0/0.png' % layer, [('TIME', val), ('DIM_' + val, '1')])]))
    elif vector == 'wmts_rest_names':
        mid = 'default/default/' if variant['rest_dims'] else ''
        if valid:
            reqs.append(R('/wmts/%s/g/%s01/1/0.png' % (layer, mid)))
        else:
            seg = [layer, 'g', '00', '0', '0', 'png']
            k = rng.randrange(6)
            seg[k] = pathseg(rng.choice(INDEX_PAYLOADS + [val]) if k in (2, 3, 4) else val, enc)
            info['segment'] = ['layer', 'tilematrixset', 'tilematrix', 'tilecol', 'tilerow', 'format'][k]
            reqs.append(R('/wmts/%s/%s/%s%s/%s/%s.%s' % (seg[0], seg[1], mid, seg[2], seg[3], seg[4], seg[5])))
    elif vector == 'demo_static_path':
        if valid:
            reqs.append(R('/demo/static/site.css'))
        else:
            v = pathseg(val, enc)
            form = rng.choice(['tplrel', 'tplrel', 'val', 'val_deep', 'pct', 'dots_unicode'])
            if form == 'tplrel':
                reqs.append(R('/demo/static/@@TPLREL@@'))
            elif form == 'val':
                reqs.append(R('/demo/static/' + v))
            elif form == 'val_deep':
                reqs.append(R('/demo/static/' + '../' * 12 + '@@JAIL@@/SENTINEL.txt'))
            elif form == 'pct':
                reqs.append(R('/demo/static/%2e%2e/%2e%2e/%2e%2e/%2e%2e/' + v))
            else:
                reqs.append(R('/demo/static/.․/.․/' + v))
    elif vector == 'demo_args':
        if valid:
            reqs.append(R('/demo/', [('wms_layer', layer), ('format', 'image/png'), ('srs', 'EPSG:3857')]))
        else:
            w = rng.choice(['wms_layer', 'tms_layer', 'wmts_layer', 'tms_capabilities'])
            if w == 'tms_capabilities':
                reqs.append(R('/demo/', [('tms_capabilities', ''), ('layer', val), ('srs', rng.choice(['EPSG3857', val]))]))
            else:
                reqs.append(R('/demo/', [(w, rng.choice([layer, val])), ('format', rng.choice(['image/png', val, 'png/../' + M])),
                                         ('srs', rng.choice(['EPSG:3857', val]))]))
    elif vector == 'demo_caps_headers':
        w = rng.choice(['wms_capabilities', 'wmsc_capabilities', 'wmts_capabilities_kvp', 'wmts_capabilities', 'tms_capabilities'])
        if valid:
            reqs.append(R('/demo/', [(w, '')]))
        else:
            h = rng.choice([
                {'X-Forwarded-Proto': 'file', 'X-Forwarded-Host': '', 'X-Script-Name': '@@JAIL@@/sib'},
                {'X-Forwarded-Proto': 'file', 'X-Forwarded-Host': '', 'X-Script-Name': '@@JAIL@@/' + M},
                {'X-Forwarded-Proto': 'file', 'Host': '', 'X-Script-Name': '@@JAIL@@/a/sib'},
                {'X-Forwarded-Host': val, 'X-Script-Name': '/' + val},
                {'X-Forwarded-Proto': 'file://@@JAIL@@/sib/service?' + M, 'X-Forwarded-Host': M},
                {'X-Forwarded-Proto': 'FILE', 'X-Forwarded-Host': 'localhost', 'X-Script-Name': '@@JAIL@@/sib'},
                {'X-Forwarded-Proto': 'file', 'X-Forwarded-Host': 'localhost', 'X-Script-Name': '@@JAIL@@/sib'},
                {'X-Forwarded-Proto': 'file', 'X-Forwarded-Host': 'localhost', 'X-Script-Name': '@@CONF@@/sib'},
                {'X-Forwarded-Proto': 'file', 'Host': 'localhost', 'X-Script-Name': '@@JAIL@@/a'},
                {'X-Forwarded-Proto': 'ftp', 'X-Forwarded-Host': M},
            ])
            pairs = [(w, ''), ('type', 'external')]
            if w == 'tms_capabilities' and rng.random() < 0.7:
                pairs += [('layer', 'decoylayer'), ('srs', 'decoysrs')]
            reqs.append(R('/demo/', pairs, h=h))
    elif vector in ('header_script_name', 'header_forwarded_host'):
        hv = 'x' if valid else val.replace('\n', '')
        if vector == 'header_script_name':
            h = {'X-Script-Name': rng.choice(['/' + hv, hv, '/proxy/' + hv])}
        else:
            h = rng.choice([{'X-Forwarded-Host': hv}, {'Host': hv}, {'X-Forwarded-Host': hv + ', b', 'X-Forwarded-Proto': hv}])
        tgt = rng.choice(['wms_caps', 'wmts_caps', 'wmts_rest_caps', 'tms_caps', 'tms_layer_caps', 'getmap', 'demo', 'kml', 'root'])
        info['target'] = tgt
        if tgt == 'wms_caps':
            reqs.append(R('/service', [('SERVICE', 'WMS'), ('VERSION', rng.choice(['1.1.1', '1.3.0'])), ('REQUEST', 'GetCapabilities')], h=h))
        elif tgt == 'wmts_caps':
            reqs.append(R('/service', [('SERVICE', 'WMTS'), ('VERSION', '1.0.0'), ('REQUEST', 'GetCapabilities')], h=h))
        elif tgt == 'wmts_rest_caps':
            reqs.append(R('/wmts/1.0.0/WMTSCapabilities.xml', h=h))
        elif tgt == 'tms_caps':
            reqs.append(R('/tms/1.0.0/', h=h))
        elif tgt == 'tms_layer_caps':
            reqs.append(R('/tms/1.0.0/%s/EPSG3857' % layer, h=h))
        elif tgt == 'getmap':
            reqs.append(R('/service', getmap_pairs(layer), h=h))
        elif tgt == 'demo':
            reqs.append(R('/demo/', h=h))
        elif tgt == 'kml':
            reqs.append(R('/kml/%s/EPSG3857/0/0/0.kml' % layer, h=h))
        else:
            reqs.append(R('/', h=h))
    elif vector == 'multiapp_project_name':
        P = ''     # the project segment itself is the hostile part
        if valid:
            reqs.append({'p': rng.choice(['/p2/service', '/p1/service']), 'q': qs(getmap_pairs(layer), enc)})
        else:
            v = pathseg(val, enc)
            proj = rng.choice([v, v, '..', '.', '...', 'p1/../p2', 'p1/../../decoyproj', '../decoyproj', '../../decoyproj',
                               '..%2fdecoyproj', '..%2f..%2fdecoyproj', '%2e%2e', 'p1.yaml', 'P1', ' p1', 'p1 ', 'p1\x00', 'decoyproj',
                               '..\\decoyproj', '@@CONF@@/decoyproj', '/@@CONF@@/decoyproj', 'p1/' + v, v + '/p1', '../sib/p1',
                               '..%2fsib%2fp1', '..%252fdecoyproj', 'projects/../p1'])
            tail = rng.choice(['/service', '/service', '/demo/', '/tms/1.0.0/', '', '/'])
            q = qs(getmap_pairs(layer), enc) if tail == '/service' else ''
            reqs.append({'p': '/' + proj + tail, 'q': q})
    else:
        raise ValueError(vector)
    return {'n': n, 'vector': vector, 'pclass': pclass, 'layer': layer, 'enc': enc, 'info': info, 'reqs': reqs}


def depth_sequence_item(n, layer, rng):
    """benign multi-step sequence: the number of dimension parameters (= directory depth of the tile in file caches) is chosen
    by the client and differs from request to request, single coloured tiles (symlinks relative to the tile directory)
    are created at different depths, then everything is read again. Nothing hostile in any single request."""
    H = WORLD[2]
    quads = [(-H, 0.0, 0.0, H), (0.0, 0.0, H, H), (-H, -H, 0.0, 0.0), (0.0, -H, H, 0.0)]
    rng.shuffle(quads)
    alld = [('TIME', '2020-01-02'), ('ELEVATION', '100'), ('DIM_FOO', 'b'), ('DIM_BAR', '7')]
    depths = [rng.randint(1, 4), rng.randint(0, 3), 0, rng.randint(0, 4)]
    if rng.random() < 0.3:
        depths.reverse()
    reqs = []
    for q, k in zip(quads, depths):
        dims = rng.sample(alld, k)
        reqs.append({'p': '@@PFX@@/service', 'q': qs(getmap_pairs(layer, dims, BBOX=','.join(repr(v) for v in q)), 'q')})
    # read path: the same map requests again, then the tiles through the tile services
    reqs += [dict(r) for r in reqs]
    for x, y in ((0, 0), (1, 0), (0, 1), (1, 1)):
        reqs.append({'p': '@@PFX@@/tms/1.0.0/%s/EPSG3857/1/%d/%d.png' % (layer, x, y), 'q': ''})
    return {'n': n, 'vector': 'dimension_depth_sequence', 'pclass': 'valid', 'layer': layer, 'enc': 'q',
            'info': {'depths': depths}, 'reqs': reqs}


def gen_variant(i):
    return {'fwd': bool(i & 1), 'origin': 'nw' if (i >> 1) & 1 else 'll', 'rest_dims': bool((i >> 2) & 1) or i % 3 == 0,
            'multi': i % 4 == 3}


ITEMS_PER_CASE = 25


def gen_items(run, i, variant):
    rng = run.rng('items', i)
    order = run.rng('order')
    vecs = list(VEC_WEIGHTED)
    order.shuffle(vecs)
    pcs = list(PAYLOAD_CLASSES)
    order.shuffle(pcs)
    lys = list(LAYER_NAMES)
    order.shuffle(lys)
    N = len(vecs) * len(pcs) * len(lys)
    stride = 1000003            # prime, coprime to N: a full cycle over the product
    items = []
    # two positive controls first
    items.append(make_item(i * 100 + 90, 'wms_dimension_value', 'valid', lys[i % len(lys)], rng, variant))
    items.append(make_item(i * 100 + 91, 'tms_index', 'valid', lys[(i * 7 + 3) % len(lys)], rng, variant))
    # the client-chosen directory depth, first thing in the life of the cache objects of this case
    seq_rng = run.rng('depthseq', i)
    items.insert(0, depth_sequence_item(i * 100 + 92, 'f_link_d0', seq_rng))
    if i % 2:
        items.insert(1, depth_sequence_item(i * 100 + 93, seq_rng.choice([l for l in lys if LAYERS[l][0] == 'file']), seq_rng))
    for k in range(ITEMS_PER_CASE):
        n = i * ITEMS_PER_CASE + k
        m = (n * stride) % N
        vector = vecs[m % len(vecs)]
        pclass = pcs[(m // len(vecs)) % len(pcs)]
        layer = lys[(m // (len(vecs) * len(pcs))) % len(lys)]
        if vector == 'multiapp_project_name' and not variant['multi']:
            vector = 'wms_dimension_value' if k % 2 else 'wms_dimension_name'
        elif variant['multi'] and k % 3 == 0:
            vector = 'multiapp_project_name'
        items.append(make_item(i * 100 + k, vector, pclass, layer, rng, variant))
    return items


def gen_cases(run):
    n = run.pick(20 * 16, 450 * 16)
    # the strace cross-checks first (they take longest): one per shard for the first few shards
    for s in range(run.pick(2, 8)):
        yield {'i': 1000000 + 16 * s, 'strace': True, 'ncases': run.pick(2, 6)}
    for s in range(run.pick(2, 8), 16):
        yield {'i': s}
    for i in range(16, n):
        yield {'i': i}


# ---------------------------------------------------------------------------------------------------------------------
# judging
# ---------------------------------------------------------------------------------------------------------------------

def looks_decoy(body):
    if not body.startswith(b'\x89PNG'):
        return False
    try:
        from PIL import Image
        import numpy as np
        arr = np.asarray(Image.open(io.BytesIO(body)).convert('RGB'))
    except Exception:
        return False
    if arr.size == 0:
        return False
    return float((arr == np.array(MAGENTA, dtype=arr.dtype)).all(axis=2).mean()) > 0.5


def judge_events(run, jail, events):
    """returns list of (kind, mutating, raw, resolved) that violate, in time order"""
    bad = []
    for kind, mut, raw, rp, rpf in events:
        run.hit('audit_events_in_flight')
        if rp is None:
            run.count('events_unresolvable')
            if kind.startswith('process:'):
                run.count('process_events_in_flight_not_judged')      # not a file access; the property is silent
            continue
        if mut:
            run.hit('mutating_events_checked')
        cands = [rp] + ([rpf] if rpf and rpf != rp else [])
        marker = bool(MARK_RE.search(raw) or any(MARK_RE.search(c) for c in cands))
        if marker:
            run.hit('marker_events_checked')
        verdict = None
        for c in cands:
            if jail.in_roots(c):
                continue
            if jail.in_jail(c):
                if not mut and not marker and jail.is_config(c):
                    continue                        # reading the configuration itself
                verdict = c
                break
            if marker:
                verdict = c
                break
        if verdict is None:
            if any(jail.in_roots(c) for c in cands):
                run.hit('events_inside_roots')
                if mut:
                    run.hit('mutating_events_inside_roots')
            elif any(jail.is_config(c) for c in cands):
                run.count('config_reads')
            else:
                run.count('events_elsewhere_not_judged')
        else:
            bad.append((kind, mut, raw, verdict))
    return bad


def short(s, n=300):
    s = repr(s)
    return s if len(s) <= n else s[:n // 2] + '...[%d chars]...' % len(s) + s[-n // 3:]


def run_items(run, world, items, case):
    jail = world.jail
    pfx = world.prefix
    flagged_paths = []
    nviol = 0
    for it in items:
        vector, pclass, layer = it['vector'], it['pclass'], it['layer']
        backend, layout, dm = LAYERS[layer]
        service = VEC[vector][1]
        hostile = pclass != 'valid'
        last = len(it['reqs']) - 1
        for ri, req in enumerate(it['reqs']):
            r = {'p': req['p'].replace('@@PFX@@', pfx), 'q': req.get('q', ''), 'h': req.get('h')}
            code, headers, body, exc, events = call_app(world, r)
            run.hit('requests')
            run.hit('requests_' + service)
            run.count('vector_' + vector)
            run.count('status_%s' % (code if not exc else 'exception'))
            if hostile:
                run.hit('marker_requests')
            bad = judge_events(run, jail, events)
            ctype = ''
            for k, v in headers:
                if k.lower() == 'content-type':
                    ctype = v
            served_decoy = looks_decoy(body) if ctype.startswith('image') else False
            if ctype.startswith('image') and code == 200:
                run.count('image_responses')
                if not hostile:
                    run.hit('control_images_served')
            cls = (service, vector, pclass, backend, layout, dm)
            run.judge(cls, nontrivial=hostile)
            if len(run.samples) < 6 and hostile and ri == last and (it['n'] % 7 == 0):
                run.sample({'variant': world.variant, 'vector': vector, 'payload_class': pclass, 'layer': layer,
                            'request': {'PATH_INFO': short(r['p'], 200), 'QUERY_STRING': short(r['q'], 300), 'headers': r['h']},
                            'status': code, 'events_in_flight': len(events), 'violating_events': len(bad)})
            if bad or served_decoy:
                nviol += 1
                first = bad[0] if bad else ('decoy_content_served', False, '', '')
                kinds = sorted(set(b[0] for b in bad)) + (['decoy_content_served'] if served_decoy else [])
                mech = {'service': service, 'vector': vector, 'backend': backend, 'layout': layout, 'dims_configured': dm,
                        'event': first[0]}
                where = []
                for kind, mut, raw, rp in bad[:6]:
                    where.append('%s %s -> %s' % (kind, short(raw, 160), short(jail_rel(jail, rp), 160)))
                detail = ('%s request PATH_INFO=%s QUERY_STRING=%s headers=%r (payload class %s, variant %r, layer %s: backend %s layout %s, '
                          'dimensions configured on layer: %s) answered %s%s; expected: no file-system event outside %s; observed %d '
                          'violating events of kinds %s: %s%s' % (
                              service, short(r['p'], 200), short(r['q'], 400), r['h'], pclass, world.variant, layer, backend, layout, dm,
                              code, ' (exception %r)' % exc if exc else '',
                              [jail_rel(jail, x) for x in jail.roots], len(bad), kinds, '; '.join(where),
                              '; the response image is the decoy tile (magenta) from outside the cache' if served_decoy else ''))
                vcase = {'i': case.get('i'), 'variant': world.variant,
                         'items': [dict(it, reqs=it['reqs'][:ri + 1])]}
                run.violation(mech, vcase, detail)
                for b in bad:
                    if b[3]:
                        flagged_paths.append(b[3])
    return nviol, flagged_paths


def jail_rel(jail, p):
    if p and p.startswith(jail.top):
        return '<jail-top>' + p[len(jail.top):]
    return p


def compare_snapshot(run, world, before, flagged_paths, case, items):
    jail = world.jail
    after = jail.snapshot()
    run.hit('jail_snapshots_compared')
    run.count('jail_entries_compared', len(before))
    run.judge(('snapshot', world.variant['multi']), nontrivial=True)
    added = sorted(set(after) - set(before))
    removed = sorted(set(before) - set(after))
    changed = sorted(p for p in before if p in after and before[p] != after[p])

    def explained(p):
        for f in flagged_paths:
            if p == f or p.startswith(f + os.sep) or f.startswith(p + os.sep):
                return True
        return False
    unexplained = [('added', p) for p in added if not explained(p)] + [('removed', p) for p in removed if not explained(p)] + \
                  [('changed', p) for p in changed if not explained(p)]
    run.count('snapshot_diffs_explained_by_flagged_events', len(added) + len(removed) + len(changed) - len(unexplained))
    if unexplained:
        kinds = sorted(set(k for k, _ in unexplained))
        run.violation({'service': 'any', 'vector': 'snapshot_diff', 'event': '+'.join(kinds), 'multi': world.variant['multi']},
                      {'i': case.get('i'), 'variant': world.variant, 'items': items},
                      'jail outside the roots differs from its snapshot although no audit event explains it: %s' % (
                          ', '.join('%s %s' % (k, jail_rel(jail, p)) for k, p in unexplained[:12])))
    # also: stray marker entries next to the jail (scratch dir)
    return unexplained


def cleanup_marker_paths(paths, keep_under):
    """best-effort removal of things a hostile request created outside the scratch directory"""
    for p in paths:
        if not p or p.startswith(keep_under):
            continue
        parts = p.split(os.sep)
        for k, comp in enumerate(parts):
            if MARK_RE.search(comp):
                victim = os.sep.join(parts[:k + 1])
                if os.path.islink(victim) or os.path.isfile(victim):
                    try:
                        os.remove(victim)
                    except OSError:
                        pass
                elif os.path.isdir(victim):
                    shutil.rmtree(victim, ignore_errors=True)
                break


def resolver_selfcheck(run):
    """the memoised resolver must agree with os.path.realpath (symlinks, dot segments, missing components)"""
    d = os.path.realpath(run.subdir('rescheck'))
    try:
        os.makedirs(d + '/a/b')
        os.makedirs(d + '/x/y')
        os.symlink('../x', d + '/a/lnk')
        os.symlink(d + '/a/b', d + '/x/abs')
        os.symlink('nowhere', d + '/a/dangling')
        rng = run.rng('rescheck')
        names = ['a', 'b', 'x', 'y', 'lnk', 'abs', 'dangling', '..', '.', '', 'missing', 'time-..']
        for _ in range(300):
            p = d + '/' + '/'.join(rng.choice(names) for _ in range(rng.randint(1, 8)))
            if RES.rdir(p) != os.path.realpath(p):
                raise RuntimeError('resolver disagrees with realpath on %r: %r vs %r' % (p, RES.rdir(p), os.path.realpath(p)))
        RES.clear()
    finally:
        shutil.rmtree(d, ignore_errors=True)


def setup_shard(run):
    install_monitor()
    install_opener()
    upstream.install()
    resolver_selfcheck(run)


def run_case(run, case):
    install_monitor()
    install_opener()
    if case.get('strace'):
        return run_strace_case(run, case)
    variant = case.get('variant') or gen_variant(case['i'])
    top = run.subdir('jail')
    flagged = []
    try:
        world = World(top, variant)
        items = case.get('items') or gen_items(run, case['i'], variant)
        before = world.jail.snapshot()
        scratch_before = set(os.listdir(os.path.dirname(world.jail.top)))
        nviol, flagged = run_items(run, world, items, case)
        compare_snapshot(run, world, before, flagged, case, items)
        stray = [n for n in set(os.listdir(os.path.dirname(world.jail.top))) - scratch_before]
        stray_top = [n for n in os.listdir(world.jail.top) if n != 'jail']
        for n in stray + stray_top:
            run.count('stray_entries_outside_jail')
            if not any(f.startswith(os.path.join(os.path.dirname(world.jail.top), n)) or f.startswith(os.path.join(world.jail.top, n))
                       for f in flagged):
                run.violation({'service': 'any', 'vector': 'stray_entry_outside_jail', 'event': 'created'},
                              {'i': case.get('i'), 'variant': variant, 'items': items},
                              'entry %r appeared next to / above the jail without an audit event explaining it' % n)
        if MON.errors:
            raise RuntimeError('audit hook raised %d internal errors' % MON.errors)
        run.hit('cases')
        if variant['multi']:
            run.hit('multiapp_cases')
    finally:
        cleanup_marker_paths(flagged, os.path.dirname(os.path.realpath(top)))
        shutil.rmtree(top, ignore_errors=True)


# ---------------------------------------------------------------------------------------------------------------------
# strace cross-check: an independent observer (the kernel's view) of the same requests in a short-lived server process
# ---------------------------------------------------------------------------------------------------------------------

STRACE_MUT = {'mkdir', 'mkdirat', 'rename', 'renameat', 'renameat2', 'unlink', 'unlinkat', 'rmdir', 'symlink', 'symlinkat',
              'link', 'linkat', 'chmod', 'fchmodat', 'chown', 'lchown', 'fchownat', 'truncate', 'utimensat', 'utime', 'utimes',
              'mknod', 'mknodat', 'creat'}
STRACE_OPEN = {'open', 'openat', 'openat2'}
STRACE_IGNORED = {'stat', 'lstat', 'newfstatat', 'fstatat64', 'statx', 'access', 'faccessat', 'faccessat2', 'readlink',
                  'readlinkat', 'getcwd', 'chdir', 'execve', 'statfs', 'getxattr', 'lgetxattr', 'listxattr', 'inotify_add_watch'}
_CSTR = re.compile(r'"((?:[^"\\]|\\.)*)"(\.\.\.)?')
_FDARG = re.compile(r'^(AT_FDCWD|\d+)(?:<([^>]*)>)?')


def _unescape(cs):
    try:
        return cs.encode('latin-1', 'backslashreplace').decode('unicode_escape').encode('latin-1', 'replace').decode('utf-8', 'surrogateescape')
    except Exception:
        return cs


def parse_strace(path, begin_mark, end_mark):
    """returns list of (syscall, [absolute paths], is_mutating) issued between the two marker stat calls"""
    out = []
    active = False
    skipped = 0
    with open(path, 'r', errors='replace') as f:
        for line in f:
            m = re.match(r'^(\d+)\s+(\w+)\((.*)$', line)
            if not m:
                continue
            name, rest = m.group(2), m.group(3)
            if begin_mark in rest:
                active = True
                continue
            if end_mark in rest:
                active = False
                continue
            if not active or name in STRACE_IGNORED:
                continue
            if name not in STRACE_MUT and name not in STRACE_OPEN:
                skipped += 1
                continue
            # split the arguments: dirfd annotations and C strings
            base = None
            paths = []
            pos = 0
            args = rest
            fm = _FDARG.match(args)
            if fm:
                base = fm.group(2)
            # strace caps path arguments at PATH_MAX and marks the cut with '...': such a call (ENAMETOOLONG) is skipped
            strs = [(mm.start(), None if mm.group(2) else _unescape(mm.group(1))) for mm in _CSTR.finditer(args)]
            if name in ('rename', 'link', 'symlink'):
                take = strs[:2]
            elif name in ('renameat', 'renameat2', 'linkat'):
                take = strs[:2]
            elif name == 'symlinkat':
                take = strs[1:2]
            else:
                take = strs[:1]
            if name == 'symlink':
                take = strs[1:2]
            for _, sp in take:
                if sp is None:
                    skipped += 1
                    continue
                if not os.path.isabs(sp):
                    if base is None:
                        sp = None
                    else:
                        sp = os.path.join(base, sp)
                if sp is not None:
                    paths.append(sp)
            mut = name in STRACE_MUT
            if name in STRACE_OPEN:
                mut = bool(re.search(r'O_(WRONLY|RDWR|CREAT|TRUNC|APPEND)', args))
            out.append((name, paths, mut))
    return out, skipped


def strace_child_main(spec_path, out_path):
    """executed under strace: build the world, run the items, dump what the audit hook saw"""
    core.use_repo()
    with open(spec_path) as f:
        spec = json.load(f)
    run = core.Run(PID, LEVEL, tier=spec['tier'], seed=spec['seed'])
    setup_shard(run)
    world = World(spec['top'], spec['variant'])
    seen = []
    orig_end = MON.end

    def end_and_keep():
        ev = orig_end()
        seen.extend(ev)
        return ev
    MON.end = end_and_keep
    try:
        os.stat(spec['begin'])
    except OSError:
        pass
    run_items(run, world, spec['items'], {'i': spec['i']})
    try:
        os.stat(spec['end'])
    except OSError:
        pass
    MON.end = orig_end
    d = run.dump()
    d['audit'] = [[k, bool(mu), rp, rpf] for k, mu, raw, rp, rpf in seen if rp]
    d['roots'] = world.jail.roots
    d['jail_root'] = world.jail.root
    d['mon_errors'] = MON.errors
    with open(out_path, 'w') as f:
        json.dump(d, f, default=str)
    run.cleanup()


def run_strace_case(run, case):
    if not shutil.which('strace'):
        run.dc('strace_not_available')
        return
    i = case['i']
    variant = case.get('variant') or gen_variant(i % 16)
    variant = dict(variant, multi=False)
    top = run.subdir('sjail')
    shutil.rmtree(top)           # the child builds it
    work = run.subdir('swork')
    try:
        items = case.get('items')
        if not items:
            items = []
            for k in range(case.get('ncases', 4)):
                items += gen_items(run, i + k, variant)
        spec = {'top': top, 'variant': variant, 'items': items, 'tier': run.tier, 'seed': run.seed, 'i': i,
                'begin': '/c09-strace-begin-%d' % i, 'end': '/c09-strace-end-%d' % i}
        sp, op, tp = os.path.join(work, 'spec.json'), os.path.join(work, 'out.json'), os.path.join(work, 'trace.txt')
        with open(sp, 'w') as f:
            json.dump(spec, f)
        env = dict(os.environ)
        cmd = ['strace', '-f', '-y', '-s', '20000', '-e', 'trace=%file', '-o', tp,
               sys.executable, '-m', 'checks.c09', '--strace-child', sp, op]
        try:
            pr = subprocess.run(cmd, cwd=core.VERIF, env=env, stdout=subprocess.PIPE, stderr=subprocess.STDOUT, timeout=400)
        except subprocess.TimeoutExpired:
            raise RuntimeError('strace child timed out')
        if not os.path.exists(op):
            raise RuntimeError('strace child produced no result rc=%s: %s' % (pr.returncode, pr.stdout[-1500:].decode('utf-8', 'replace')))
        with open(op) as f:
            d = json.load(f)
        audit = d.pop('audit')
        roots = d.pop('roots')
        jroot = d.pop('jail_root')
        if d.pop('mon_errors'):
            raise RuntimeError('audit hook raised internal errors in the strace child')
        run.merge(d)                        # the child's own judgements (same oracle) count as well
        calls, skipped = parse_strace(tp, spec['begin'], spec['end'])
        run.count('strace_syscalls_in_window', len(calls))
        run.count('strace_calls_unclassified_or_truncated', skipped)
        jtop = os.path.realpath(top)

        def interesting(p):
            return p.startswith(jtop + os.sep) or bool(MARK_RE.search(p))

        def inroots(p):
            return any(p == r or p.startswith(r + os.sep) for r in roots)
        a_all, a_mut, a_sqlite = set(), set(), set()
        for kind, mut, rp, rpf in audit:
            for c in (rp, rpf):
                if c:
                    a_all.add(c)
                    if mut:
                        a_mut.add(c)
                    if kind == 'sqlite_connect':
                        a_sqlite.add(c)
        s_all, s_mut = set(), set()
        for name, paths, mut in calls:
            for p in paths:
                rp, rpf = resolve(p, True)
                for c in set((rp, rpf)):
                    if c and interesting(c):
                        s_all.add(c)
                        if mut:
                            s_mut.add(c)
        RES.clear()

        def sqlite_side(p):
            # sqlite opens the database, its journal/wal files and (to fsync it) the containing directory in C
            return any(p == q or p == os.path.dirname(q) or (p.startswith(q) and p[len(q):] in ('-journal', '-wal', '-shm'))
                       for q in a_sqlite)
        # temp names of write_atomic / lock files are random but the audit hook must have seen the very same names
        miss_mut = sorted(p for p in s_mut if p not in a_mut and not sqlite_side(p))
        miss_any = sorted(p for p in s_all if p not in a_all and not sqlite_side(p))
        run.hit('strace_paths_compared', len(s_all))
        run.hit('strace_mutating_paths_compared', len(s_mut))
        run.count('strace_paths_outside_roots', len([p for p in s_all if not inroots(p)]))
        run.count('audit_paths_without_syscall', len([p for p in a_all if interesting(p) and p not in s_all]))
        run.judge(('strace_crosscheck', variant['fwd'], variant['origin']), nontrivial=True)
        if miss_mut or miss_any:
            outside = [p for p in (miss_mut + miss_any) if not inroots(p)]
            if outside:
                run.violation({'service': 'any', 'vector': 'strace_crosscheck', 'event': 'syscall_unseen_by_audit_hook_outside_roots'},
                              {'i': i, 'strace': True, 'variant': variant, 'items': items},
                              'strace saw file system calls on jail/marker paths outside the roots that raised no audit event: %r' % outside[:10])
            else:
                raise RuntimeError('audit hook is blind to system calls strace saw (inside the roots): mutating %r other %r' % (
                    miss_mut[:8], miss_any[:8]))
        run.hit('strace_cases')
    finally:
        shutil.rmtree(top, ignore_errors=True)
        shutil.rmtree(work, ignore_errors=True)


def evidence_extra(total):
    """compact, complete list of violation mechanisms (core prints only the 40 most frequent full mechanisms)"""
    agg = {}
    for key, n in total.viol_mechs.items():
        m = json.loads(key)
        k = (m.get('service'), m.get('vector'), m.get('event'))
        a = agg.setdefault(k, {'n': 0, 'backends': set()})
        a['n'] += n
        b = m.get('backend')
        if b:
            a['backends'].add('%s%s%s' % (b, '/' + m['layout'] if m.get('layout') else '', '+dims' if m.get('dims_configured') else ''))
    lines = []
    for k in sorted(agg, key=lambda k: tuple(str(x) for x in k)):
        a = agg[k]
        lines.append({'service': k[0], 'vector': k[1], 'event': k[2], 'hits': a['n'], 'backends': sorted(a['backends'])})
        print('violation-summary x%d: service=%s vector=%s event=%s backends=%s' % (a['n'], k[0], k[1], k[2], ','.join(sorted(a['backends']))))
    return {'violation_summary': lines}


if __name__ == '__main__':
    if len(sys.argv) >= 4 and sys.argv[1] == '--strace-child':
        strace_child_main(sys.argv[2], sys.argv[3])
    else:
        core.main(sys.modules[__name__])
