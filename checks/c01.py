"""C01 - map content and feature-info queries land at the right place on the ground.

Three request families against scenarios loaded through the real configuration loader:
 * GetMap (WMS 1.1.1 / 1.3.0, six client SRS, any bbox / size) on cached, cascaded, tile-source, cache-of-cache,
   restricted-supported_srs and coverage-limited layers against the RAMP upstream (colour = function of ground position
   only); an independent pyproj geo-oracle computes, per output pixel, the interval of colours of its ground
   neighbourhood and, per image, the mean displacement of the picture along both canonical axes.
 * exact-tile GetMap (bbox = one stored tile, size = tile size, same SRS) against the NOISE upstream: pixel-identical.
 * GetFeatureInfo (WMS 1.1.1 X/Y, 1.3.0 I/J, WMTS KVP and REST I/J): the upstream query's ground point is compared with the
   clicked one in client pixels.
"""
import math
import shutil
import os
import sys
import threading
import traceback

import numpy as np

from vlib import core, upstream, scenario, geo

PID = 'C01'
LEVEL = 'exploration'
BUDGET_S = {'quick': 42, 'thorough': 640}
# floors: about 40% of what seed 0 reaches on an otherwise idle machine would be twice these numbers; the quick tier was
# also run while 16 other check shards competed for the cores (3-4x slower) and has to stay conclusive then
FLOORS = {'quick': {'rescale_histories': 10, 'rescaled_tiles_judged': 50, 'scenarios': 200, 'getmap_requests': 1200, 'strong_pixels_judged': 32000000, 'weak_pixels': 400000,
                    'exact_tile_requests': 240, 'exact_pixels_judged': 240000, 'featureinfo_requests': 480,
                    'featureinfo_regridded': 160, 'wmts_featureinfo_requests': 80, 'reprojected_requests': 560,
                    'v130_requests': 640, 'mean_shift_judged': 1600},
          'thorough': {'scenarios': 500, 'getmap_requests': 3500, 'strong_pixels_judged': 100000000, 'weak_pixels': 2000000,
                       'exact_tile_requests': 900, 'exact_pixels_judged': 900000, 'featureinfo_requests': 2000,
                       'featureinfo_regridded': 1000, 'wmts_featureinfo_requests': 500, 'reprojected_requests': 1600,
                       'v130_requests': 2000, 'mean_shift_judged': 5000}}
RULE = ("case = one generated scenario (shape cached_wms | cascaded_wms | tile_src | cache_of_cache | restricted_srs | "
        "coverage x grid SRS 3857/4326/25832 x origin x tile size x f2/custom ladder x meta size/buffer x backend x "
        "upstream WMS version x resampling) driven by 8-12 GetMap requests and 1-2 WMS (+2 WMTS) GetFeatureInfo requests of 3-4 "
        "clicks each, or one NOISE "
        "scenario driven by exact-tile requests. evaluations = responses judged by an oracle (GetMap images, exact tiles, "
        "feature-info forwards); distinct = (scenario shape, request SRS, scale class, position class, WMS version); "
        "non-trivial = the image had at least one strong pixel (gradient >= 0.5 level/px) inside the layer extent / the "
        "exact tile had judged pixels / the feature-info request was forwarded upstream")
ASSUMPTIONS = [
    "the RAMP upstream renders colour as a function of the ground position of the pixel CENTRE of the upstream request "
    "(pyproj, always_xy) in the canonical frame (SRS of the cache grid that is fed by the upstream / of the source); its "
    "scale depends on the resolution octave of the upstream request only (about 4 levels per upstream pixel)",
    "pixel test: a pixel must lie in the colour range of its +-2.5 px ground neighbourhood (1.5 px of the property + 1.0 px "
    "slack, because mesh error < 1 px, nearest-neighbour 0.5 px and sub-image placement < 1 px are each inside MapProxy's "
    "own budget but stack up locally), scaled by max(1, source_res/output_res), widened by 1.0 level of rounding slack and "
    "1.0 level per bilinear/bicubic resampling stage (Pillow truncates); up to 0.5% + 50 judged pixels of an image may fall "
    "outside; pixels explained by another rendered octave are accepted in cache-of-cache scenarios only",
    "mean test: the mean displacement of an image along each canonical axis must be <= 1.5 px (scaled) + 0.1 + truncation bias",
    "pixels closer than 2.5 px + resampling kernel radius (in the coarsest pixel size of the chain) to the edge of the "
    "intersection of grid / coverage extents are don't-care; outside of it a pixel must be background (transparent, "
    "BGCOLOR, or white for opaque caches), correct content, or a blend at the boundary between the two",
    "requests whose pixel->ground mapping (to any SRS of the chain) bends more than 0.75 px across 100 px are not judged: "
    "MapProxy never verifies mesh quads below 50 px (documented: at most one quad per 50 px)",
    "resolution ladders keep every level within +-0.3 octaves of s0*2^k (sqrt2 ladders would put levels on an octave "
    "boundary of the RAMP encoding and are not generated); with a source restricted to another SRS the ladder is factor 2 "
    "and s0 is calibrated to what an upstream request for level 0 measures",
    "requests coarser than 3x the coarsest level are not generated (max_shrink_factor 4 answers blank by design)",
    "exact tiles: pixels less than one pixel inside the grid bbox are not judged; a tile that MapProxy built from an "
    "off-grid (border-clipped) upstream request only has to match within one pixel",
    "feature info: pixel index <-> ground of the pixel centre on both sides; bound 1.0 client px, plus half an upstream "
    "pixel (in client px) when MapProxy re-gridded the query for an unsupported SRS; WMTS feature info only on grids with "
    "origin ul (rows count from the top of the grid bbox)",
    "lossless png, paletted: false; mid-latitude areas (central Europe), requested area at most 1.6 x the layer extent",
]

SRS_OFFERED = ['EPSG:3857', 'EPSG:900913', 'EPSG:4326', 'EPSG:25832', 'EPSG:3035', 'CRS:84']
REGIONS = {
    'EPSG:3857': (650000.0, 5750000.0, 1550000.0, 7050000.0),
    'EPSG:4326': (6.0, 46.0, 14.0, 54.0),
    'EPSG:25832': (280000.0, 5150000.0, 820000.0, 5950000.0),
}
KERNEL = {'nearest': 0.5, 'bilinear': 1.0, 'bicubic': 2.0}
SLACK = 1.0
TOL_PX = 1.5          # the property's tolerance: bound of the mean displacement of an image
PIXEL_TOL_PX = 2.5    # single pixels: 1.5 px + 1.0 px slack (mesh error < 1 px, nearest-neighbour 0.5 px and sub-image
                      # placement < 1 px are each inside MapProxy's own budget but can stack up locally)
MEAN_SLACK = 0.1
OUTLIER_FRAC = 0.005
OUTLIER_ABS = 50
D100_MAX = 0.75       # px; requests whose projection bends more than this across 100 px are not judged (see Geometry)
# level resolutions are not a whole multiple of the RAMP scale, so that the rounding of the upstream picture to integer
# levels averages out over an image instead of adding a constant bias (seen: 0.25 px with res == s exactly)
S0_FACTOR = 1.0373
# levels per pixel at the nominal resolution s0*2^k of an octave: Pillow truncates to integer levels in its bilinear /
# bicubic transforms (up to -1 level per resampling stage); with 4 levels per pixel that costs a quarter pixel per stage
GAIN = 4.0


def ramp_scale(s0, k):
    return s0 * 2.0 ** k / GAIN


RLOCK = threading.Lock()
DEBUG = bool(__import__('os').environ.get('C01_DEBUG'))


# ======================================================================================================================
# scenario generation
# ======================================================================================================================

def gen_grid(rng, srs, small=False):
    reg = REGIONS[srs]
    W, H = reg[2] - reg[0], reg[3] - reg[1]
    fw = rng.uniform(0.25, 0.8)
    fh = min(0.9, max(0.2, fw * rng.uniform(0.6, 1.6)))
    x0 = reg[0] + rng.random() * W * (1 - fw)
    y0 = reg[1] + rng.random() * H * (1 - fh)
    w, h = W * fw, H * fh
    tile = rng.choice([[64, 64], [128, 128], [128, 128], [256, 256], [100, 60], [96, 128]])
    if small:
        tile = rng.choice([[32, 32], [64, 64], [48, 32]])
    r0 = max(w / tile[0], h / tile[1]) / rng.uniform(1.0, 2.5)
    nlev = rng.randint(3, 6)
    ladder = rng.choice(['f2', 'f2', 'custom'])
    # every level sits within +-0.3 octaves of r0 * 2^-n (r0 = s0 of the RAMP encoding when this grid feeds the upstream)
    res = []
    n = 0
    for i in range(nlev):
        e = 0.0 if (ladder == 'f2' or i == 0) else rng.uniform(-0.3, 0.3)
        res.append(r0 * 2.0 ** (-n + e))
        n += rng.choice([1, 1, 1, 2]) if ladder == 'custom' else 1
    align = rng.random() < 0.4
    if align:
        # extent = whole number of level-0 tiles
        nx = max(1, int(round(w / (res[0] * tile[0]))))
        ny = max(1, int(round(h / (res[0] * tile[1]))))
        w, h = nx * res[0] * tile[0], ny * res[0] * tile[1]
        if srs != 'EPSG:4326':
            x0, y0 = float(int(x0)), float(int(y0))
    return {'srs': srs, 'bbox': [x0, y0, x0 + w, y0 + h], 'res': res, 'origin': rng.choice(['ll', 'ul']),
            'tile_size': tile, 'ladder': ladder, 'aligned': align}


def other_srs(rng, srs):
    return rng.choice([s for s in ('EPSG:3857', 'EPSG:4326', 'EPSG:25832') if s != srs])


def sub_bbox(rng, bbox, lo=0.35, hi=0.8):
    w, h = bbox[2] - bbox[0], bbox[3] - bbox[1]
    fw, fh = rng.uniform(lo, hi), rng.uniform(lo, hi)
    x0 = bbox[0] + rng.random() * w * (1 - fw)
    y0 = bbox[1] + rng.random() * h * (1 - fh)
    return [x0, y0, x0 + w * fw, y0 + h * fh]


def gen_spec(rng):
    shape = rng.choice(['cached_wms', 'cached_wms', 'cascaded_wms', 'tile_src', 'cache_of_cache', 'restricted_srs',
                        'coverage', 'coverage'])
    gsrs = rng.choice(['EPSG:3857', 'EPSG:4326', 'EPSG:25832'])
    spec = {'shape': shape, 'resampling': rng.choice(['nearest', 'bilinear', 'bicubic']),
            'up_version': rng.choice(['1.1.1', '1.3.0']), 'grids': {}, 'extents': [],
            'meta_size': rng.choice([[1, 1], [2, 2], [3, 2], [1, 3], [4, 4]]),
            'meta_buffer': rng.choice([0, 0, 10, 40, 80]),
            'backend': rng.choice(['file:tc', 'file:tms', 'file:mp', 'sqlite', 'sqlite', 'mbtiles', 'geopackage']),
            'supported_srs': None, 'coverage': None, 'cached': True, 'cache_transparent': rng.random() < 0.5}
    g = gen_grid(rng, gsrs)
    spec['grids']['g'] = g
    spec['canon'] = gsrs
    spec['s0'] = g['res'][0] * S0_FACTOR
    spec['layer_grid'] = 'g'
    if shape == 'cached_wms':
        spec['supported_srs'] = rng.choice([None, [gsrs], [gsrs, other_srs(rng, gsrs)]])
        if gsrs == 'EPSG:3857' and rng.random() < 0.3:
            spec['supported_srs'] = ['EPSG:900913']
    elif shape == 'cascaded_wms':
        spec['cached'] = False
        spec['supported_srs'] = rng.choice([None, [gsrs], [gsrs], [gsrs, other_srs(rng, gsrs)]])
    elif shape == 'tile_src':
        spec['tile_template'] = rng.choice(['zxy', 'tms_path', 'bbox'])
        spec['tile_transparent'] = rng.random() < 0.5
        spec['meta_buffer'] = 0
    elif shape == 'cache_of_cache':
        # g = lower cache grid (fed by the WMS), g2 = upper grid the layer uses
        same = rng.random() < 0.3
        g2 = gen_grid(rng, gsrs if same else other_srs(rng, gsrs), small=False)
        # make sure the grids overlap: put g2 over the part of the region that contains g's centre
        cx, cy = (g['bbox'][0] + g['bbox'][2]) / 2, (g['bbox'][1] + g['bbox'][3]) / 2
        c2 = geo.transform(gsrs, g2['srs'], cx, cy)
        w2, h2 = g2['bbox'][2] - g2['bbox'][0], g2['bbox'][3] - g2['bbox'][1]
        ox, oy = rng.uniform(0.25, 0.75), rng.uniform(0.25, 0.75)
        g2['bbox'] = [c2[0] - w2 * ox, c2[1] - h2 * oy, c2[0] + w2 * (1 - ox), c2[1] + h2 * (1 - oy)]
        # the lower cache does not shrink by more than max_shrink_factor (4): keep the coarsest upper level within 3x
        f = max(geo.local_scale(g2['srs'], gsrs, c2[0], c2[1], w2 / 50))
        lim = g['res'][0] * rng.uniform(1.0, 3.0)
        if g2['res'][0] * f > lim:
            q = lim / (g2['res'][0] * f)
            g2['res'] = [v * q for v in g2['res']]
        spec['grids']['g2'] = g2
        spec['layer_grid'] = 'g2'
        spec['supported_srs'] = [gsrs]
        spec['meta_size2'] = rng.choice([[1, 1], [2, 2]])
    elif shape == 'restricted_srs':
        spec['supported_srs'] = [other_srs(rng, gsrs)]
        spec['cached'] = rng.random() < 0.7
    elif shape == 'coverage':
        spec['cached'] = rng.random() < 0.6
        csrs = rng.choice([gsrs, gsrs, other_srs(rng, gsrs)])
        cb = sub_bbox(rng, g['bbox'])
        if csrs != gsrs:
            # a rectangle in another SRS that lies inside the grid: transform the centre, size from the local scale
            cx, cy = (cb[0] + cb[2]) / 2, (cb[1] + cb[3]) / 2
            c2 = geo.transform(gsrs, csrs, cx, cy)
            sx, sy = geo.local_scale(gsrs, csrs, cx, cy, (cb[2] - cb[0]) / 8)
            hw, hh = (cb[2] - cb[0]) / 2 * sx * 0.8, (cb[3] - cb[1]) / 2 * sy * 0.8
            cb = [c2[0] - hw, c2[1] - hh, c2[0] + hw, c2[1] + hh]
        spec['coverage'] = {'bbox': cb, 'srs': csrs}
        spec['supported_srs'] = rng.choice([None, [gsrs], [other_srs(rng, gsrs)]])
    if not spec['cached']:
        spec['meta_size'] = [1, 1]
        spec['meta_buffer'] = 0
    # extents whose intersection must show content
    if spec['cached']:
        spec['extents'].append({'bbox': g['bbox'], 'srs': g['srs']})
    if 'g2' in spec['grids']:
        spec['extents'].append({'bbox': spec['grids']['g2']['bbox'], 'srs': spec['grids']['g2']['srs']})
    if spec['coverage']:
        spec['extents'].append(dict(spec['coverage']))
    spec['fi'] = shape != 'tile_src'
    if spec['cached'] and spec['supported_srs'] and not any(geo.same_crs(c, gsrs) for c in spec['supported_srs']):
        # every upstream request is made in another SRS: its resolution, measured in the canonical frame, differs from the
        # level's by a factor that depends on the SRS pair and the latitude (up to +-0.4 octaves). Use a factor-2 ladder
        # and centre the octaves of the RAMP encoding on what an upstream request for level 0 really measures.
        g['res'] = [g['res'][0] / 2 ** i for i in range(len(g['res']))]
        g['ladder'] = 'f2'
        spec['s0'] = upstream_res_estimate(g, spec['supported_srs'][0]) * S0_FACTOR
    return spec


def upstream_res_estimate(g, src_srs):
    """canonical-frame resolution of the request MapProxy sends in src_srs for a 256 px square of level 0 at the grid centre"""
    r = g['res'][0]
    cx, cy = (g['bbox'][0] + g['bbox'][2]) / 2, (g['bbox'][1] + g['bbox'][3]) / 2
    bb = (cx - 128 * r, cy - 128 * r, cx + 128 * r, cy + 128 * r)
    sb = geo.densified_envelope(bb, g['srs'], src_srs)
    p = min((sb[2] - sb[0]) / 256.0, (sb[3] - sb[1]) / 256.0)
    sx, sy = (sb[0] + sb[2]) / 2, (sb[1] + sb[3]) / 2
    p0 = geo.transform(src_srs, g['srs'], sx, sy)
    p1 = geo.transform(src_srs, g['srs'], sx + p, sy)
    p2 = geo.transform(src_srs, g['srs'], sx, sy + p)
    a = (p1[0] - p0[0], p1[1] - p0[1])
    b = (p2[0] - p0[0], p2[1] - p0[1])
    return math.sqrt(abs(a[0] * b[1] - a[1] * b[0]))


def backend_conf(b):
    if b.startswith('file:'):
        return {'type': 'file', 'directory_layout': b.split(':')[1]}
    if b == 'geopackage':
        return {'type': 'geopackage', 'filename': './cache_data/c.gpkg', 'table_name': 'tiles'}
    return {'type': b}


def grid_conf(g):
    return {'srs': g['srs'], 'bbox': [float(v) for v in g['bbox']], 'res': [float(r) for r in g['res']],
            'origin': g['origin'], 'tile_size': list(g['tile_size'])}


def build_conf(spec, host='ramp', tiles_host='rtiles'):
    conf = scenario.base_conf(image={'resampling_method': spec['resampling']})
    conf['services'] = {'wms': {'srs': list(SRS_OFFERED), 'image_formats': ['image/png'], 'md': {'title': 'c01'}},
                        'wmts': {'restful': True, 'kvp': True,
                                 'featureinfo_formats': [{'mimetype': 'text/plain', 'suffix': 'text'}]}}
    for name, g in spec['grids'].items():
        conf['grids'][name] = grid_conf(g)
    if spec['shape'] == 'tile_src':
        t = spec.get('tile_template', 'zxy')
        if t == 'zxy':
            url = 'http://%s/t/%%(z)s/%%(x)s/%%(y)s.png' % tiles_host
        elif t == 'tms_path':
            url = 'http://%s/tms/%%(tms_path)s.png' % tiles_host
        else:
            url = 'http://%s/b?bbox=%%(bbox)s&z=%%(z)s' % tiles_host
        conf['sources']['src'] = {'type': 'tile', 'url': url, 'grid': 'g'}
        if spec.get('tile_transparent'):
            conf['sources']['src']['transparent'] = True
    else:
        src = {'type': 'wms', 'req': {'url': 'http://%s/service?' % host, 'layers': 'a', 'transparent': True},
               'wms_opts': {'version': spec['up_version'], 'featureinfo': bool(spec.get('fi'))}}
        if spec['supported_srs']:
            src['supported_srs'] = list(spec['supported_srs'])
        if spec['coverage']:
            src['coverage'] = {'bbox': [float(v) for v in spec['coverage']['bbox']], 'srs': spec['coverage']['srs']}
        conf['sources']['src'] = src
    if spec['cached']:
        c = {'grids': ['g'], 'sources': ['src'], 'format': 'image/png', 'request_format': 'image/png',
             'meta_size': list(spec['meta_size']), 'meta_buffer': spec['meta_buffer'],
             'cache': backend_conf(spec['backend'])}
        if spec.get('cache_transparent'):
            c['image'] = {'transparent': True}
        conf['caches']['c'] = c
        top = 'c'
        if 'g2' in spec['grids']:
            conf['caches']['c2'] = {'grids': ['g2'], 'sources': ['c'], 'format': 'image/png',
                                    'meta_size': list(spec.get('meta_size2', [1, 1])), 'meta_buffer': 0,
                                    'cache': {'type': 'file'}}
            if spec.get('cache_transparent'):
                conf['caches']['c2']['image'] = {'transparent': True}
            top = 'c2'
        conf['layers'] = [{'name': 'l', 'title': 'l', 'sources': [top]}]
    else:
        conf['layers'] = [{'name': 'l', 'title': 'l', 'sources': ['src']}]
    return conf


# ======================================================================================================================
# RAMP upstream
# ======================================================================================================================

def tile_rect(g, x, y, z):
    """rectangle of tile (x, y, z) of a grid spec, from bbox / res / origin / tile size only"""
    r = g['res'][z]
    tw, th = g['tile_size']
    x0 = g['bbox'][0] + x * r * tw
    if g['origin'] in ('ul', 'nw'):
        y1 = g['bbox'][3] - y * r * th
        y0 = y1 - r * th
    else:
        y0 = g['bbox'][1] + y * r * th
        y1 = y0 + r * th
    return (x0, y0, x0 + r * tw, y1)


def grid_size(g, z):
    r = g['res'][z]
    tw, th = g['tile_size']
    nx = int(math.ceil((g['bbox'][2] - g['bbox'][0]) / (r * tw) - 1e-9))
    ny = int(math.ceil((g['bbox'][3] - g['bbox'][1]) / (r * th) - 1e-9))
    return max(nx, 1), max(ny, 1)


class Ramp(object):
    """RAMP renderer for WMS GetMap / GetFeatureInfo / tile URLs. Logs k per call in `self.maps`."""

    def __init__(self, canon, s0, tile_grid=None):
        self.canon = canon
        self.s0 = s0
        self.tile_grid = tile_grid
        self.maps = []       # {'k', 'res', 'srs', 'bbox', 'size', 'version'}
        self.infos = []      # {'srs','bbox','size','pos','version', 'n'}
        self.errors = []

    def ks(self):
        d = {}
        for m in self.maps:
            d[m['k']] = max(d.get(m['k'], 0.0), m['res'])
        return d

    def render(self, bbox, size, srs):
        X, Y = geo.ground_grid(bbox, size, srs, self.canon)
        h, w = X.shape
        if geo.same_crs(srs, self.canon):
            res = math.sqrt(abs((bbox[2] - bbox[0]) / w * (bbox[3] - bbox[1]) / h))
        else:
            # ground size, in the canonical frame, of a pixel at the image centre
            cx, cy = (bbox[0] + bbox[2]) / 2, (bbox[1] + bbox[3]) / 2
            rx, ry = (bbox[2] - bbox[0]) / w, (bbox[3] - bbox[1]) / h
            p0 = geo.transform(srs, self.canon, cx, cy)
            p1 = geo.transform(srs, self.canon, cx + rx, cy)
            p2 = geo.transform(srs, self.canon, cx, cy + ry)
            a = (p1[0] - p0[0], p1[1] - p0[1])
            b = (p2[0] - p0[0], p2[1] - p0[1])
            res = math.sqrt(abs(a[0] * b[1] - a[1] * b[0]))
        k = geo.octave(res, self.s0)
        s = ramp_scale(self.s0, k)
        bad = ~(np.isfinite(X) & np.isfinite(Y))
        if bad.any():
            X = np.where(bad, 0.0, X)
            Y = np.where(bad, 0.0, Y)
        return geo.ramp_rgb(X, Y, s), k, res

    def __call__(self, call):
        with RLOCK:
            try:
                return self._handle(call)
            except Exception as ex:
                self.errors.append('%s: %r' % (call.url[:300], ex))
                return upstream.Resp(('<ServiceExceptionReport><ServiceException>%s</ServiceException>'
                                      '</ServiceExceptionReport>' % ex).encode(), 'application/vnd.ogc.se_xml', 200)

    def _handle(self, call):
        if call.kind == 'getmap':
            q = upstream.parse_getmap(call)
            if q['size'][0] <= 0 or q['size'][1] <= 0 or q['bbox'][2] <= q['bbox'][0] or q['bbox'][3] <= q['bbox'][1]:
                raise ValueError('invalid size/bbox')
            arr, k, res = self.render(q['bbox'], q['size'], q['srs'])
            rec = {'k': k, 'res': res, 'srs': q['srs'], 'bbox': q['bbox'], 'size': q['size'], 'version': q['version'],
                   'n': call.n}
            call.extra.update(rec)
            self.maps.append(rec)
            return upstream.Resp(upstream.encode(arr, 'image/png'), 'image/png')
        if call.kind == 'featureinfo':
            q = upstream.parse_getmap(call)
            p = call.params
            if q['version'] == '1.3.0':
                pos = (int(p['i']), int(p['j']))
            else:
                pos = (int(p['x']), int(p['y']))
            rec = {'srs': q['srs'], 'bbox': q['bbox'], 'size': q['size'], 'pos': pos, 'version': q['version'],
                   'n': call.n, 'names': sorted(k for k in ('x', 'y', 'i', 'j') if k in p)}
            call.extra.update(rec)
            self.infos.append(rec)
            return upstream.Resp(b'info', 'text/plain')
        if call.kind == 'tile' and self.tile_grid is not None:
            g = self.tile_grid
            if 'bbox' in call.params:
                bbox = tuple(float(v) for v in call.params['bbox'].split(','))
                z = int(call.params.get('z', 0))
            else:
                parts = call.path.strip('/').split('/')
                nums = parts[-3:]
                nums[2] = nums[2].rsplit('.', 1)[0]
                z, x, y = [int(v) for v in nums]
                # %(tms_path)s is only a path format (z/x/y); the row counts in the direction of the source grid's origin
                bbox = tile_rect(g, x, y, z)
            arr, k, res = self.render(bbox, tuple(g['tile_size']), g['srs'])
            rec = {'k': k, 'res': res, 'srs': g['srs'], 'bbox': bbox, 'size': tuple(g['tile_size']), 'version': 'tile',
                   'n': call.n}
            call.extra.update(rec)
            self.maps.append(rec)
            return upstream.Resp(upstream.encode(arr, 'image/png'), 'image/png')
        raise ValueError('unsupported upstream request %s' % call.kind)


# ======================================================================================================================
# requests
# ======================================================================================================================

def frame_of(spec):
    g = spec['grids'][spec['layer_grid']]
    return g['srs'], g['bbox'], g['res'], g['tile_size']


def gen_bbox(rng, spec, srs, scale_class, pos_class, size, aniso=1.0):
    """bbox (x/y order) in client SRS `srs` for a request of `size`; returns (bbox, on_lattice)"""
    L, E, ladder, tile = frame_of(spec)
    w, h = size
    if scale_class == 'on_level':
        z = rng.randrange(len(ladder))
        r = ladder[z]
    elif scale_class == 'between':
        z = rng.randrange(len(ladder))
        lo = ladder[z + 1] if z + 1 < len(ladder) else ladder[z] / 2
        r = math.exp(rng.uniform(math.log(lo * 1.03), math.log(ladder[z] * 0.97)))
    elif scale_class == 'finer':
        r = ladder[-1] / math.exp(rng.uniform(math.log(1.2), math.log(14.0)))
    else:
        r = ladder[0] * rng.uniform(1.15, 3.0)
    Ew, Eh = E[2] - E[0], E[3] - E[1]
    # keep the requested area moderate (at most 1.6 x the layer extent): distortion stays mid-latitude / regional
    w = max(16, min(w, int(1.6 * Ew / r)))
    h = max(16, min(h, int(1.6 * Eh / r)))
    if w == h:
        h += 3
    bw, bh = w * r, h * r
    if pos_class == 'interior':
        cx = E[0] + bw / 2 + rng.random() * max(0.0, Ew - bw) if Ew > bw else E[0] + Ew * rng.uniform(0.3, 0.7)
        cy = E[1] + bh / 2 + rng.random() * max(0.0, Eh - bh) if Eh > bh else E[1] + Eh * rng.uniform(0.3, 0.7)
    elif pos_class == 'straddle':
        ex = rng.choice([E[0], E[2], None])
        ey = rng.choice([E[1], E[3], None]) if ex is not None else rng.choice([E[1], E[3]])
        cx = ex + bw * rng.uniform(-0.3, 0.3) if ex is not None else E[0] + Ew * rng.random()
        cy = ey + bh * rng.uniform(-0.3, 0.3) if ey is not None else E[1] + Eh * rng.random()
    else:  # mostly_outside: 5-30 % of the width/height overlaps
        sx = rng.choice([-1, 1, 0])
        sy = rng.choice([-1, 1]) if sx == 0 else rng.choice([-1, 1, 0])
        ov = rng.uniform(0.05, 0.3)
        cx = (E[0] - bw * (0.5 - ov) if sx < 0 else E[2] + bw * (0.5 - ov)) if sx else E[0] + Ew * rng.random()
        cy = (E[1] - bh * (0.5 - ov) if sy < 0 else E[3] + bh * (0.5 - ov)) if sy else E[1] + Eh * rng.random()
    on_lattice = False
    if geo.same_crs(srs, L):
        if scale_class == 'on_level' and rng.random() < 0.6:
            # snap the lower-left corner to the pixel lattice of the level (anchored at the grid origin corner)
            x0 = E[0] + round((cx - bw / 2 - E[0]) / r) * r
            if spec['grids'][spec['layer_grid']]['origin'] in ('ul', 'nw'):
                y1 = E[3] - round((E[3] - (cy + bh / 2)) / r) * r
                y0 = y1 - h * r
            else:
                y0 = E[1] + round((cy - bh / 2 - E[1]) / r) * r
            on_lattice = True
            return (x0, y0, x0 + w * r, y0 + h * r), on_lattice, (w, h)
        rx, ry = r, r * aniso
        return (cx - w * rx / 2, cy - h * ry / 2, cx + w * rx / 2, cy + h * ry / 2), on_lattice, (w, h)
    c = geo.transform(L, srs, cx, cy)
    sx, sy = geo.local_scale(L, srs, cx, cy, r * 8)
    rc = r * math.sqrt(sx * sy)
    rx, ry = rc, rc * aniso
    return (c[0] - w * rx / 2, c[1] - h * ry / 2, c[0] + w * rx / 2, c[1] + h * ry / 2), on_lattice, (w, h)


def gen_requests(rng, spec, n_map, n_fi):
    reqs = []
    for _ in range(n_map):
        srs = rng.choice(SRS_OFFERED + [frame_of(spec)[0]] * 3)
        scale_class = rng.choice(['on_level', 'between', 'between', 'finer', 'coarser'])
        pos_class = rng.choice(['interior', 'interior', 'straddle', 'straddle', 'mostly_outside', 'inside_tile'])
        w = int(rng.triangular(16, 700, 140))
        h = int(min(700, max(16, w * rng.uniform(0.45, 1.7))))
        if h == w:
            h += 3
        if pos_class == 'inside_tile':
            t = frame_of(spec)[3]
            w, h = rng.randint(16, max(17, t[0] // 2)), rng.randint(16, max(17, t[1] // 2))
            if scale_class == 'coarser':
                scale_class = 'between'
            pc = 'interior'
        else:
            pc = pos_class
        aniso = rng.uniform(0.6, 1.6) if rng.random() < 0.15 else 1.0
        bbox, lat, (w, h) = gen_bbox(rng, spec, srs, scale_class, pc, (w, h), aniso)
        if scale_class == 'on_level' and not lat:
            scale_class = 'on_level_res' if geo.same_crs(srs, frame_of(spec)[0]) else 'near_level'
        reqs.append({'kind': 'map', 'version': rng.choice(['1.1.1', '1.3.0']), 'srs': srs, 'bbox': list(bbox),
                     'size': [w, h], 'transparent': rng.random() < 0.75,
                     'bgcolor': rng.choice([None, '#ff00ff', '#102030']),
                     'scale_class': scale_class + ('_aniso' if aniso != 1.0 else ''), 'pos_class': pos_class})
    if spec.get('fi'):
        for _ in range(n_fi):
            srs = rng.choice(SRS_OFFERED)
            w = rng.randint(16, 400)
            h = int(min(500, max(16, w * rng.uniform(0.5, 1.6))))
            scale_class = rng.choice(['between', 'between', 'finer', 'coarser'])
            pos_class = rng.choice(['interior', 'interior', 'straddle'])
            bbox, _, (w, h) = gen_bbox(rng, spec, srs, scale_class, pos_class, (w, h))
            version = rng.choice(['1.1.1', '1.3.0'])
            clicks = [(0, 0), (w - 1, 0), (0, h - 1), (w - 1, h - 1), (w // 2, h // 2),
                      (rng.randrange(w), rng.randrange(h)), (rng.randrange(w), rng.randrange(h))]
            reqs.append({'kind': 'fi', 'version': version, 'srs': srs, 'bbox': list(bbox), 'size': [w, h],
                         'clicks': [list(c) for c in rng.sample(clicks, 4)], 'scale_class': scale_class,
                         'pos_class': pos_class})
        lg = spec['grids'][spec['layer_grid']]
        if lg['origin'] in ('ul', 'nw') and spec['cached']:
            # WMTS GetFeatureInfo (KVP and REST): rows count from the top, like the grid itself
            for flavour in ('kvp', 'rest'):
                z = rng.randrange(len(lg['res']))
                nx, ny = grid_size(lg, z)
                col, row = rng.randrange(nx), rng.randrange(ny)
                tw, th = lg['tile_size']
                clicks = [(0, 0), (tw - 1, th - 1), (tw // 2, th // 2), (rng.randrange(tw), rng.randrange(th))]
                reqs.append({'kind': 'wfi', 'flavour': flavour, 'version': 'wmts-' + flavour, 'srs': lg['srs'],
                             'tile': [col, row, z], 'bbox': list(tile_rect(lg, col, row, z)), 'size': [tw, th],
                             'clicks': [list(c) for c in rng.sample(clicks, 3)], 'scale_class': 'tile',
                             'pos_class': 'edge' if col in (0, nx - 1) or row in (0, ny - 1) else 'mid'})
    # feature-info requests after the third GetMap: a shard that runs out of budget mid-scenario still reaches them
    maps = [r for r in reqs if r['kind'] == 'map']
    infos = [r for r in reqs if r['kind'] != 'map']
    return maps[:3] + infos + maps[3:]


def wmts_fi_url(spec, req, click):
    col, row, z = req['tile']
    if req['flavour'] == 'kvp':
        return ('/service?SERVICE=WMTS&REQUEST=GetFeatureInfo&VERSION=1.0.0&LAYER=l&STYLE=default&TILEMATRIXSET=%s'
                '&TILEMATRIX=%02d&TILEROW=%d&TILECOL=%d&FORMAT=image/png&INFOFORMAT=text/plain&I=%d&J=%d' % (
                    spec['layer_grid'], z, row, col, click[0], click[1]))
    return '/wmts/l/%s/%02d/%d/%d/%d/%d.text' % (spec['layer_grid'], z, col, row, click[0], click[1])


def map_url(req, extra=''):
    v = req['version']
    q = 'SERVICE=WMS&VERSION=%s&REQUEST=GetMap&LAYERS=l&STYLES=&%s=%s&BBOX=%s&WIDTH=%d&HEIGHT=%d&FORMAT=image/png' % (
        v, 'CRS' if v == '1.3.0' else 'SRS', req['srs'], geo.wms_bbox_str(req['bbox'], req['srs'], v),
        req['size'][0], req['size'][1])
    if req.get('transparent'):
        q += '&TRANSPARENT=TRUE'
    if req.get('bgcolor'):
        q += '&BGCOLOR=0x' + req['bgcolor'][1:]
    return '/service?' + q + extra


def fi_url(req, click):
    v = req['version']
    q = ('SERVICE=WMS&VERSION=%s&REQUEST=GetFeatureInfo&LAYERS=l&QUERY_LAYERS=l&STYLES=&%s=%s&BBOX=%s&WIDTH=%d&HEIGHT=%d'
         '&FORMAT=image/png&INFO_FORMAT=text/plain') % (
        v, 'CRS' if v == '1.3.0' else 'SRS', req['srs'], geo.wms_bbox_str(req['bbox'], req['srs'], v),
        req['size'][0], req['size'][1])
    if v == '1.3.0':
        q += '&I=%d&J=%d' % tuple(click)
    else:
        q += '&X=%d&Y=%d' % tuple(click)
    return '/service?' + q


# ======================================================================================================================
# oracle
# ======================================================================================================================

class Geometry(object):
    """everything about a client request that does not depend on k: canonical ground position of every pixel centre,
    its Jacobian, pixel sizes, signed distance (in px) to the edge of the content extent"""

    def __init__(self, spec, req):
        bbox, size, srs = tuple(req['bbox']), tuple(req['size']), req['srs']
        self.size = size
        X, Y = geo.ground_grid(bbox, size, srs, spec['canon'])
        self.finite = np.isfinite(X) & np.isfinite(Y)
        X = np.where(self.finite, X, 0.0)
        Y = np.where(self.finite, Y, 0.0)
        self.X, self.Y = X, Y
        self.Xi, self.Xj = geo.jacobian(X)
        self.Yi, self.Yj = geo.jacobian(Y)
        pi = np.hypot(self.Xi, self.Yi)
        pj = np.hypot(self.Xj, self.Yj)
        self.px_i = float(np.median(pi))
        self.px_j = float(np.median(pj))
        self.out_res = max(1e-300, min(self.px_i, self.px_j))
        # non-linearity of the client-pixel -> ground mapping for every SRS of the chain (grids, source SRS): error (in
        # output px) of a linear interpolation across 100 px, L^2/8 * second difference. MapProxy never verifies mesh
        # quads below 50 px and splits only while both sides are >= 50, so quads of up to ~100 px go unchecked by design.
        chain = set([geo.canon(spec['canon'])] + [geo.canon(g['srs']) for g in spec['grids'].values()] +
                    [geo.canon(c) for c in (spec['supported_srs'] or [])])
        self.d100 = 0.0
        t = max(1, min(size) // 24)
        xs, ys = geo.pixel_centres(bbox, size)
        xs, ys = xs[::t], ys[::t]
        GX, GY = np.meshgrid(xs, ys)
        for code in chain:
            if geo.same_crs(code, srs):
                continue
            ax, ay = geo.transform(srs, code, GX.ravel(), GY.ravel())
            A1, A2 = np.asarray(ax).reshape(GX.shape), np.asarray(ay).reshape(GX.shape)
            if not (np.isfinite(A1).all() and np.isfinite(A2).all()) or A1.shape[0] < 3 or A1.shape[1] < 3:
                continue
            # local pixel size (per output px) in units of `code`
            px = min(float(np.median(np.hypot(np.diff(A1, axis=1), np.diff(A2, axis=1)))),
                     float(np.median(np.hypot(np.diff(A1, axis=0), np.diff(A2, axis=0))))) / t
            d2 = 0.0
            for A in (A1, A2):
                d2 = max(d2, float(np.abs(A[:, 2:] - 2 * A[:, 1:-1] + A[:, :-2]).max()),
                         float(np.abs(A[2:, :] - 2 * A[1:-1, :] + A[:-2, :]).max()))
            self.d100 = max(self.d100, (100.0 / t) ** 2 / 8.0 * d2 / max(px, 1e-300))
        # signed distance to the edge of the intersection of all extents, in output pixels (positive = inside)
        inside = np.full(X.shape, np.inf)
        for e in spec['extents']:
            if geo.same_crs(e['srs'], spec['canon']):
                ex, ey, exi, exj, eyi, eyj = X, Y, self.Xi, self.Xj, self.Yi, self.Yj
            else:
                ex, ey = geo.ground_grid(bbox, size, srs, e['srs'])
                fin = np.isfinite(ex) & np.isfinite(ey)
                self.finite &= fin
                ex = np.where(fin, ex, 0.0)
                ey = np.where(fin, ey, 0.0)
                exi, exj = geo.jacobian(ex)
                eyi, eyj = geo.jacobian(ey)
            b = e['bbox']
            sx = np.abs(exi) + np.abs(exj) + 1e-300
            sy = np.abs(eyi) + np.abs(eyj) + 1e-300
            dx = np.minimum(ex - b[0], b[2] - ex) / sx
            dy = np.minimum(ey - b[1], b[3] - ey) / sy
            inside = np.minimum(inside, np.minimum(dx, dy))
        self.inside = inside


def mid_res_bound(spec, geom):
    """upper bound, in canonical units, of the pixel size of an intermediate cache level (cache of cache)"""
    if 'g2' not in spec['grids']:
        return 0.0
    g2 = spec['grids']['g2']
    cx, cy = (g2['bbox'][0] + g2['bbox'][2]) / 2, (g2['bbox'][1] + g2['bbox'][3]) / 2
    sx, sy = geo.local_scale(g2['srs'], spec['canon'], cx, cy, (g2['bbox'][2] - g2['bbox'][0]) / 50)
    f = max(sx, sy)
    return max(1.2 * max(geom.px_i, geom.px_j), g2['res'][-1] * f)


def dilate(m, r):
    """binary dilation by a (2r+1) square, numpy only"""
    out = m.copy()
    for d in range(1, r + 1):
        out[:, d:] |= m[:, :-d]
        out[:, :-d] |= m[:, d:]
    m2 = out.copy()
    for d in range(1, r + 1):
        out[d:, :] |= m2[:-d, :]
        out[:-d, :] |= m2[d:, :]
    return out


def stages(spec):
    """number of resampling stages between the upstream picture and the response"""
    n = 1
    if 'g2' in spec['grids']:
        n += 1
    if spec['supported_srs'] and not any(geo.same_crs(s, spec['grids']['g']['srs']) for s in spec['supported_srs']):
        n += 1
    return n


def analyse(arr, geom, spec, req, k, src_res, stride=1, full=False, also=None):
    """judge the RGBA response `arr` under the hypothesis that its content was rendered with octave k"""
    sl = (slice(None, None, stride), slice(None, None, stride))
    s = ramp_scale(spec['s0'], k)
    chain = max(src_res, mid_res_bound(spec, geom))
    scale = max(1.0, chain / geom.out_res)
    tol = PIXEL_TOL_PX * scale
    kern = KERNEL[spec['resampling']]
    band = (PIXEL_TOL_PX + kern) * scale + 1.0
    if 'g2' in spec['grids']:
        # cache of cache: upper tiles that straddle the edge of the lower cache's extent are built from thin sub-requests
        # (a few upper pixels wide) whose level choice and placement are coarse (seen: a 20 px strip taken from the next
        # coarser lower level, 3 lower pixels off). Pixels within one upper tile of an extent edge are not judged.
        band += max(spec['grids']['g2']['tile_size']) * mid_res_bound(spec, geom) / geom.out_res
    X, Y = geom.X[sl], geom.Y[sl]
    Xi, Xj, Yi, Yj = geom.Xi[sl], geom.Xj[sl], geom.Yi[sl], geom.Yj[sl]
    inside = geom.inside[sl]
    fin = geom.finite[sl]
    obs = arr[sl].astype(np.float64)
    alpha = arr[sl][..., 3]
    # phases and their derivatives per output pixel
    us = geo.ramp_u(X, Y, s)
    co = geo.ramp_coeffs(s)
    dui = [a * Xi + b * Yi for a, b in co]
    duj = [a * Xj + b * Yj for a, b in co]
    slack = SLACK + (0.0 if spec['resampling'] == 'nearest' else 1.0 * stages(spec))
    match = np.ones(X.shape, dtype=bool)
    grads = []
    for c in range(3):
        ext = tol * (np.abs(dui[c]) + np.abs(duj[c]))
        lo, hi = geo.tri_range(us[c] - ext, us[c] + ext)
        match &= (obs[..., c] >= lo - slack) & (obs[..., c] <= hi + slack)
        grads.append(np.hypot(dui[c], duj[c]))
    if req.get('transparent'):
        is_bg = alpha == 0
        opaque = alpha == 255
    else:
        bg = req.get('bgcolor') or '#ffffff'
        bgc = np.array([int(bg[1:3], 16), int(bg[3:5], 16), int(bg[5:7], 16)], dtype=np.uint8)
        is_bg = (arr[sl][..., :3] == bgc).all(axis=2)
        opaque = alpha == 255
    if spec['cached'] and not (spec.get('cache_transparent') and (spec['shape'] != 'tile_src' or spec.get('tile_transparent'))):
        # an opaque cache paints what it has no tile / no data for in its own background colour (white; black where
        # Pillow's mesh transform of an RGB picture had no source pixel)
        is_bg = is_bg | (((arr[sl][..., :3] == 255).all(axis=2) | (arr[sl][..., :3] == 0).all(axis=2)) & opaque)
    in_mask = fin & (inside > band)
    out_mask = fin & (inside < -band)
    good_in = match & opaque
    good_out = is_bg | (match & opaque)
    # MapProxy may show correct content beyond the true extent (it clips with the envelope of the extent in the request
    # SRS); where that content ends, resampling blends it with the background: accept pixels on such a boundary
    rad = int(math.ceil(((kern + 1.0) * scale + 1.0) / stride))
    if out_mask.any() and not good_out[out_mask].all():
        good_out = good_out | (dilate(is_bg, rad) & dilate(match & opaque, rad))
    strong = (grads[0] >= 0.5) | (grads[1] >= 0.5)
    rescued = 0
    if also is not None:
        # pixels that another octave explains (cache of cache: different upper tiles / thin strips at the extent edge
        # are legitimately built from different lower levels, because the level is chosen per sub-request)
        before = int((in_mask & ~good_in).sum()) + int((out_mask & ~good_out).sum())
        good_in = good_in | also
        good_out = good_out | also
        rescued = before - int((in_mask & ~good_in).sum()) - int((out_mask & ~good_out).sum())
    res = {
        'k': k, 'scale': scale, 'tol': tol, 'band': band, 'slack': slack, 'grad': float(np.median(grads[0])),
        'n_in': int(in_mask.sum()), 'n_out': int(out_mask.sum()), 'n_band': int((fin & ~in_mask & ~out_mask).sum()),
        'bad_in': int((in_mask & ~good_in).sum()), 'bad_out': int((out_mask & ~good_out).sum()),
        'n_strong': int((in_mask & strong).sum()), 'n_weak': int((in_mask & ~strong).sum()),
        'bg_in': int((in_mask & is_bg & ~match).sum()), 'rescued': rescued,
    }
    if full == 'mask':
        return match & opaque
    if not full:
        return res
    # ---- position statistics: displacement along the canonical x axis (from R) and y axis (from G), in output px ----
    stats = {}
    for c, name in ((0, 'x'), (1, 'y')):
        g = grads[c]
        # stay away from the kinks of the triangle wave: the neighbourhood tol+2 px must not contain one
        clear = geo.fold_distance(us[c]) > (tol + 2.0) * (np.abs(dui[c]) + np.abs(duj[c])) + 2.0
        m = in_mask & match & opaque & clear & (g >= 0.5)
        n = int(m.sum())
        if n < 50:
            stats[name] = None
            continue
        d = (obs[..., c][m] - geo.tri(us[c][m])) * geo.tri_slope(us[c][m]) / g[m]
        stats[name] = {'n': n, 'mean': float(d.mean()), 'p99': float(np.percentile(np.abs(d), 99)),
                       'max': float(np.abs(d).max())}
    res['pos'] = stats
    bad = np.argwhere(in_mask & ~good_in)
    if len(bad):
        j, i = bad[len(bad) // 2]
        res['bad_example'] = {'pixel': [int(i) * stride, int(j) * stride], 'observed': [int(v) for v in arr[sl][j, i]],
                              'expected_centre': [int(round(float(geo.tri(us[c][j, i])))) for c in range(3)],
                              'inside_px': float(inside[j, i])}
        res['bad_bbox'] = [int(bad[:, 1].min()) * stride, int(bad[:, 0].min()) * stride,
                           int(bad[:, 1].max()) * stride, int(bad[:, 0].max()) * stride]
    bado = np.argwhere(out_mask & ~good_out)
    if len(bado):
        j, i = bado[len(bado) // 2]
        res['bad_out_example'] = {'pixel': [int(i) * stride, int(j) * stride],
                                  'observed': [int(v) for v in arr[sl][j, i]], 'inside_px': float(inside[j, i])}
    return res


def mech_base(spec, req):
    return {'shape': spec['shape'], 'cached': spec['cached'], 'reprojected': not geo.same_crs(req['srs'], spec['canon']),
            'family': req['kind']}


def judge_map(run, spec, req, resp, ramp, case, n_up_before):
    """returns a dict describing the judgement; records violations"""
    cls = (spec['shape'], req['srs'], req['scale_class'], req['pos_class'], req['version'])
    mech = mech_base(spec, req)

    def viol(clause, detail, **kw):
        m = dict(mech, clause=clause)
        m.update(kw)
        run.violation(m, case, 'GetMap %s\n%s' % (map_url(req), detail))

    if resp.code != 200 or resp.content_type != 'image/png':
        run.judge(cls, nontrivial=False)
        if not (Geometry(spec, req).inside > 0).any():
            # no pixel of the request lies inside the layer: there is no content to place. (Seen: HTTP 500 "Invalid
            # BBOX" instead of a blank image when the request misses the extent in its own SRS but touches it in the
            # extent's SRS - a robustness matter outside this property.)
            run.dc('error_answer_for_request_without_pixel_inside_extent')
            return None
        if b'max_tile_limit' in resp.body:
            run.dc('request_needs_more_tiles_than_max_tile_limit')
            return None
        viol('no_image', 'answered %d %s %r' % (resp.code, resp.content_type, resp.body[-300:]))
        return None
    img = resp.image()
    if tuple(img.size) != tuple(req['size']):
        run.judge(cls, nontrivial=False)
        viol('image_size', 'image size %r != requested %r' % (img.size, req['size']))
        return None
    arr = np.asarray(img.convert('RGBA'))
    geom = Geometry(spec, req)
    ks = ramp.ks()
    h, w = arr.shape[:2]
    if geom.d100 > D100_MAX:
        run.judge(cls, nontrivial=False)
        run.dc('request_distortion_beyond_unverified_mesh_quads')
        run.count('distortion_dc:%s:%s' % (req['scale_class'].replace('_aniso', ''), req['srs']))
        return None
    has_inside = bool((geom.inside > 0).any())
    if not ks:
        # nothing was ever fetched: the picture must be background wherever it is clearly outside
        ks = {0: spec['s0']}
    mech['clipped'] = bool(has_inside and (geom.inside < 0).any())
    if not mech['clipped'] and spec.get('coverage') and spec.get('cached'):
        # the client request lies inside the coverage, but the tiles it is built from may come from upstream requests that
        # MapProxy cut at the coverage (same sub-image placement, one stage earlier): an upstream request with an edge on the
        # coverage's edge was seen in this scenario
        cov = spec['coverage']
        for m_ in ramp.maps:
            try:
                xs, ys = geo.transform(cov['srs'], m_['srs'], np.array([cov['bbox'][0], cov['bbox'][2], cov['bbox'][0], cov['bbox'][2]]),
                                       np.array([cov['bbox'][1], cov['bbox'][1], cov['bbox'][3], cov['bbox'][3]]))
            except Exception:
                continue
            ex, ey = (max(xs) - min(xs)) * 0.005, (max(ys) - min(ys)) * 0.005
            b_ = m_['bbox']
            if (abs(b_[0] - min(xs)) < ex or abs(b_[2] - max(xs)) < ex or abs(b_[1] - min(ys)) < ey or abs(b_[3] - max(ys)) < ey):
                mech['clipped'] = True
                mech['clipped_at'] = 'upstream_request'
                run.count('requests_built_from_coverage_cut_upstream_requests')
                break
    stride = max(1, int(math.sqrt(w * h / 3000.0)))
    # octaves fetched for this very request first (ties go to them), then whatever the cache may hold from earlier ones
    mine = [m['k'] for m in ramp.maps if m['n'] > n_up_before]
    order = sorted(ks, key=lambda k: (k not in mine, k))
    best = None
    for attempt in (stride, 1):
        for k in order:
            r = analyse(arr, geom, spec, req, k, ks[k], stride=attempt)
            score = r['bad_in'] + r['bad_out']
            if best is None or score < best[0]:
                best = (score, k, ks[k], r['n_in'])
        if attempt == 1 or best[3] >= 100 or len(order) == 1:
            break
        best = None
    r = analyse(arr, geom, spec, req, best[1], best[2], stride=1, full=True)
    if r['bad_in'] + r['bad_out'] > 0 and 'g2' in spec['grids'] and len(order) > 1:
        also = None
        for k in order:
            if k != best[1]:
                m = analyse(arr, geom, spec, req, k, ks[k], stride=1, full='mask')
                also = m if also is None else (also | m)
        r = analyse(arr, geom, spec, req, best[1], best[2], stride=1, full=True, also=also)
        run.dc('pixel_explained_by_another_octave_in_cache_of_cache', r['rescued'])
    n_j = r['n_in'] + r['n_out']
    run.hit('getmap_requests')
    run.hit('strong_pixels_judged', r['n_strong'])
    run.count('strong_pixels:' + spec['shape'], r['n_strong'])
    run.count('requests:' + spec['shape'])
    run.hit('weak_pixels', r['n_weak'])
    run.hit('outside_pixels_judged', r['n_out'])
    run.dc('pixel_in_extent_edge_band', r['n_band'])
    if mech['reprojected']:
        run.hit('reprojected_requests')
    if req['version'] == '1.3.0':
        run.hit('v130_requests')
    run.judge(cls, nontrivial=r['n_strong'] > 0)
    if r['scale'] > 1.0:
        run.count('images_upsampled_from_source')
    nbad = r['bad_in'] + r['bad_out']
    frac = nbad / float(max(1, n_j))
    if DEBUG:
        print('  map %s %s->%s %s %s/%s size=%r k=%d scale=%.2f in=%d out=%d bad=%d/%d pos=%s' % (
            spec['shape'], req['srs'], spec['canon'], spec['resampling'], req['scale_class'], req['pos_class'], req['size'],
            r['k'], r['scale'], r['n_in'], r['n_out'], r['bad_in'], r['bad_out'],
            {a: (round(v['mean'], 2), round(v['p99'], 2), round(v['max'], 2)) if v else None for a, v in r['pos'].items()}))
    run.count('images_with_outliers', 1 if nbad else 0)
    over = (r['bad_in'] > OUTLIER_FRAC * r['n_in'] + OUTLIER_ABS) or (r['bad_out'] > OUTLIER_FRAC * r['n_out'] + OUTLIER_ABS)
    bb = r.get('bad_bbox')
    if over and bb and r['scale'] >= 2.0 and r['bad_out'] == 0 and (
            (bb[1] == bb[3] and bb[1] in (0, req['size'][1] - 1)) or (bb[0] == bb[2] and bb[0] in (0, req['size'][0] - 1))):
        # one border row/column of the answer when the map is magnified (>= 2x) beyond the finest level: it shows a
        # fraction of ONE source pixel at the edge of the fetched tiles; counted, not judged (integrator's decision,
        # see DESIGN.md 5.3)
        run.dc('single_border_row_of_a_magnified_map', nbad)
        over = False
    if over and spec['shape'] == 'cache_of_cache' and r['bad_out'] == 0 and r['bg_in'] == 0 and r['bad_in'] <= 0.05 * r['n_in']:
        # seams between upper tiles that were assembled from different lower levels (each upper tile picks its own
        # level): a band of a few rows/columns matches neither octave after resampling. Weakly judged by design.
        run.dc('cache_of_cache_seam_between_tiles_from_different_lower_levels', nbad)
        over = False
    def size_of(pos):
        # size class of the displacement in output pixels of the unmagnified picture: the open finding about truncated
        # sub-image offsets moves content by at most 2 px + mesh error; anything larger is something else
        worst = max([abs(v['mean']) / r['scale'] for v in pos.values() if v] or [None], key=lambda x: -1 if x is None else x)
        if worst is None:
            return 'unmeasured'
        return 'up_to_3px' if worst <= 3.0 else 'beyond_3px'

    if over:
        mech['displacement'] = size_of(r['pos'])
        run.count('outside_interval_displacement:%s:%s' % (mech['clipped'], mech['displacement']))
        viol('pixel_outside_interval',
             '%d of %d judged pixels (%.2f%%) are outside the colour range of their %.2f px neighbourhood (best octave '
             'k=%d of %r, scale %.2f); inside-extent bad %d (of which background %d), outside-extent bad %d; example %r; '
             'bbox of bad pixels %r; outside example %r' % (
                 nbad, n_j, frac * 100, r['tol'], r['k'], sorted(ks), r['scale'], r['bad_in'], r['bg_in'], r['bad_out'],
                 r.get('bad_example'), r.get('bad_bbox'), r.get('bad_out_example')),
             kind='background_inside' if r['bg_in'] > r['bad_in'] / 2 else (
                 'content_outside' if r['bad_out'] > r['bad_in'] else 'displaced'))
        return r
    elif nbad:
        run.dc('outlier_pixels_below_0.5_percent', nbad)
    lim = TOL_PX * r['scale'] + MEAN_SLACK + (r['slack'] - SLACK + 0.5) / max(0.5, r['grad'])
    for ax in ('x', 'y'):
        st = r['pos'][ax]
        if st is None:
            continue
        run.hit('mean_shift_judged')
        run.count('shift_%s_bin_%.1f' % ('mean', min(3.0, math.floor(abs(st['mean']) / r['scale'] * 5) / 5.0)))
        run.count('shift_p99_bin_%.1f' % min(4.0, math.floor(st['p99'] / r['scale'] * 2) / 2.0))
        if abs(st['mean']) > lim:
            mech['displacement'] = size_of(r['pos'])
            run.count('mean_shift_displacement:%s:%s' % (mech['clipped'], mech['displacement']))
            viol('mean_shift', 'mean displacement along canonical %s is %.2f output px (limit %.2f, scale %.2f, %d strong '
                 'pixels, p99 %.2f px), octave k=%d' % (ax, st['mean'], lim, r['scale'], st['n'], st['p99'], r['k']),
                 axis=ax)
            return r
    return r


def judge_fi(run, spec, req, click, resp, infos, case, url):
    cls = (spec['shape'], req['srs'], 'fi_' + req['scale_class'], req['pos_class'], req['version'])
    mech = mech_base(spec, req)
    bbox, size, srs = tuple(req['bbox']), tuple(req['size']), req['srs']

    def viol(clause, detail, **kw):
        m = dict(mech, clause=clause)
        m.update(kw)
        run.violation(m, case, 'GetFeatureInfo %s\n%s' % (url, detail))

    # is the click clearly inside / outside the content extent?
    g = geo.pixel_to_ground(bbox, size, click)
    inside_all = True
    near_edge = False
    rx, ry = (bbox[2] - bbox[0]) / size[0], (bbox[3] - bbox[1]) / size[1]
    for e in spec['extents']:
        p = geo.transform(srs, e['srs'], g[0], g[1])
        sx, sy = geo.local_scale(srs, e['srs'], g[0], g[1], min(rx, ry))
        d = min((p[0] - e['bbox'][0]) / (sx * rx), (e['bbox'][2] - p[0]) / (sx * rx),
                (p[1] - e['bbox'][1]) / (sy * ry), (e['bbox'][3] - p[1]) / (sy * ry))
        if d < 2.0:
            inside_all = False
        if abs(d) <= 2.0:
            near_edge = True
    if resp.code != 200:
        run.judge(cls, nontrivial=False)
        if req['kind'] == 'wfi' and resp.code == 400 and b'outside the bounding box' in resp.body:
            # MapProxy sizes a level in whole pixels of the grid bbox: a last column/row that would cover less than one
            # pixel of it is not part of the tile matrix (GetTile refuses it too); our ceil() rule addressed it
            lg = spec['grids'][spec['layer_grid']]
            r0 = lg['res'][req['tile'][2]]
            cov_w = (min(bbox[2], lg['bbox'][2]) - max(bbox[0], lg['bbox'][0])) / r0
            cov_h = (min(bbox[3], lg['bbox'][3]) - max(bbox[1], lg['bbox'][1])) / r0
            if cov_w < 1.0 or cov_h < 1.0:
                run.dc('wmts_fi_for_tile_covering_less_than_one_pixel_of_the_grid')
                return
        viol('fi_status', 'answered %d %r' % (resp.code, resp.body[:900]))
        return
    if len(infos) == 0:
        run.judge(cls, nontrivial=False)
        if inside_all:
            viol('fi_not_forwarded', 'click %r is more than 2 px inside every extent but nothing was asked upstream; '
                 'response %r' % (click, resp.body[:100]))
        elif near_edge:
            run.dc('fi_click_in_extent_edge_band')
        else:
            run.count('fi_outside_extent_not_forwarded')
        return
    if len(infos) > 1:
        run.judge(cls, nontrivial=False)
        viol('fi_forwarded_twice', '%d upstream queries for one click' % len(infos))
        return
    u = infos[0]
    run.hit('featureinfo_requests')
    if req['kind'] == 'wfi':
        run.hit('wmts_featureinfo_requests')
    want_names = ['i', 'j'] if spec['up_version'] == '1.3.0' else ['x', 'y']
    if u['names'] != want_names or u['version'] != spec['up_version']:
        run.judge(cls, nontrivial=True)
        viol('fi_param_names', 'upstream version %s query carries %r' % (u['version'], u['names']))
        return
    regridded = not (geo.same_crs(u['srs'], srs) and tuple(u['size']) == size and
                     max(abs(a - b) for a, b in zip(u['bbox'], bbox)) <= 1e-6 * max(abs(rx), abs(ry)))
    ug = geo.pixel_to_ground(u['bbox'], u['size'], u['pos'])
    ugc = geo.transform(u['srs'], srs, ug[0], ug[1])
    upx = geo.ground_to_pixel(bbox, size, ugc)
    err = max(abs(upx[0] - (click[0] + 0.5)), abs(upx[1] - (click[1] + 0.5)))
    bound = 1.0
    if regridded:
        run.hit('featureinfo_regridded')
        # half an upstream pixel, expressed in client pixels
        urx, ury = (u['bbox'][2] - u['bbox'][0]) / u['size'][0], (u['bbox'][3] - u['bbox'][1]) / u['size'][1]
        c0 = geo.ground_to_pixel(bbox, size, geo.transform(u['srs'], srs, ug[0] - urx / 2, ug[1] - ury / 2))
        c1 = geo.ground_to_pixel(bbox, size, geo.transform(u['srs'], srs, ug[0] + urx / 2, ug[1] + ury / 2))
        c2 = geo.ground_to_pixel(bbox, size, geo.transform(u['srs'], srs, ug[0] - urx / 2, ug[1] + ury / 2))
        c3 = geo.ground_to_pixel(bbox, size, geo.transform(u['srs'], srs, ug[0] + urx / 2, ug[1] - ury / 2))
        half = max(max(abs(c[0] - upx[0]), abs(c[1] - upx[1])) for c in (c0, c1, c2, c3))
        bound = 1.0 + half
    run.judge(cls, nontrivial=True)
    run.count('fi_err_bin_%.2f' % min(3.0, math.floor(err * 4) / 4.0))
    if not (0 <= u['pos'][0] < u['size'][0] and 0 <= u['pos'][1] < u['size'][1]):
        run.count('fi_upstream_pos_outside_image')
    if err > bound + 1e-6:
        viol('fi_position', 'clicked pixel %r (centre) ; upstream %s query pos %r in bbox %r size %r srs %s = client '
             'pixel (%.3f, %.3f): error %.3f px > bound %.3f (regridded=%s)' % (
                 click, u['version'], u['pos'], u['bbox'], u['size'], u['srs'], upx[0], upx[1], err, bound, regridded),
             regridded=regridded)


# ======================================================================================================================
# exact-tile family (NOISE)
# ======================================================================================================================

def gen_exact_spec(rng):
    gsrs = rng.choice(['EPSG:3857', 'EPSG:4326', 'EPSG:25832'])
    g = gen_grid(rng, gsrs, small=True)
    spec = {'shape': 'exact_' + rng.choice(['wms', 'wms', 'tile']), 'grids': {'g': g}, 'canon': gsrs,
            'resampling': rng.choice(['nearest', 'bilinear', 'bicubic']), 'up_version': rng.choice(['1.1.1', '1.3.0']),
            'meta_size': rng.choice([[1, 1], [2, 2], [3, 2], [4, 4]]), 'meta_buffer': rng.choice([0, 0, 10, 40]),
            'backend': rng.choice(['file:tc', 'file:tms', 'sqlite', 'mbtiles', 'geopackage']),
            'supported_srs': [gsrs], 'coverage': None, 'cached': True, 'layer_grid': 'g', 'extents': [],
            's0': g['res'][0] * S0_FACTOR, 'fi': False}
    if spec['shape'] == 'exact_tile':
        spec['meta_buffer'] = 0
        spec['tile_template'] = 'zxy'
    return spec


def exact_conf(spec):
    s2 = dict(spec)
    s2['shape'] = 'tile_src' if spec['shape'] == 'exact_tile' else 'cached_wms'
    return build_conf(s2, host='noise', tiles_host='ntiles')


def run_exact(run, case, spec, reqs, d):
    up = upstream.install()
    g = spec['grids']['g']
    lat = upstream.Lattice(g['bbox'], g['res'], g['origin'], g['tile_size'])
    state = {'epoch': 0}
    up.register('noise', upstream.NoiseWMS(lat, [g['srs'], 'EPSG:900913'], state))
    up.register('ntiles', upstream.NoiseTiles(lat, [grid_size(g, z) for z in range(len(g['res']))], state))
    sc = scenario.Scenario(d, exact_conf(spec))
    run.hit('scenarios')
    tw, th = g['tile_size']
    offgrid_calls = []
    for req in reqs:
        x, y, z = req['tile']
        rect = tile_rect(g, x, y, z)
        q = {'kind': 'exact', 'version': req['version'], 'srs': req['srs'], 'bbox': list(rect), 'size': [tw, th],
             'transparent': True}
        up.reset_log()
        resp = sc.get(map_url(q))
        for c in up.log:
            if c.extra.get('offgrid', 0.0) > 1e-9 and 'q' in c.extra:
                # MapProxy clipped a (meta) request at the grid border to a rectangle that is not a whole number of
                # pixels: the upstream picture for it is rendered by position and is not the lattice picture
                offgrid_calls.append((c.extra['q']['bbox'], c.extra.get('level')))
        nx, ny = grid_size(g, z)
        pc = ('edge' if x in (0, nx - 1) else 'mid', 'edge' if y in (0, ny - 1) else 'mid')
        cls = (spec['shape'], req['srs'], 'exact', pc, req['version'])
        mech = {'shape': spec['shape'], 'family': 'exact', 'cached': True, 'reprojected': False}
        if resp.code != 200 or resp.content_type != 'image/png':
            run.judge(cls, nontrivial=False)
            r_ = g['res'][z]
            if (min(rect[2], g['bbox'][2]) - max(rect[0], g['bbox'][0]) < 2 * r_ or
                    min(rect[3], g['bbox'][3]) - max(rect[1], g['bbox'][1]) < 2 * r_):
                # the tile reaches less than two pixels into the grid extent: nothing would be judged. (Seen: HTTP 500
                # "Invalid BBOX" when the overlap is below a tenth of a pixel - robustness, not placement.)
                run.dc('exact_tile_without_interior_pixel')
                continue
            run.violation(dict(mech, clause='no_image'), case, 'exact-tile GetMap %s answered %d %r' % (
                map_url(q), resp.code, resp.body[-300:]))
            continue
        arr = np.asarray(resp.image().convert('RGBA'))
        if arr.shape[:2] != (th, tw):
            run.judge(cls, nontrivial=False)
            run.violation(dict(mech, clause='image_size'), case, 'exact-tile GetMap %s size %r' % (map_url(q), arr.shape))
            continue
        exp, lv, off = upstream.noise_image(lat, rect, (tw, th), 0, level=z)
        r = g['res'][z]
        xc, yc = geo.pixel_centres(rect, (tw, th))
        mx = (xc > g['bbox'][0] + r) & (xc < g['bbox'][2] - r)
        my = (yc > g['bbox'][1] + r) & (yc < g['bbox'][3] - r)
        mask = my[:, None] & mx[None, :]
        n = int(mask.sum())
        run.hit('exact_tile_requests')
        run.hit('exact_pixels_judged', n)
        if req['version'] == '1.3.0':
            run.hit('v130_requests')
        run.judge(cls, nontrivial=n > 0)
        if n == 0:
            run.dc('exact_tile_without_interior_pixel')
            continue
        whole = bool(mx.all() and my.all())
        eq = (arr[..., :3] == exp).all(axis=2) & (arr[..., 3] == 255)
        if eq[mask].all():
            run.count('exact_tiles_identical')
            continue
        bad = np.argwhere(mask & ~eq)
        # is it the right content, merely resampled (within one pixel)?
        gx, gy = lat.cells(z, rect, (tw, th))
        near = eq.copy()
        for dx in (-1, 0, 1):
            for dy in (-1, 0, 1):
                near |= (arr[..., :3] == upstream.noise_rgb(z, gx + dx, gy + dy, 0)).all(axis=2)
        j, i = bad[0]
        from_offgrid = any(lv == z and b[0] < rect[2] and b[2] > rect[0] and b[1] < rect[3] and b[3] > rect[1]
                           for b, lv in offgrid_calls)
        if from_offgrid and near[mask].all():
            run.dc('exact_tile_built_from_offgrid_upstream_request_within_one_px')
            continue
        run.violation(dict(mech, clause='exact_tile_differs', whole_tile_inside=whole), case,
                      'exact-tile GetMap %s (tile %r of grid %r): %d of %d judged pixels differ from the stored tile; first '
                      '(col,row)=(%d,%d) got %r expected %r; upstream calls %d; every judged pixel equals a lattice pixel at '
                      'most one away: %s; tile built from an off-grid (clipped) upstream request: %s; grid extent is a whole '
                      'number of level-0 tiles: %s' % (
                          map_url(q), (x, y, z), grid_conf(g), len(bad), n, i, j, tuple(int(v) for v in arr[j, i]),
                          tuple(int(v) for v in exp[j, i]), len(up.log), bool(near[mask].all()), from_offgrid,
                          g['aligned']))
    if case['i'] < 40:
        run.sample({'family': 'exact', 'grid': grid_conf(g), 'shape': spec['shape'], 'requests': reqs[:3]})


def gen_exact_requests(rng, spec, n):
    g = spec['grids']['g']
    out = []
    for _ in range(n):
        z = rng.randrange(len(g['res']))
        nx, ny = grid_size(g, z)
        x = rng.choice([0, nx - 1, rng.randrange(nx)])
        y = rng.choice([0, ny - 1, rng.randrange(ny)])
        srs = g['srs']
        if srs == 'EPSG:3857' and rng.random() < 0.3:
            srs = 'EPSG:900913'
        if srs == 'EPSG:4326' and rng.random() < 0.3:
            srs = 'CRS:84'
        out.append({'tile': [x, y, z], 'version': rng.choice(['1.1.1', '1.3.0']), 'srs': srs})
    return out


# ======================================================================================================================
# driver
# ======================================================================================================================

def gen_cases(run):
    # directed cases: the two open known findings (sub-image placement) are reproduced in every run
    import json as _json
    with open(os.path.join(os.path.dirname(os.path.abspath(__file__)), 'c01_directed.json')) as f:
        for c in _json.load(f):
            yield c
    n = run.pick(700, 12000)
    for i in range(n):
        if i % 12 == 3:
            yield {'i': i, 'family': 'rescale', 'must': i < 120}
        yield {'i': i, 'family': 'exact' if i % 6 == 5 else 'ramp'}


def run_rescale(run, case, d):
    """caches with upscale_tiles / downscale_tiles build a missing tile from the tiles of the neighbouring level when no
    source can deliver it. The neighbouring level is filled partly, every stored tile is one solid colour that encodes its
    own address; the rebuilt tile must show, in every part, the colour of the stored tile that covers that ground, and
    nothing where no tile is stored."""
    from PIL import Image
    from mapproxy.cache.tile import Tile
    from mapproxy.image import ImageSource
    from mapproxy.image.opts import ImageOptions
    rng = run.rng('rescale', case['i'])
    direction = rng.choice(['down', 'down', 'up'])
    origin = rng.choice(['ll', 'ul'])
    ts = rng.choice([32, 64])
    conf = scenario.base_conf()
    conf['grids']['g'] = {'srs': 'EPSG:3857', 'bbox': [-20037508.342789244, -20037508.342789244, 20037508.342789244, 20037508.342789244],
                          'tile_size': [ts, ts], 'num_levels': 6, 'origin': origin}
    cache = {'grids': ['g'], 'sources': [], 'format': 'image/png',
             'cache': rng.choice([{'type': 'file', 'directory_layout': 'tc'}, {'type': 'sqlite'}])}
    cache['downscale_tiles' if direction == 'down' else 'upscale_tiles'] = 1
    if rng.random() < 0.4:
        cache['cache_rescaled_tiles'] = True
    conf['caches']['c'] = cache
    conf['layers'] = [{'name': 'l', 'title': 'l', 'sources': ['c']}]
    conf['services'] = {'tms': {}}
    sc = scenario.Scenario(d, conf)
    tm = sc.tile_manager('c')
    grid = sc.grid('g')
    z = rng.randint(1, 3)
    zs = z + 1 if direction == 'down' else z - 1
    nxs, nys = grid.grid_sizes[zs]

    def colour(c):
        return (40 + (c[0] % 8) * 25, 40 + (c[1] % 8) * 25, 60 + (c[2] % 4) * 40)
    opts = ImageOptions(format='image/png', transparent=True)
    stored = set()
    share = rng.choice([0.3, 0.5, 0.75, 0.75, 1.0])
    for x in range(nxs):
        for y in range(nys):
            if rng.random() < share:
                tm.cache.store_tile(Tile((x, y, zs), ImageSource(Image.new('RGBA', (ts, ts), colour((x, y, zs)) + (255,)), image_opts=opts)))
                stored.add((x, y, zs))
    if not stored:
        run.dc('rescale_nothing_stored')
        return
    mech0 = {'family': 'rescale', 'direction': direction, 'cached': True, 'reprojected': False, 'shape': 'rescale', 'origin': origin}
    nx, ny = grid.grid_sizes[z]
    targets = [(x, y, z) for x in range(nx) for y in range(ny)]
    rng.shuffle(targets)
    for t in targets[:6]:
        with tm.session():
            tile = tm.load_tile_coord(t)
        run.hit('rescaled_tiles_judged')
        run.judge(('rescale', direction, origin, share), nontrivial=True)
        tb = grid.tile_bbox(t)
        # the pieces of ground of the source level inside this tile, with the pixel where each is centred
        expect = []
        for sx in range(nxs):
            for sy in range(nys):
                sb = grid.tile_bbox((sx, sy, zs))
                ix0, iy0, ix1, iy1 = max(sb[0], tb[0]), max(sb[1], tb[1]), min(sb[2], tb[2]), min(sb[3], tb[3])
                if ix1 - ix0 <= 1e-6 or iy1 - iy0 <= 1e-6:
                    continue
                cx, cy = (ix0 + ix1) / 2, (iy0 + iy1) / 2
                px = int((cx - tb[0]) / (tb[2] - tb[0]) * ts)
                py = int((tb[3] - cy) / (tb[3] - tb[1]) * ts)
                expect.append(((sx, sy, zs), (min(ts - 1, px), min(ts - 1, py))))
        img = tile.source.as_image().convert('RGBA') if tile.source is not None else None
        problems = []
        for sc_, (px, py) in expect:
            got = img.getpixel((px, py)) if img is not None else (0, 0, 0, 0)
            if sc_ in stored:
                want = colour(sc_)
                if got[3] < 200 or max(abs(got[k] - want[k]) for k in range(3)) > 12:
                    problems.append('pixel %r (ground of stored tile %r) shows %r, expected %r' % ((px, py), sc_, got, want + (255,)))
            elif got[3] > 40:
                problems.append('pixel %r (ground of tile %r which is NOT stored) shows %r, expected nothing' % ((px, py), sc_, got))
        if problems:
            run.violation(dict(mech0, clause='rescaled_content_misplaced'), dict(case),
                          'tile %r of a cache with %sscale_tiles: 1, built from level %d (%d of %d tiles stored, origin %s, tile size %d): %s' % (
                              t, direction, zs, len(stored), nxs * nys, origin, ts, '; '.join(problems[:3])))
            return
    run.hit('rescale_histories')


def run_case(run, case):
    rng = run.rng('case', case['i'])
    d = run.subdir('c01')
    try:
        if case['family'] == 'rescale':
            run_rescale(run, case, d)
            return
        if case['family'] == 'exact':
            spec = case.get('spec') or gen_exact_spec(rng)
            reqs = case.get('requests') or gen_exact_requests(rng, spec, 10)
            full = dict(case, spec=spec, requests=reqs)
            try:
                run_exact(run, full, spec, reqs, d)
            except Exception as ex:
                run.violation({'family': 'exact', 'clause': 'exception', 'exc': type(ex).__name__}, full,
                              'exact-tile scenario raised %r\n%s' % (ex, traceback.format_exc()[-1500:]))
        else:
            spec = case.get('spec') or gen_spec(rng)
            reqs = case.get('requests') or gen_requests(rng, spec, rng.randint(8, 12), rng.randint(1, 2))
            run_ramp(run, dict(case, spec=spec, requests=reqs), spec, reqs, d)
    finally:
        shutil.rmtree(d, ignore_errors=True)


def run_ramp(run, case, spec, reqs, d):
    up = upstream.install()
    ramp = Ramp(spec['canon'], spec['s0'], tile_grid=spec['grids']['g'] if spec['shape'] == 'tile_src' else None)
    up.register('ramp', ramp)
    up.register('rtiles', ramp)
    sc = scenario.Scenario(d, build_conf(spec))
    run.hit('scenarios')
    up.reset_log()
    summary = []
    for old in case.get('history') or []:
        # replay of a single request: bring the cache into the state it had (earlier GetMaps of the scenario)
        try:
            sc.get(map_url(old))
        except Exception:
            pass
    for req in reqs:
        if run.out_of_time() and not run.replaying:
            run.count('requests_skipped_for_budget')
            break
        one = dict(case, requests=[req], history=list(case.get('history') or []) +
                   [r for r in reqs[:reqs.index(req)] if r['kind'] == 'map'])
        if req['kind'] == 'map':
            n0 = up.n
            try:
                resp = sc.get(map_url(req))
            except Exception as ex:
                run.judge((spec['shape'], req['srs'], req['scale_class'], req['pos_class'], req['version']), False)
                run.violation(dict(mech_base(spec, req), clause='exception', exc=type(ex).__name__), one,
                              'GetMap %s raised %r\n%s' % (map_url(req), ex, traceback.format_exc()[-1500:]))
                continue
            r = judge_map(run, spec, req, resp, ramp, one, n0)
            if r is not None and len(summary) < 4:
                summary.append({'url': map_url(req)[:300], 'k': r['k'], 'strong': r['n_strong'], 'weak': r['n_weak'],
                                'outside': r['n_out'], 'bad': r['bad_in'] + r['bad_out'], 'scale': round(r['scale'], 2),
                                'pos': r.get('pos'), 'upstream_calls': up.n - n0})
        else:
            for click in req['clicks']:
                n0 = len(ramp.infos)
                url = wmts_fi_url(spec, req, click) if req['kind'] == 'wfi' else fi_url(req, click)
                try:
                    resp = sc.get(url)
                except Exception as ex:
                    run.violation(dict(mech_base(spec, req), clause='exception', exc=type(ex).__name__), one,
                                  'GetFeatureInfo %s raised %r\n%s' % (url, ex, traceback.format_exc()[-1500:]))
                    continue
                judge_fi(run, spec, req, click, resp, ramp.infos[n0:], one, url)
    if ramp.errors:
        run.count('upstream_handler_errors', len(ramp.errors))
        run.count('upstream_handler_error:' + ramp.errors[0][-80:])
    run.count('upstream_calls', len(up.log))
    if case['i'] < 60:
        run.sample({'family': 'ramp', 'spec': {k: spec[k] for k in ('shape', 'resampling', 'up_version', 'meta_size',
                                                                    'meta_buffer', 'backend', 'supported_srs', 'coverage',
                                                                    'cached')},
                    'grids': {n: grid_conf(g) for n, g in spec['grids'].items()}, 'octaves_rendered': sorted(ramp.ks()),
                    'requests': summary})
    try:
        for name in sc.conf.caches:
            for _, _, tm in sc.tile_managers(name):
                tm.cleanup()
    except Exception:
        pass


def evidence_extra(total):
    ex = total.extra
    return {'pixels_judged': total.monitors.get('strong_pixels_judged', 0) + total.monitors.get('weak_pixels', 0) +
            total.monitors.get('outside_pixels_judged', 0),
            'mean_shift_histogram_px': {k.split('_')[-1]: v for k, v in sorted(ex.items()) if k.startswith('shift_mean_bin_')},
            'p99_shift_histogram_px': {k.split('_')[-1]: v for k, v in sorted(ex.items()) if k.startswith('shift_p99_bin_')},
            'featureinfo_error_histogram_px': {k.split('_')[-1]: v for k, v in sorted(ex.items()) if k.startswith('fi_err_bin_')}}


if __name__ == '__main__':
    core.main(sys.modules[__name__])
