"""C18 - every request gets a well-formed answer and cannot inject markup.

Grammar fuzzing at the raw WSGI boundary.  Two scenarios are loaded through the real loader: A = all services (wms 1.0.0-
1.3.0 with featureinfo + legendgraphic + four image formats, wmts kvp + restful with featureinfo, tms, kml, demo, /ows,
/service, /wms) over cached / cascaded / group / dimension / coverage-limited layers and layers whose upstream always
fails (HTTP 500, markup bodies, mislabelled bodies, truncated images); B = a cached layer with dimensions behind a
restful WMTS template with dimensions.  Upstreams are the synthetic ones of vlib.upstream; the demo service's urlopen is
looped back into the app or refused; socket connects are refused.

A valid base request for every service and operation is mutated (parameters dropped / duplicated / re-cased /
type-confused / filled with marked markup payloads / CR-LF payloads, path, query-string, header, method and environ
mutations, combinations) and sent as a hand-built WSGI environ.  Every response is judged by an oracle that uses no
mapproxy code: WSGI protocol (no exception, start_response once, status line, (str, str) latin-1 headers without
CR/LF/NUL, bytes chunks, Content-Length), images (PIL decode, declared type = actual format, requested size / tile
size), XML (lxml without recovery; hand-written shapes of the four error document kinds; skeleton equality against the
same request with the payload neutralised; marker placement; character references not interpreted), HTML (stdlib
tokenizer: marker never in a tag / attribute name / comment / script-valued attribute / unescaped inside <script>;
tag skeleton equal to the neutralised twin), leak patterns (traceback, File "/, scratch dir, repo dir, /venv).
"""
import io
import os
import re
import signal
import sys
import traceback
import types
import urllib.parse
import zlib

from vlib import core, upstream, scenario

PID = 'C18'
LEVEL = 'exploration'
BUDGET_S = {'quick': 40, 'thorough': 600}
FLOORS = {'quick': {'overlap_rounds': 100, 'overlapped_requests': 300, 'requests': 7500, 'base_requests': 700, 'base_requests_answered_ok': 600, 'requests_wms': 3900,
                    'requests_wmts': 800, 'requests_wmts_rest': 650, 'requests_tms': 650, 'requests_kml': 320,
                    'requests_demo': 1050, 'requests_ows': 160, 'requests_app': 160, 'headers_checked': 45000,
                    'images_decoded': 1500, 'image_sizes_judged': 1300, 'xml_parsed': 2400, 'error_docs_shape_checked': 1800,
                    'skeletons_compared': 1000, 'html_checked': 530, 'markers_sent': 3500, 'markers_reflected_escaped': 680},
          'thorough': {'requests': 120000, 'base_requests': 11000, 'base_requests_answered_ok': 9500, 'requests_wms': 60000,
                       'requests_wmts': 12000, 'requests_wmts_rest': 9500, 'requests_tms': 9500, 'requests_kml': 4700,
                       'requests_demo': 16500, 'requests_ows': 2400, 'requests_app': 2400, 'headers_checked': 700000,
                       'images_decoded': 22000, 'image_sizes_judged': 19000, 'xml_parsed': 39000,
                       'error_docs_shape_checked': 28000, 'skeletons_compared': 16000, 'html_checked': 8500,
                       'markers_sent': 54000, 'markers_reflected_escaped': 11000}}
RULE = ("case = one valid base request (one of 48 service x operation entries, random valid choices for version / layer / "
        "format / srs) plus 10 mutated variants (drop / duplicate / re-case a parameter, type-confused value, marked markup payload in "
        "a parameter / path segment / header, path mutation, header mutation, method change, combinations); every "
        "response = one evaluation (all oracle clauses applied). distinct = (service, operation, mutated parameter, "
        "mutator class); non-trivial = the request was mutated (the unmutated base request is the trivial member)")
ASSUMPTIONS = [
    "the WSGI server in front of the app delivers PATH_INFO percent-decoded as latin-1, QUERY_STRING raw as latin-1 and "
    "never passes CR, LF or NUL inside a request header value (such requests are rejected by real servers)",
    "a 5xx status is a well-formed answer as long as the response is complete (counted, not a violation)",
    "feature-info documents handed through from the upstream are upstream-derived, not request-derived: they are "
    "not required to be well-formed (don't-care) unless a request marker shows up in them",
    "the skeleton twin of a markup payload is the same payload with < > & \" ' and control characters replaced by '~'; "
    "the application never treats these characters as syntax of its own request grammar",
    "requested size is judged only when WIDTH and HEIGHT appear exactly once and are plain positive decimal integers",
    "the demo service's urlopen is looped back into the app for http://localhost... and refused otherwise",
    "configuration metadata (titles, abstract, contact) is the administrator's text and kept free of markup characters",
    "a raw line break that ends up inside a JavaScript string literal of a demo page breaks that script but injects "
    "neither markup nor code: don't-care",
    "images relayed from the deliberately faulting upstream are still required to decode (reported with cause "
    "layer_with_faulting_upstream so that the class can be told apart)",
    "a fixed warm-up (WMS capabilities, one png legend per layer) runs before the cases, in shards and in replays alike",
]

TILE = 128
BENIGN_HOST = 'localhost'
UP_MARK = 'zqUPSTREAM'

# ---------------------------------------------------------------------------------------------------------------------
# scenario
# ---------------------------------------------------------------------------------------------------------------------

TIMES = ['2020-01-01T00:00:00Z', '2020-01-02T00:00:00Z']


# configuration metadata is the administrator's text, not request-derived: kept free of markup characters (this tree
# inserts it into capabilities documents as it is)
WMS_MD = {'title': 'C18 scenario', 'abstract': 'abstract', 'online_resource': 'http://example.org/',
          'contact': {'person': 'P', 'email': 'a@example.org'}, 'access_constraints': 'none', 'fees': 'none'}
DIMS = {'time': {'values': TIMES, 'default': TIMES[0]}, 'elevation': {'values': [0, 1000], 'default': '0'}}


def build_conf_b():
    """scenario B: cached layer with dimensions served through WMTS (restful template with dimensions), TMS, KML, WMS.
    (kept apart from A because any dimension layer makes the KVP WMTS capabilities of this tree answer 500)"""
    conf = scenario.base_conf()
    conf['grids'] = {'gm': {'base': 'GLOBAL_WEBMERCATOR', 'tile_size': [TILE, TILE], 'num_levels': 6}}
    conf['sources'] = {
        'wms_dim': {'type': 'wms', 'req': {'url': 'http://noise/service', 'layers': 'a'},
                    'supported_srs': ['EPSG:3857'], 'forward_req_params': ['time', 'elevation']},
        'wms_m': {'type': 'wms', 'req': {'url': 'http://noise/service', 'layers': 'a'}, 'supported_srs': ['EPSG:3857']},
    }
    conf['caches'] = {'c_dim': {'grids': ['gm'], 'sources': ['wms_dim'], 'disable_storage': True},
                      'c_m': {'grids': ['gm'], 'sources': ['wms_m']}}
    conf['layers'] = [{'name': 'dims', 'title': 'Dimensions cached', 'sources': ['c_dim'], 'dimensions': DIMS},
                      {'name': 'plain', 'title': 'Plain', 'sources': ['c_m']}]
    conf['services'] = {
        'demo': {}, 'kml': {'use_grid_names': True}, 'tms': {'use_grid_names': True},
        'wmts': {'kvp': True, 'restful': True,
                 'restful_template': '/{Layer}/{TileMatrixSet}/{Time}/{Elevation}/{TileMatrix}/{TileCol}/{TileRow}.{Format}'},
        'wms': {'srs': ['EPSG:4326', 'EPSG:3857'], 'image_formats': ['image/png', 'image/jpeg'],
                'max_output_pixels': [640, 640], 'md': WMS_MD},
    }
    return conf


def build_conf():
    conf = scenario.base_conf()
    conf['globals']['cache']['meta_size'] = [1, 1]
    conf['grids'] = {
        'gm': {'base': 'GLOBAL_WEBMERCATOR', 'tile_size': [TILE, TILE], 'num_levels': 8},
        'gd': {'srs': 'EPSG:4326', 'bbox': [-180, -90, 180, 90], 'origin': 'ul', 'tile_size': [TILE, TILE],
               'num_levels': 7},
    }
    anysrs = ['EPSG:3857', 'EPSG:4326']
    conf['sources'] = {
        'wms_m': {'type': 'wms', 'req': {'url': 'http://noise/service', 'layers': 'a'}, 'supported_srs': ['EPSG:3857']},
        'wms_any': {'type': 'wms', 'req': {'url': 'http://fi/service', 'layers': 'q'}, 'supported_srs': anysrs,
                    'wms_opts': {'featureinfo': True, 'legendgraphic': True}},
        'wms_130': {'type': 'wms', 'req': {'url': 'http://fi/service130', 'layers': 'q', 'transparent': True},
                    'supported_srs': anysrs, 'wms_opts': {'version': '1.3.0', 'featureinfo': True}},
        'fi_only': {'type': 'wms', 'req': {'url': 'http://fi/service', 'layers': 'q'},
                    'wms_opts': {'map': False, 'featureinfo': True, 'legendgraphic': True}},
        'wms_dim': {'type': 'wms', 'req': {'url': 'http://noise/service', 'layers': 'a'},
                    'supported_srs': ['EPSG:3857'], 'forward_req_params': ['time', 'elevation']},
        'wms_bad': {'type': 'wms', 'req': {'url': 'http://bad/service', 'layers': 'b'}, 'supported_srs': anysrs,
                    'wms_opts': {'featureinfo': True, 'legendgraphic': True}},
        'wms_cov': {'type': 'wms', 'req': {'url': 'http://fi/service', 'layers': 'q'}, 'supported_srs': anysrs,
                    'wms_opts': {'featureinfo': True}, 'coverage': {'bbox': [0, 0, 8, 48], 'srs': 'EPSG:4326'}},
        'tiles_m': {'type': 'tile', 'url': 'http://ntiles/t/%(z)s/%(x)s/%(y)s.png', 'grid': 'gm'},
    }
    conf['caches'] = {
        'c_multi': {'grids': ['gm', 'gd'], 'sources': ['wms_any']},
        'c_m': {'grids': ['gm'], 'sources': ['wms_m']},
        'c_tile': {'grids': ['gm'], 'sources': ['tiles_m']},
        'c_jpeg': {'grids': ['gm'], 'format': 'image/jpeg', 'sources': ['wms_m']},
        'c_bad': {'grids': ['gm'], 'sources': ['wms_bad']},
        'c_cov': {'grids': ['gm'], 'sources': ['wms_cov_noise']},
    }
    conf['sources']['wms_cov_noise'] = {'type': 'wms', 'req': {'url': 'http://noise/service', 'layers': 'a'}, 'supported_srs': ['EPSG:3857'],
                                        'coverage': {'bbox': [0, 0, 8, 48], 'srs': 'EPSG:4326'}}
    conf['layers'] = [
        {'name': 'cached', 'title': 'Cached multi', 'sources': ['c_multi', 'fi_only']},
        {'name': 'direct', 'title': 'Cascaded', 'sources': ['wms_any']},
        {'name': 'grp', 'title': 'Group', 'layers': [
            {'name': 'g_tile', 'title': 'tile source', 'sources': ['c_tile']},
            {'name': 'g_jpeg', 'title': 'jpeg cache', 'sources': ['c_jpeg']},
            {'name': 'g_direct', 'title': 'cascaded 1.3.0', 'sources': ['wms_130']},
        ]},
        {'name': 'dims', 'title': 'Dimensions', 'sources': ['wms_dim'], 'dimensions': DIMS},
        {'name': 'broken', 'title': 'Broken cache', 'sources': ['c_bad']},
        {'name': 'broken_direct', 'title': 'Broken cascaded', 'sources': ['wms_bad']},
        {'name': 'covered', 'title': 'Coverage limited', 'sources': ['wms_cov']},
        {'name': 'leg', 'title': 'Static legend', 'sources': ['c_m'], 'legendurl': 'http://fi/legend.png'},
        {'name': 'covtile', 'title': 'Cache of a coverage limited source', 'sources': ['c_cov']},
    ]
    conf['services'] = {
        'demo': {},
        'kml': {'use_grid_names': True},
        'tms': {'use_grid_names': True},
        'wmts': {'kvp': True, 'restful': True, 'md': {'title': 'WMTS'},
                 'featureinfo_formats': [{'mimetype': 'text/xml', 'suffix': 'xml'},
                                         {'mimetype': 'application/json', 'suffix': 'json'},
                                         {'mimetype': 'text/html', 'suffix': 'html'}]},
        'wms': {'srs': ['EPSG:4326', 'EPSG:3857', 'EPSG:900913', 'EPSG:25832'],
                'image_formats': ['image/png', 'image/jpeg', 'image/gif', 'image/tiff'],
                'versions': ['1.0.0', '1.1.0', '1.1.1', '1.3.0'],
                'featureinfo_types': ['text', 'html', 'xml', 'json'],
                'max_output_pixels': [640, 640],
                'md': WMS_MD},
    }
    return conf


_PNG = {}


def small_png(size=(20, 12), color=(10, 200, 30)):
    key = (size, color)
    if key not in _PNG:
        from PIL import Image
        b = io.BytesIO()
        Image.new('RGB', size, color).save(b, 'PNG')
        _PNG[key] = b.getvalue()
    return _PNG[key]


def legend_resp(call, color):
    """a well-behaved upstream answers a legend request in the format it was asked for"""
    fmt = (call.params.get('format') or 'image/png').lower()
    if 'json' in fmt:
        return upstream.Resp(b'{"Legend": [{"layerName": "q"}]}', 'application/json')
    from PIL import Image
    b = io.BytesIO()
    kind = 'JPEG' if 'jp' in fmt else ('GIF' if 'gif' in fmt else ('TIFF' if 'tif' in fmt else 'PNG'))
    Image.new('RGB', (20, 12), color).save(b, kind)
    return upstream.Resp(b.getvalue(), 'image/' + kind.lower())


class World(object):
    """the loaded scenario + upstreams of one shard process"""

    def __init__(self, run, which):
        self.which = which
        self.dir = run.subdir('c18' + which)
        self.up = upstream.install()
        self.sc = scenario.Scenario(self.dir, build_conf() if which == 'A' else build_conf_b())
        self.app = self.sc.app
        gm = self.sc.grid('gm')
        lat = upstream.Lattice.from_grid(gm)
        codes = ['EPSG:3857', 'EPSG:4326', 'EPSG:900913', 'EPSG:25832']
        self.noise = upstream.NoiseWMS(lat, codes)
        self.up.register('noise', self.noise)
        self.up.register('ntiles', upstream.NoiseTiles(lat, [gm.grid_sizes[z] for z in range(gm.levels)]))
        self.up.register('fi', self.fi_handler)
        self.up.register('bad', self.bad_handler)
        self.loop_depth = 0
        self.loop_calls = 0
        self.loop_refused = 0
        import mapproxy.service.demo as demo
        demo.urllib2 = types.SimpleNamespace(urlopen=loop_dispatch)
        # nothing may touch the network
        import socket

        def refuse(*a, **k):
            raise OSError('network access refused by the C18 harness')
        socket.socket.connect = refuse
        socket.create_connection = refuse
        self.static = []
        import mapproxy.service as svc
        sdir = os.path.join(os.path.dirname(svc.__file__), 'templates', 'demo', 'static')
        for base, _dirs, files in os.walk(sdir):
            for f in sorted(files):
                self.static.append(os.path.relpath(os.path.join(base, f), sdir))
        self.static.sort()
        if which == 'A':
            # fixed warm-up, so that cached state (legend cache) is the same in every shard and in a replay
            for qs in ['SERVICE=WMS&VERSION=1.1.1&REQUEST=GetCapabilities', 'SERVICE=WMS&VERSION=1.3.0&REQUEST=GetCapabilities'] + [
                    'SERVICE=WMS&VERSION=1.1.1&REQUEST=GetLegendGraphic&FORMAT=image/png&LAYER=' + n
                    for n in ('direct', 'cached', 'leg', 'grp', 'broken_direct')]:
                call_app(self.app, {'path': '/service', 'qs': qs})
        self.leaks = [b'Traceback (most recent call last)', b'File "/', self.dir.encode(),
                      os.path.dirname(self.dir).encode(), os.path.realpath(core.REPO).encode(), b'/repo/', b'/venv/',
                      b'site-packages']

    # ---- upstream handlers ------------------------------------------------------------------------------------------
    def fi_handler(self, call):
        if call.kind == 'featureinfo':
            fmt = (call.params.get('info_format') or 'text/plain').lower()
            if 'xml' in fmt or 'gml' in fmt:
                return upstream.Resp(b'<?xml version="1.0"?><info><f name="a">1 &amp; 2</f></info>', 'text/xml')
            if 'html' in fmt:
                return upstream.Resp(b'<html><body><p>info &amp; more</p></body></html>', 'text/html')
            if 'json' in fmt:
                return upstream.Resp(b'{"features": [{"a": 1}]}', 'application/json')
            return upstream.Resp(b'info: a = 1', 'text/plain')
        if call.kind == 'legend' or call.path.endswith('legend.png'):
            return legend_resp(call, (10, 200, 30))
        if call.kind == 'getmap':
            return self.noise(call)
        return upstream.Resp(b'<ServiceExceptionReport><ServiceException>unsupported</ServiceException>'
                             b'</ServiceExceptionReport>', 'application/vnd.ogc.se_xml', 200)

    def bad_handler(self, call):
        if call.kind == 'legend':
            return legend_resp(call, (200, 0, 0))
        k = zlib.crc32(call.url.encode('utf-8', 'replace')) % 5
        markup = ('<html><body><script>%s</script><b>upstream failed</b></body></html>' % UP_MARK).encode()
        if k == 0:
            return upstream.Resp(markup, 'text/html', 500)
        if k == 1:
            return upstream.Resp(markup, 'text/html', 200)
        if k == 2:
            return upstream.Resp(markup, 'image/png', 200)      # lies about its type
        if k == 3:
            good = small_png((TILE, TILE), (200, 10, 10))
            return upstream.Resp(good[:len(good) // 2], 'image/png', 200)   # truncated image
        return upstream.Resp(('<?xml version="1.0"?><ServiceExceptionReport><ServiceException>%s <![CDATA[ <script> ]]>'
                              '</ServiceException></ServiceExceptionReport>' % UP_MARK).encode(),
                             'application/vnd.ogc.se_xml', 200)

    # ---- demo loop-back ---------------------------------------------------------------------------------------------
    def loop_urlopen(self, url, *a, **k):
        import urllib.error
        u = urllib.parse.urlsplit(url)
        host = (u.hostname or '').lower()
        if u.scheme not in ('http', 'https') or host != 'localhost' or self.loop_depth > 0:
            self.loop_refused += 1
            raise urllib.error.URLError('connection refused (C18 harness): %r' % url[:80])
        self.loop_depth += 1
        self.loop_calls += 1
        try:
            req = {'m': 'GET', 'path': urllib.parse.unquote(u.path, encoding='latin-1'), 'qs': u.query, 'h': {}}
            obs = call_app(self.app, req, timeout=0)      # the outer request's watchdog stays armed
        finally:
            self.loop_depth -= 1
        if obs['exc']:
            raise urllib.error.URLError('loop-back failed')
        return io.BytesIO(obs['body'])


WORLDS = {}
CURRENT = [None]


def loop_dispatch(url, *a, **k):
    return CURRENT[0].loop_urlopen(url, *a, **k)


def world(run, which='A'):
    if which not in WORLDS:
        WORLDS[which] = World(run, which)
    return WORLDS[which]


def setup_shard(run):
    world(run, 'A')
    world(run, 'B')


# ---------------------------------------------------------------------------------------------------------------------
# raw WSGI call
# ---------------------------------------------------------------------------------------------------------------------

class Watchdog(BaseException):
    """not an Exception: the application's own catch-all must not swallow the harness watchdog"""


def _alarm(signum, frame):
    raise Watchdog()


def make_environ(req):
    env = {
        'REQUEST_METHOD': req.get('m', 'GET'),
        'SCRIPT_NAME': req.get('script', ''),
        'PATH_INFO': req['path'],
        'QUERY_STRING': req.get('qs') or '',
        'SERVER_NAME': 'localhost',
        'SERVER_PORT': req.get('port', '80'),
        'SERVER_PROTOCOL': 'HTTP/1.1',
        'REMOTE_ADDR': '127.0.0.1',
        'wsgi.version': (1, 0),
        'wsgi.url_scheme': req.get('scheme', 'http'),
        'wsgi.errors': io.StringIO(),
        'wsgi.multithread': False,
        'wsgi.multiprocess': True,
        'wsgi.run_once': False,
    }
    body = req.get('body')
    if body is not None:
        data = body.encode('latin-1', 'replace')
        env['wsgi.input'] = io.BytesIO(data)
        env['CONTENT_LENGTH'] = str(len(data))
    else:
        env['wsgi.input'] = io.BytesIO(b'')
    if req.get('fw'):
        from wsgiref.util import FileWrapper
        env['wsgi.file_wrapper'] = FileWrapper
    hdrs = req.get('h') or {}
    if 'Host' not in hdrs and not req.get('nohost'):
        env['HTTP_HOST'] = BENIGN_HOST
    for k, v in hdrs.items():
        key = k.upper().replace('-', '_')
        if key in ('CONTENT_TYPE', 'CONTENT_LENGTH'):
            env[key] = v
        else:
            env['HTTP_' + key] = v
    return env


def call_app(app, req, timeout=60):
    """returns the raw observation; nothing is repaired"""
    env = make_environ(req)
    obs = {'starts': [], 'chunks': [], 'exc': None, 'body': b'', 'started_before_first_chunk': None, 'bad_chunk': None,
           'watchdog': False, 'stderr': ''}

    def start_response(status, headers, exc_info=None):
        obs['starts'].append((status, headers, exc_info is not None))
        return lambda data: obs['chunks'].append(data)

    use_alarm = timeout and hasattr(signal, 'setitimer')
    if use_alarm:
        old = signal.signal(signal.SIGALRM, _alarm)
        signal.setitimer(signal.ITIMER_REAL, timeout)
    try:
        it = None
        try:
            it = app(env, start_response)
            first = True
            for chunk in it:
                if first:
                    obs['started_before_first_chunk'] = len(obs['starts']) > 0
                    first = False
                if not isinstance(chunk, bytes):
                    obs['bad_chunk'] = repr(type(chunk))
                    chunk = str(chunk).encode('utf-8', 'replace')
                obs['chunks'].append(chunk)
        except Watchdog:
            obs['watchdog'] = True
        except (Exception, SystemExit) as ex:   # anything escaping the app is what the property forbids
            obs['exc'] = ''.join(traceback.format_exception(type(ex), ex, ex.__traceback__))[-3000:]
        finally:
            try:
                if it is not None and hasattr(it, 'close'):
                    it.close()
            except Exception as ex:
                obs['exc'] = obs['exc'] or ('close(): ' + traceback.format_exc()[-2000:])
    finally:
        if use_alarm:
            signal.setitimer(signal.ITIMER_REAL, 0)
            signal.signal(signal.SIGALRM, old)
    obs['body'] = b''.join(c for c in obs['chunks'] if isinstance(c, bytes))
    obs['stderr'] = env['wsgi.errors'].getvalue()
    return obs


# ---------------------------------------------------------------------------------------------------------------------
# base requests: a valid request for every service and operation
# ---------------------------------------------------------------------------------------------------------------------

BBOX = {'EPSG:3857': (1000000.0, 6000000.0, 1400000.0, 6400000.0), 'EPSG:900913': (1000000.0, 6000000.0, 1400000.0, 6400000.0),
        'EPSG:4326': (5.0, 45.0, 15.0, 55.0), 'EPSG:25832': (300000.0, 5500000.0, 700000.0, 5900000.0)}
WMS_LAYERS = ['covered', 'cached', 'direct', 'grp', 'g_tile', 'g_jpeg', 'g_direct', 'dims', 'broken', 'broken_direct', 'leg',
              'cached,direct', 'grp,cached', 'leg,dims', 'direct,broken_direct']
TILE_LAYERS = [('cached', 'gm'), ('cached', 'gd'), ('g_tile', 'gm'), ('g_jpeg', 'gm'), ('broken', 'gm'), ('leg', 'gm')]
FMT100 = {'image/png': 'PNG', 'image/jpeg': 'JPEG', 'image/gif': 'GIF', 'image/tiff': 'TIFF'}


def _bbox_str(srs, ver, rng):
    b = BBOX[srs]
    if rng.random() < 0.5:
        # a sub window, still valid
        w = (b[2] - b[0]) * rng.choice([0.5, 0.25, 0.01])
        b = (b[0], b[1], b[0] + w, b[1] + w)
    if ver == '1.3.0' and srs == 'EPSG:4326':
        b = (b[1], b[0], b[3], b[2])
    return ','.join(repr(v) for v in b)


def _wms_common(ver, req100, req, rng):
    if ver == '1.0.0':
        p = [['WMTVER', '1.0.0'], ['REQUEST', req100]]
        if rng.random() < 0.5:
            p.insert(0, ['SERVICE', 'WMS'])
    else:
        p = [['SERVICE', 'WMS'], ['VERSION', ver], ['REQUEST', req]]
    return p


def _wms_path(rng):
    return rng.choice(['service', 'service', 'ows', 'wms'])


def _map_params(ver, rng, layers=None):
    srs = rng.choice(['EPSG:3857', 'EPSG:3857', 'EPSG:4326', 'EPSG:900913', 'EPSG:25832'])
    fmt = rng.choice(['image/png', 'image/png', 'image/jpeg', 'image/gif', 'image/tiff'])
    layers = layers or rng.choice(WMS_LAYERS)
    w, h = rng.choice([(128, 128), (200, 100), (64, 256), (1, 1), (333, 17)])
    p = [['LAYERS', layers], ['STYLES', ''], ['CRS' if ver == '1.3.0' else 'SRS', srs], ['BBOX', _bbox_str(srs, ver, rng)],
         ['WIDTH', str(w)], ['HEIGHT', str(h)], ['FORMAT', FMT100[fmt] if ver == '1.0.0' and rng.random() < 0.5 else fmt]]
    if rng.random() < 0.5:
        p.append(['TRANSPARENT', rng.choice(['TRUE', 'FALSE', 'true'])])
    if rng.random() < 0.3:
        p.append(['BGCOLOR', rng.choice(['0xffffff', '0x00FF00', '0x123456'])])
    if rng.random() < 0.5:
        if ver == '1.3.0':
            p.append(['EXCEPTIONS', rng.choice(['XML', 'INIMAGE', 'BLANK'])])
        elif ver == '1.0.0':
            p.append(['EXCEPTIONS', rng.choice(['XML', 'INIMAGE', 'BLANK'])])
        else:
            p.append(['EXCEPTIONS', rng.choice(['application/vnd.ogc.se_xml', 'application/vnd.ogc.se_inimage',
                                                'application/vnd.ogc.se_blank'])])
    if 'dims' in layers:
        if rng.random() < 0.7:
            p.append(['TIME', rng.choice(TIMES)])
        if rng.random() < 0.5:
            p.append(['ELEVATION', rng.choice(['0', '1000'])])
    return p


def b_wms_caps(rng, ver):
    p = _wms_common(ver, 'capabilities', 'GetCapabilities', rng)
    if rng.random() < 0.2:
        p.append(['tiled', 'true'])
    return {'segs': [_wms_path(rng)], 'params': p}


def b_wms_map(rng, ver):
    return {'segs': [_wms_path(rng)], 'params': _wms_common(ver, 'map', 'GetMap', rng) + _map_params(ver, rng)}


def b_wms_map_err(rng, ver):
    """GetMap that fails (unknown layer / unsupported SRS) with image or blank exceptions requested"""
    p = _wms_common(ver, 'map', 'GetMap', rng) + _map_params(ver, rng, rng.choice(['nosuchlayer', 'cached,nosuchlayer', 'direct']))
    p = [kv for kv in p if kv[0] != 'EXCEPTIONS']
    if p[-1][0] != 'LAYERS' and 'nosuchlayer' not in str(p):
        for kv in p:
            if kv[0] in ('SRS', 'CRS'):
                kv[1] = 'EPSG:31467'
    p.append(['EXCEPTIONS', rng.choice(['INIMAGE', 'BLANK'] if ver in ('1.0.0', '1.3.0') else
                                       ['application/vnd.ogc.se_inimage', 'application/vnd.ogc.se_blank'])])
    return {'segs': [_wms_path(rng)], 'params': p}


def b_wms_fi(rng, ver):
    layers = rng.choice(['cached', 'direct', 'g_direct', 'grp', 'broken_direct', 'cached,direct', 'leg', 'covered', 'covered'])
    p = _wms_common(ver, 'feature_info', 'GetFeatureInfo', rng) + _map_params(ver, rng, layers)
    p.append(['QUERY_LAYERS', layers if rng.random() < 0.8 else layers.split(',')[0]])
    if ver == '1.3.0':
        inf = rng.choice(['text/plain', 'text/html', 'text/xml', 'application/json'])
        p += [['I', '10'], ['J', '0']]
    else:
        inf = rng.choice(['text/plain', 'text/html', 'application/vnd.ogc.gml', 'application/json'])
        p += [['X', '0'], ['Y', '0']]
    if rng.random() < 0.85:
        p.append(['INFO_FORMAT', inf])
    if rng.random() < 0.4:
        p.append(['FEATURE_COUNT', rng.choice(['1', '10'])])
    return {'segs': [_wms_path(rng)], 'params': p}


def b_wms_fi_nohit(rng, ver):
    """GetFeatureInfo on a queryable layer whose source coverage does not contain the queried point: empty answer"""
    p = _wms_common(ver, 'feature_info', 'GetFeatureInfo', rng)
    srs = 'EPSG:4326'
    p += [['LAYERS', 'covered'], ['QUERY_LAYERS', 'covered'], ['STYLES', ''], ['CRS' if ver == '1.3.0' else 'SRS', srs],
          ['BBOX', '50.0,10.0,55.0,15.0' if ver == '1.3.0' else '10.0,50.0,15.0,55.0'], ['WIDTH', '100'], ['HEIGHT', '100'],
          ['FORMAT', 'image/png'], ['I' if ver == '1.3.0' else 'X', '50'], ['J' if ver == '1.3.0' else 'Y', '50'],
          ['INFO_FORMAT', rng.choice(['text/plain', 'text/html', 'text/xml', 'application/json'])]]
    return {'segs': [_wms_path(rng)], 'params': p}


def b_wms_legend(rng, ver):
    p = [['SERVICE', 'WMS'], ['VERSION', ver], ['REQUEST', 'GetLegendGraphic'],
         ['LAYER', rng.choice(['direct', 'cached', 'leg', 'grp', 'broken_direct', 'g_tile'])],
         ['FORMAT', rng.choice(['image/png', 'image/png', 'image/jpeg', 'application/json'])]]
    if ver == '1.3.0' or rng.random() < 0.5:
        p.append(['SLD_VERSION', '1.1.0'])
    if rng.random() < 0.3:
        p.append(['SCALE', '25000'])
    return {'segs': [_wms_path(rng)], 'params': p}


def b_wmts_caps(rng, _=None):
    p = [['SERVICE', 'WMTS'], ['REQUEST', 'GetCapabilities']]
    if rng.random() < 0.5:
        p.append(['VERSION', '1.0.0'])
    return {'segs': [rng.choice(['service', 'ows'])], 'params': p}


def _tile_addr(rng, grid):
    z = rng.choice([0, 1, 2, 3, 5])
    n = 2 ** z
    if grid == 'gd':
        return z, 0, 0          # the corner tile exists on every level of the geodetic grid
    return z, rng.randrange(n), rng.randrange(n)


def b_wmts_tile(rng, _=None):
    layer, grid = rng.choice(TILE_LAYERS)
    z, x, y = _tile_addr(rng, grid)
    p = [['SERVICE', 'WMTS'], ['VERSION', '1.0.0'], ['REQUEST', 'GetTile'], ['LAYER', layer], ['STYLE', 'default'],
         ['TILEMATRIXSET', grid], ['TILEMATRIX', rng.choice([str(z), '%02d' % z])], ['TILEROW', str(y)],
         ['TILECOL', str(x)], ['FORMAT', 'image/jpeg' if layer == 'g_jpeg' else 'image/png']]
    if layer == 'dims' and rng.random() < 0.7:
        p += [['TIME', rng.choice(TIMES)], ['ELEVATION', rng.choice(['0', '1000'])]]
    return {'segs': [rng.choice(['service', 'ows'])], 'params': p}


def b_wmts_fi(rng, _=None):
    b = b_wmts_tile(rng)
    for kv in b['params']:
        if kv[0] == 'REQUEST':
            kv[1] = 'GetFeatureInfo'
        if kv[0] == 'LAYER' and rng.random() < 0.7:
            kv[1] = 'cached'
    b['params'] += [['INFOFORMAT', rng.choice(['text/xml', 'application/json', 'text/html'])], ['I', '5'], ['J', '7']]
    return b


def b_wmts_rest_caps(rng, _=None):
    return {'segs': ['wmts', '1.0.0', 'WMTSCapabilities.xml'], 'params': []}


def b_wmts_rest_tile(rng, _=None):
    layer, grid = rng.choice(TILE_LAYERS)
    z, x, y = _tile_addr(rng, grid)
    return {'segs': ['wmts', layer, grid, '%02d' % z, str(x), '%d.%s' % (y, 'jpeg' if layer == 'g_jpeg' else 'png')],
            'params': []}


def b_wmts_rest_fi(rng, _=None):
    layer, grid = rng.choice([('cached', 'gm'), ('cached', 'gd'), ('leg', 'gm')])
    z, x, y = _tile_addr(rng, grid)
    return {'segs': ['wmts', layer, grid, '%02d' % z, str(x), str(y), '3', '%d.%s' % (4, rng.choice(['xml', 'json', 'html']))],
            'params': []}


def b_tms_root(rng, _=None):
    return {'segs': rng.choice([['tms'], ['tms', ''], ['tms', '1.0.0'], ['tms', '1.0.0', '']]), 'params': []}


def b_tms_layer(rng, _=None):
    layer, grid = rng.choice(TILE_LAYERS)
    return {'segs': ['tms', '1.0.0', layer, grid], 'params': []}


def b_tms_tile(rng, _=None):
    layer, grid = rng.choice(TILE_LAYERS)
    z, x, y = _tile_addr(rng, grid)
    pre = rng.choice([['tms', '1.0.0'], ['tiles'], ['tiles', '1.0.0']])
    p = []
    if rng.random() < 0.3:
        p.append(['origin', rng.choice(['nw', 'sw'])])
    return {'segs': pre + [layer, grid, str(z), str(x), '%d.%s' % (y, 'jpeg' if layer == 'g_jpeg' else 'png')],
            'params': p}


def b_kml_doc(rng, _=None):
    layer, grid = rng.choice(TILE_LAYERS)
    if rng.random() < 0.4:
        return {'segs': ['kml', layer, grid], 'params': []}
    z, x, y = _tile_addr(rng, grid)
    return {'segs': ['kml', layer, grid, str(z), str(x), '%d.kml' % y], 'params': []}


def b_kml_tile(rng, _=None):
    layer, grid = rng.choice(TILE_LAYERS)
    z, x, y = _tile_addr(rng, grid)
    return {'segs': ['kml', layer, grid, str(z), str(x), '%d.%s' % (y, 'jpeg' if layer == 'g_jpeg' else 'png')],
            'params': []}


def b_demo_root(rng, _=None):
    return {'segs': rng.choice([['demo', ''], ['demo', ''], ['demo']]), 'params': []}


def b_demo_wms(rng, _=None):
    return {'segs': ['demo', ''], 'params': [['wms_layer', rng.choice(['cached', 'direct', 'grp', 'dims', 'g_tile'])],
                                             ['format', rng.choice(['image/png', 'image/jpeg'])],
                                             ['srs', rng.choice(['EPSG:3857', 'EPSG:4326', 'EPSG:25832'])]]}


def b_demo_tms(rng, _=None):
    layer, grid = rng.choice(TILE_LAYERS)
    return {'segs': ['demo', ''], 'params': [['tms_layer', layer], ['format', 'jpeg' if layer == 'g_jpeg' else 'png'],
                                             ['srs', 'EPSG:4326' if grid == 'gd' else 'EPSG:3857']]}


def b_demo_wmts(rng, _=None):
    layer, grid = rng.choice(TILE_LAYERS)
    return {'segs': ['demo', ''], 'params': [['wmts_layer', layer], ['format', 'jpeg' if layer == 'g_jpeg' else 'png'],
                                             ['srs', 'EPSG:4326' if grid == 'gd' else 'EPSG:3857']]}


def b_demo_caps(rng, _=None):
    kind = rng.choice(['wms_capabilities', 'wmsc_capabilities', 'wmts_capabilities_kvp', 'wmts_capabilities',
                       'tms_capabilities', 'tms_capabilities'])
    p = [[kind, '']]
    if kind == 'tms_capabilities' and rng.random() < 0.6:
        layer, grid = rng.choice(TILE_LAYERS)
        p += [['layer', layer], ['srs', grid]]
    if rng.random() < 0.4:
        p.append(['type', 'external'])
    return {'segs': ['demo', ''], 'params': p}


def b_demo_static(rng, w):
    f = rng.choice(w.static) if w.static else 'site.css'
    return {'segs': ['demo', 'static'] + f.split('/'), 'params': []}


def b_root(rng, _=None):
    return {'segs': rng.choice([[''], [], ['favicon.ico'], ['nosuchservice', 'x']]), 'params': []}


def b_ows_err(rng, _=None):
    return {'segs': [rng.choice(['service', 'ows', 'wms'])],
            'params': rng.choice([[], [['SERVICE', 'WFS'], ['REQUEST', 'GetCapabilities']], [['REQUEST', 'GetMap']],
                                  [['SERVICE', 'WMS'], ['REQUEST', 'GetStyles'], ['VERSION', '1.1.1']],
                                  [['SERVICE', 'WMTS'], ['REQUEST', 'GetFoo']]])}


# ---- scenario B (cached dimension layer) ----
def bB_wmts_tile(rng, _=None):
    layer = rng.choice(['dims', 'dims', 'plain'])
    z, x, y = _tile_addr(rng, 'gm')
    p = [['SERVICE', 'WMTS'], ['VERSION', '1.0.0'], ['REQUEST', 'GetTile'], ['LAYER', layer], ['STYLE', 'default'],
         ['TILEMATRIXSET', 'gm'], ['TILEMATRIX', '%02d' % min(z, 5)], ['TILEROW', str(y)], ['TILECOL', str(x)],
         ['FORMAT', 'image/png']]
    if rng.random() < 0.8:
        p += [[rng.choice(['TIME', 'time', 'Time']), rng.choice(TIMES)], ['ELEVATION', rng.choice(['0', '1000'])]]
    return {'segs': ['service'], 'params': p}


def bB_wmts_rest_tile(rng, _=None):
    layer = rng.choice(['dims', 'dims', 'plain'])
    z, x, y = _tile_addr(rng, 'gm')
    t, e = (rng.choice(TIMES + ['default']), rng.choice(['0', '1000', 'default'])) if layer == 'dims' else ('default', 'default')
    return {'segs': ['wmts', layer, 'gm', t, e, '%02d' % min(z, 5), str(x), '%d.png' % y], 'params': []}


def bB_wmts_caps(rng, _=None):
    if rng.random() < 0.7:
        return {'segs': ['wmts', '1.0.0', 'WMTSCapabilities.xml'], 'params': []}
    return {'segs': ['service'], 'params': [['SERVICE', 'WMTS'], ['REQUEST', 'GetCapabilities']]}


def bB_wms_map(rng, ver):
    p = _wms_common(ver, 'map', 'GetMap', rng) + _map_params(ver, rng, rng.choice(['dims', 'dims,plain']))
    p = [kv for kv in p if kv[0] not in ('FORMAT',)] + [['FORMAT', rng.choice(['image/png', 'image/jpeg'])]]
    for kv in p:
        if kv[0] in ('SRS', 'CRS') and kv[1] not in ('EPSG:3857', 'EPSG:4326'):
            kv[1] = 'EPSG:3857'
            for kv2 in p:
                if kv2[0] == 'BBOX':
                    kv2[1] = ','.join(repr(v) for v in BBOX['EPSG:3857'])
    return {'segs': [_wms_path(rng)], 'params': p}


def bB_tiles(rng, _=None):
    layer = rng.choice(['dims', 'plain'])
    z, x, y = _tile_addr(rng, 'gm')
    pre = rng.choice([['tms', '1.0.0'], ['tiles'], ['kml']])
    return {'segs': pre + [layer, 'gm', str(min(z, 5)), str(x), '%d.%s' % (y, rng.choice(['png', 'png', 'kml']) if pre == ['kml'] else 'png')],
            'params': []}


def bB_demo(rng, _=None):
    k = rng.randrange(4)
    if k == 0:
        return {'segs': ['demo', ''], 'params': []}
    kind = ['wms_layer', 'tms_layer', 'wmts_layer'][k - 1]
    return {'segs': ['demo', ''], 'params': [[kind, rng.choice(['dims', 'plain'])],
                                             ['format', 'image/png' if k == 1 else 'png'], ['srs', 'EPSG:3857']]}


VERS = ['1.0.0', '1.1.0', '1.1.1', '1.3.0']
OPS = []
for _v in VERS:
    OPS.append(('wms', 'capabilities_' + _v, b_wms_caps, _v))
    OPS.append(('wms', 'getmap_' + _v, b_wms_map, _v))
    OPS.append(('wms', 'featureinfo_' + _v, b_wms_fi, _v))
    OPS.append(('wms', 'getmap_' + _v, b_wms_map, _v))     # GetMap carries most parameters: double weight
for _v in ('1.1.1', '1.3.0'):
    OPS.append(('wms', 'legendgraphic_' + _v, b_wms_legend, _v))
    OPS.append(('wms', 'featureinfo-nohit_' + _v, b_wms_fi_nohit, _v))
    OPS.append(('wms', 'getmap-error-in-image_' + _v, b_wms_map_err, _v))
OPS += [
    ('wmts', 'capabilities', b_wmts_caps, None), ('wmts', 'gettile', b_wmts_tile, None),
    ('wmts', 'featureinfo', b_wmts_fi, None), ('wmts_rest', 'capabilities', b_wmts_rest_caps, None),
    ('wmts_rest', 'tile', b_wmts_rest_tile, None), ('wmts_rest', 'featureinfo', b_wmts_rest_fi, None),
    ('tms', 'root', b_tms_root, None), ('tms', 'layer', b_tms_layer, None), ('tms', 'tile', b_tms_tile, None),
    ('kml', 'document', b_kml_doc, None), ('kml', 'tile', b_kml_tile, None),
    ('demo', 'root', b_demo_root, None), ('demo', 'wms_page', b_demo_wms, None), ('demo', 'tms_page', b_demo_tms, None),
    ('demo', 'wmts_page', b_demo_wmts, None), ('demo', 'capabilities_page', b_demo_caps, None),
    ('demo', 'static', b_demo_static, 'world'),
    ('app', 'root', b_root, None), ('ows', 'dispatch_error', b_ows_err, None),
]
OPS = [o + ('A',) for o in OPS]
OPS += [('wmts', 'gettile_dimensions', bB_wmts_tile, None, 'B'), ('wmts_rest', 'tile_dimensions', bB_wmts_rest_tile, None, 'B'),
        ('wmts', 'capabilities_dimensions', bB_wmts_caps, None, 'B'), ('wms', 'getmap_cached_dimensions', bB_wms_map, '1.1.1', 'B'),
        ('wms', 'getmap_cached_dimensions', bB_wms_map, '1.3.0', 'B'), ('tms', 'tile_dimensions', bB_tiles, None, 'B'),
        ('demo', 'pages_dimensions', bB_demo, None, 'B')]


# ---------------------------------------------------------------------------------------------------------------------
# mutators
# ---------------------------------------------------------------------------------------------------------------------

LONG = 65536
TYPECONF = ['', 'NaN', 'nan', 'inf', '-inf', 'Infinity', '1e309', '-1e309', '1e-400', '1' + '0' * 30, str(2 ** 63),
            str(2 ** 31), '-1', '-0', '0', '-99999999999', '1,5', '1.5', '3.000000001', '0x10', '1_000', '1e2', ' 12 ',
            '\uff11\uff12', '\u0663', '\xfc', '\u0416\u0416', '\u202e', '\U0001f600', '\x01', '\x1f', '\x7f', '\x85',
            'a\r\nb', '\r\nX-Injected: 1', '\n', 'a\x00b', '\x00', '%', '%zz', '%u0041', '+', ' ', '\t', 'true', 'null',
            'None', '[]', '{}', '../..', '..\\..', '*', '?', '#', ';', 'a;b=c', 'image/png;mode=8bit', 'EPSG:0',
            'EPSG:99999999', 'epsg:3857', 'EPSG:-1', 'urn:ogc:def:crs:EPSG::4326', 'CRS:84',
            '@LONG', '@COMMAS', '@NUMLIST', '@SURR']
BBOXCONF = ['NaN,NaN,NaN,NaN', 'inf,inf,inf,inf', '-inf,-inf,inf,inf', '0,0,0,0', '10,10,0,0', '1,2,3', '1,2,3,4,5',
            '1e308,1e308,1e309,1e309', '-1e308,-1e308,1e308,1e308', '0,0,1e-300,1e-300', 'a,b,c,d', ',,,', '0;0;1;1',
            '0,0,1,1e-30', '1000000,6000000,1000000.0000001,6000000.0000001', '-180,-90,180,90',
            '-20037508.342789244,-20037508.342789244,20037508.342789244,20037508.342789244', '0 0 1 1']
PAYLOADS = ['<x {m}>', '<x {m}="1"/>', '<{m}>t</{m}>', '<script>{m}</script>', '<ScRiPt src=//x/{m}>', ']]>{m}',
            '<![CDATA[{m}', '<![CDATA[{m}]]>', 'a&amp;{m}', '&{m};', '&#x3c;{m}&#x3e;', '&lt;{m}&gt;', '"\'>{m}',
            '" {m}="1', "' {m}='1", '-->{m}<!--', '<!-- {m} -->', '</ServiceException>{m}<ServiceException>',
            '</ows:ExceptionText>{m}', '</Message>{m}<Message>', '<?{m} ?>', '<!DOCTYPE {m}>',
            '<!ENTITY {m} SYSTEM "file:///etc/passwd">', '{m}\x01', '{m}\x0b\x0c', '{m}\ufffe', 'javascript:{m}',
            '{{{{"{m}"}}}}', '{{{{7*7}}}}{m}', '%s%n{m}', '<img src=x onerror={m}>', '</script><script>{m}</script>',
            '</title><{m}>', 'ü<{m}>€', '<{m}', '{m}>', '<', '&', '{m}&', '<{m}/>,<b>', 'image/<{m}>',
            'EPSG:<{m}>', '{m}\r\nX-Injected: <{m}>', '{m}%0d%0aSet-Cookie:{m}']
HDR_VALUES = ['<x {m}>', '{m}"><script>{m}</script>', "{m}'onmouseover='x", 'evil.example/{m}', '{m}.example:8080',
              '{m}.example, proxy.example', '{m}&amp;a=b', ']]>{m}', '-->{m}', '{m}\t tab', 'ü{m}'.encode('utf-8').decode('latin-1'),
              '\xff\xfe{m}', '{m}' + 'A' * 5000, '', ' ', ':', '{m}:80', '{m}:443', '[::1]:{m}', '{m}/../..', '{m}?x=<y>',
              'javascript:{m}', '{{{{"{m}"}}}}', 'h" {m}="1', 'h"/><{m} a="', "h' {m}='1", 'h/>--><{m}/><!--',
              'h"><!-- {m} --><a b="', 'h&#x22; {m}=&#x22;1']
CRLF_VALUES = ['a\r\nX-Injected: {m}', 'text/html\r\nSet-Cookie: {m}=1', 'image/png\r\n\r\n<html>{m}</html>', 'text/xml\nX-Injected: {m}',
               'text/plain\rX-Injected: {m}', 'text/plain\x00{m}', 'image/png\r\n', '\r\n{m}', 'text/html; charset=utf-8\r\nX-I: {m}',
               'application/json\u2028{m}', 'text/xml\x85{m}', 'text/\u010d\u010a{m}']
FOCUS = {'FORMAT', 'INFO_FORMAT', 'INFOFORMAT', 'EXCEPTIONS', 'LAYERS', 'LAYER', 'QUERY_LAYERS', 'SRS', 'CRS', 'TILEMATRIXSET',
         'VERSION', 'WMTVER', 'REQUEST', 'SERVICE', 'STYLES', 'STYLE', 'TIME', 'ELEVATION', 'WMS_LAYER', 'TMS_LAYER', 'WMTS_LAYER'}
NEUTRAL = {ord(c): '~' for c in '<>&"\''}
for _c in list(range(0, 32)) + [127, 0xfffe]:
    NEUTRAL[_c] = '~'


def expand(v):
    if v == '@LONG':
        return 'A' * LONG
    if v == '@COMMAS':
        return ',' * 300
    if v == '@NUMLIST':
        return '1,' * 600 + '1'
    if v == '@SURR':
        return '\udc80'
    return v


def enc(s, mode):
    """unicode value -> QUERY_STRING fragment (a latin-1 native string, as a WSGI server delivers it)"""
    if mode == 'latin1q':
        return urllib.parse.quote(s.encode('latin-1', 'replace'), safe=',:/')
    data = s.encode('utf-8', 'surrogateescape')
    if mode == 'raw':
        out = []
        for b in data:
            if b in b'&=#%+ ' or b < 0x21 or b == 0x7f:
                out.append('%%%02X' % b)
            else:
                out.append(chr(b))
        return ''.join(out)
    if mode == 'plus':
        return urllib.parse.quote_plus(data, safe=',:/')
    return urllib.parse.quote(data, safe=',:/')


def build_qs(params, modes=None):
    parts = []
    for i, kv in enumerate(params):
        mode = (modes or {}).get(i, 'utf8q')
        if kv[1] is None:
            parts.append(enc(kv[0], mode))
        else:
            parts.append(enc(kv[0], mode) + '=' + enc(kv[1], mode))
    return '&'.join(parts)


def build_path(segs):
    return '/' + '/'.join(segs) if segs else ''


def to_path_info(s):
    """a path as it arrives in PATH_INFO: utf-8 bytes read as latin-1"""
    return s.encode('utf-8', 'surrogateescape').decode('latin-1')


class Mut(object):
    """one mutated request under construction"""

    def __init__(self, base, rng, serial):
        self.rng = rng
        self.segs = list(base['segs'])
        self.params = [list(kv) for kv in base['params']]
        self.modes = {}
        self.headers = {}
        self.extra = {}
        self.path_post = None       # function applied to the final path string
        self.qs_post = None
        self.marker = None
        self.payload = None
        self.serial = serial
        self.targets = []           # list of (kind, key) that carry the payload, for the twin
        self.klass = 'none'
        self.param = '-'

    def new_marker(self):
        self.marker = 'zq%dx%d' % (self.serial, self.rng.randrange(1000, 9999))
        return self.marker

    def request(self, neutral=False):
        params = [list(kv) for kv in self.params]
        segs = list(self.segs)
        headers = dict(self.headers)
        if neutral:
            for kind, key in self.targets:
                if kind == 'param':
                    params[key][1] = params[key][1].translate(NEUTRAL)
                elif kind == 'pname':
                    params[key][0] = params[key][0].translate(NEUTRAL)
                elif kind == 'seg':
                    segs[key] = segs[key].translate(NEUTRAL)
                elif kind == 'header':
                    headers[key] = headers[key].translate(NEUTRAL)
        path = to_path_info(build_path(segs))
        if self.path_post:
            path = self.path_post(path)
        qs = build_qs(params, self.modes)
        if self.qs_post:
            qs = self.qs_post(qs)
        req = {'m': 'GET', 'path': path, 'qs': qs, 'h': headers}
        req.update(self.extra)
        if req.get('body') == '@QS':
            req['body'] = qs
        if req.get('body') == '@QSONLY':
            req['body'] = qs
            req['qs'] = ''
        return req


def pick_value(rng, pname):
    up = pname.upper()
    if up == 'BBOX' and rng.random() < 0.7:
        return rng.choice(BBOXCONF)
    return expand(rng.choice(TYPECONF))


def pick_param(m):
    """index of the parameter to mutate; parameters that are echoed or dispatched on are preferred half of the time"""
    if m.rng.random() < 0.5:
        foc = [i for i, kv in enumerate(m.params) if kv[0].upper() in FOCUS]
        if foc:
            return m.rng.choice(foc)
    return m.rng.randrange(len(m.params))


def m_crlf(m):
    """response-splitting payloads in parameters and path segments (a request header cannot carry CR/LF)"""
    mk = m.new_marker()
    m.payload = m.rng.choice(CRLF_VALUES).format(m=mk)
    m.klass = 'crlf'
    if m.params and m.rng.random() < 0.85:
        i = pick_param(m)
        m.param = m.params[i][0].upper()
        m.params[i][1] = m.payload if m.rng.random() < 0.8 else (m.params[i][1] or '') + m.payload
        m.targets.append(('param', i))
    else:
        if not m.segs:
            m.segs = ['']
        i = m.rng.randrange(len(m.segs))
        m.param = 'seg%d' % i
        m.segs[i] = m.segs[i] + m.payload
        m.targets.append(('seg', i))


def m_drop(m):
    if not m.params:
        return m_path(m)
    i = m.rng.randrange(len(m.params))
    m.klass, m.param = 'drop', m.params[i][0].upper()
    del m.params[i]


def m_dup(m):
    if not m.params:
        return m_path(m)
    i = m.rng.randrange(len(m.params))
    k, v = m.params[i]
    m.klass, m.param = 'dup', k.upper()
    how = m.rng.randrange(4)
    if how == 0:
        m.params.append([k, v])
    elif how == 1:
        m.params.insert(0, [k.lower(), pick_value(m.rng, k)])
    elif how == 2:
        m.params.append([k, pick_value(m.rng, k)])
    else:
        m.params.insert(i, [k, pick_value(m.rng, k)])
        for _ in range(m.rng.choice([1, 50])):
            m.params.append([k, v])


def m_recase(m):
    if not m.params:
        return m_path(m)
    i = m.rng.randrange(len(m.params))
    k = m.params[i][0]
    m.klass, m.param = 'recase', k.upper()
    how = m.rng.randrange(4)
    if how == 0:
        m.params[i][0] = k.lower()
    elif how == 1:
        m.params[i][0] = ''.join(c.upper() if j % 2 else c.lower() for j, c in enumerate(k))
    elif how == 2:
        m.params[i][0] = k.upper()
    else:
        for kv in m.params:
            kv[0] = kv[0].swapcase()
        # values that are matched case-insensitively by the application
        m.params[i][1] = m.params[i][1].swapcase()


def m_type(m):
    if not m.params:
        return m_path(m)
    i = pick_param(m)
    k = m.params[i][0]
    m.klass, m.param = 'type', k.upper()
    m.params[i][1] = pick_value(m.rng, k)
    m.modes[i] = m.rng.choice(['utf8q', 'utf8q', 'latin1q', 'raw', 'plus'])
    if m.rng.random() < 0.05:
        m.params[i][1] = None      # key without '='


def m_markup(m):
    if not m.params:
        return m_seg_markup(m)
    i = pick_param(m)
    k = m.params[i][0]
    mk = m.new_marker()
    m.payload = m.rng.choice(PAYLOADS).format(m=mk)
    if m.rng.random() < 0.12:
        # long runs of characters that must be escaped, at every alignment: a limit, a buffer or a cut applied to the
        # escaped text shows only when it falls inside a character reference
        unit = m.rng.choice(['<', '&', '"\'', '<x>&', '>', "'", '&amp;', '<![CDATA['])
        m.payload = 'a' * m.rng.randrange(8) + unit * m.rng.choice([60, 130, 200, 260, 340, 520, 1100, 2100, 4200]) + mk
    m.klass, m.param = 'markup', k.upper()
    how = m.rng.random()
    old = m.params[i][1]
    if how < 0.7 or not old:
        m.params[i][1] = m.payload
    elif how < 0.8:
        m.params[i][1] = old + m.payload
    elif how < 0.9:
        m.params[i][1] = old + ',' + m.payload
    else:
        m.params[i][1] = m.payload + old
    m.targets.append(('param', i))
    m.modes[i] = m.rng.choice(['utf8q', 'utf8q', 'utf8q', 'raw', 'plus'])


def m_pname_markup(m):
    """markup in a parameter NAME (new unknown parameter, or dimension-like name)"""
    mk = m.new_marker()
    m.payload = m.rng.choice(PAYLOADS).format(m=mk)
    m.klass, m.param = 'markup_name', '<new>'
    name = m.rng.choice(['', 'DIM_', 'TIME', 'x']) + m.payload
    m.params.append([name, m.rng.choice(['1', m.payload])])
    m.targets.append(('pname', len(m.params) - 1))
    if m.params[-1][1] == m.payload:
        m.targets.append(('param', len(m.params) - 1))


def m_seg_markup(m):
    if not m.segs:
        m.segs = ['']
    i = m.rng.randrange(len(m.segs))
    mk = m.new_marker()
    m.payload = m.rng.choice(PAYLOADS).format(m=mk).replace('%0d%0a', '\r\n')
    m.klass, m.param = 'markup', 'seg%d' % i
    old = m.segs[i]
    how = m.rng.random()
    if i == 0 and how < 0.8:
        m.segs[i] = old + m.payload        # keep the service prefix: /service<x ...>
        if how < 0.5 and len(m.segs) > 1:
            i = m.rng.randrange(1, len(m.segs))
            m.param = 'seg%d' % i
            m.segs[0] = old
            m.segs[i] = m.payload
    elif how < 0.6:
        m.segs[i] = m.payload
    elif how < 0.8:
        m.segs[i] = old + m.payload
    else:
        m.segs[i] = m.payload + old
    m.targets.append(('seg', i))


def m_seg_type(m):
    if not m.segs:
        m.segs = ['']
    i = m.rng.randrange(len(m.segs))
    m.klass, m.param = 'type', 'seg%d' % i
    v = expand(m.rng.choice(TYPECONF))
    if m.rng.random() < 0.5 and '.' in m.segs[i]:
        m.segs[i] = v + '.' + m.segs[i].rsplit('.', 1)[1]
    elif m.rng.random() < 0.3:
        m.segs[i] = m.segs[i] + v
    else:
        m.segs[i] = v


def m_path(m):
    m.klass = 'path'
    how = m.rng.randrange(12)
    m.param = 'path%d' % how
    if how == 0:
        m.path_post = lambda p: p.replace('/', '//')
    elif how == 1:
        m.path_post = lambda p: p + '\x00'
    elif how == 2:
        m.path_post = lambda p: p + '%00'
    elif how == 3:
        m.path_post = lambda p: p + '/' + 'B' * LONG
    elif how == 4:
        m.path_post = lambda p: p + to_path_info('/ü€\U0001f600')
    elif how == 5:
        m.path_post = lambda p: p + '/../../etc/passwd'
    elif how == 6:
        m.path_post = lambda p: p + '\xff\xfe'          # not valid utf-8
    elif how == 7:
        m.path_post = lambda p: p + ';jsessionid=1?x#y'
    elif how == 8:
        m.path_post = lambda p: '/' + p
    elif how == 9:
        m.path_post = lambda p: p.rstrip('/') if p.endswith('/') else p + '/'
    elif how == 10:
        m.path_post = lambda p: p.upper()
    else:
        m.path_post = lambda p: p[:max(1, len(p) // 2)]


def m_qs(m):
    m.klass = 'querystring'
    how = m.rng.randrange(9)
    m.param = 'qs%d' % how
    if how == 0:
        m.qs_post = lambda q: q.replace('&', ';')
    elif how == 1:
        m.qs_post = lambda q: q + '&'
    elif how == 2:
        m.qs_post = lambda q: '&&' + q.replace('&', '&&') + '&='
    elif how == 3:
        m.qs_post = lambda q: q + '&=x&=&x&%'
    elif how == 4:
        m.qs_post = lambda q: q + '&\xff\xfe=\xc3\x28'       # raw bytes, invalid utf-8
    elif how == 5:
        m.qs_post = lambda q: q.replace('=', '%3D')
    elif how == 6:
        m.qs_post = lambda q: q + '&' + '&'.join('p%d=%d' % (j, j) for j in range(2000))
    elif how == 7:
        m.qs_post = lambda q: q.replace('%', '%25')
    else:
        m.qs_post = lambda q: q + '#frag?x=1'


def m_header(m):
    m.klass = 'header'
    name = m.rng.choice(['X-Forwarded-Host', 'X-Forwarded-Host', 'X-Forwarded-Proto', 'X-Script-Name', 'X-Script-Name',
                         'Host', 'Host', 'If-None-Match', 'If-Modified-Since', 'Accept', 'Accept-Language', 'Origin',
                         'Referer', 'Authorization', 'Cookie', 'User-Agent', 'X-Forwarded-For', 'Content-Type',
                         'Content-Length', 'Accept-Encoding', 'Range'])
    m.param = name
    mk = m.new_marker()
    if name == 'X-Script-Name' and m.rng.random() < 0.6:
        v = m.rng.choice(['/proxy', '/', '//evil.example', '/' + (m.segs[0] if m.segs else ''), '/a/b/',
                          '/pü'.encode('utf-8').decode('latin-1'), 'noslash', '/pro xy', '/<{m}>', '/"{m}'])
    elif name == 'X-Forwarded-Proto' and m.rng.random() < 0.6:
        v = m.rng.choice(['https', 'http', 'HTTPS', 'javascript', 'https, http', '{m}'])
    elif name == 'If-None-Match' and m.rng.random() < 0.7:
        v = m.rng.choice(['*', '"abc"', 'W/"x"', '-1', '0', '{m}', '"' + 'a' * 32 + '"', ','])
    elif name == 'If-Modified-Since' and m.rng.random() < 0.8:
        v = m.rng.choice(['Thu, 01 Jan 1970 00:00:00 GMT', 'Fri, 31 Dec 9999 23:59:59 GMT', 'Mon, 99 Foo 2020 99:99:99 GMT',
                          '0', '-1', '1e309', 'yesterday', 'Sat, 29 Oct 1994 19:43:31 GMT; length=3', '{m}',
                          'Sunday, 06-Nov-94 08:49:37 GMT', 'Sun Nov  6 08:49:37 1994', '\xfc'])
    elif name in ('Content-Length',) and m.rng.random() < 0.8:
        v = m.rng.choice(['-1', '0', 'abc', '99999999999', '1e3', ''])
    else:
        v = m.rng.choice(HDR_VALUES)
    m.payload = v.format(m=mk) if '{m}' in v or '{{' in v else v
    if mk not in m.payload:
        m.marker = None
    m.headers[name] = m.payload
    m.targets.append(('header', name))
    if m.rng.random() < 0.2:
        m.extra['scheme'] = 'https'
    if m.rng.random() < 0.2:
        m.extra['port'] = m.rng.choice(['443', '8080', '80'])


def m_method(m):
    m.klass = 'method'
    how = m.rng.randrange(9)
    meth = ['POST', 'POST', 'POST', 'POST', 'HEAD', 'OPTIONS', 'PUT', 'DELETE', 'get'][how]
    m.param = '%s%d' % (meth, how)
    m.extra['m'] = meth
    if how == 1:
        m.extra['body'] = '@QS'
        m.headers['Content-Type'] = 'application/x-www-form-urlencoded'
    elif how == 2:
        m.extra['body'] = '@QSONLY'
        m.headers['Content-Type'] = 'application/x-www-form-urlencoded'
    elif how == 3:
        mk = m.new_marker()
        m.extra['body'] = ('<?xml version="1.0"?><GetMap version="1.3.0" service="WMS"><StyledLayerDescriptor>'
                           '<NamedLayer><Name>&lt;%s&gt;</Name></NamedLayer></StyledLayerDescriptor></GetMap>' % mk)
        m.payload = '<%s>' % mk
        m.headers['Content-Type'] = 'text/xml'


def m_env(m):
    m.klass = 'environ'
    how = m.rng.randrange(5)
    m.param = 'env%d' % how
    if how == 0:
        m.extra['nohost'] = True
    elif how == 1:
        m.extra['script'] = '/mount/point'
    elif how == 2:
        m.extra['scheme'] = 'https'
        m.extra['port'] = '443'
    elif how == 3:
        m.extra['fw'] = True
    else:
        m.extra['script'] = to_path_info('/mü<zq>')


SINGLE = [(m_drop, 8), (m_dup, 8), (m_recase, 6), (m_type, 22), (m_markup, 26), (m_pname_markup, 3), (m_seg_markup, 8), (m_crlf, 8),
          (m_seg_type, 5), (m_path, 5), (m_qs, 3), (m_header, 12), (m_method, 4), (m_env, 2)]
_SW = [f for f, w in SINGLE for _ in range(w)]


def mutate(base, rng, serial):
    m = Mut(base, rng, serial)
    if rng.random() < 0.15:
        # combination: a structural mutation plus one value mutation
        first = rng.choice([m_drop, m_dup, m_recase, m_path, m_qs, m_method, m_env, m_type])
        first(m)
        k1, p1 = m.klass, m.param
        second = rng.choice([m_markup, m_markup, m_header, m_seg_markup, m_type, m_crlf])
        if not (first is m_type and second is m_type):
            second(m)
        m.klass, m.param = 'combo:%s+%s' % (k1, m.klass), m.param
    else:
        rng.choice(_SW)(m)
    if rng.random() < 0.1:
        m.extra.setdefault('fw', True)
    return m


def gen_requests(run, i):
    """the explicit request list of case i"""
    rng = run.rng('case', i)
    svc, op, fn, arg, scn = OPS[i % len(OPS)]
    base = fn(rng, world(run, scn) if arg == 'world' else arg)
    out = []
    m0 = Mut(base, rng, i)
    out.append({'scn': scn, 'svc': svc, 'op': op, 'mut': 'none', 'param': '-', 'req': m0.request(), 'marker': None, 'payload': None,
                'twin': None})
    for j in range(run.pick(10, 10)):
        m = mutate(base, rng, i * 16 + j)
        item = {'scn': scn, 'svc': svc, 'op': op, 'mut': m.klass, 'param': m.param, 'req': m.request(), 'marker': m.marker,
                'payload': m.payload, 'twin': None}
        if m.marker and m.targets and m.payload.translate(NEUTRAL) != m.payload:
            item['twin'] = m.request(neutral=True)
        out.append(item)
    return out


# ---------------------------------------------------------------------------------------------------------------------
# oracle
# ---------------------------------------------------------------------------------------------------------------------

STATUS_RE = re.compile(r'^[1-5][0-9][0-9] [\x20-\x7e]+$')
TOKEN_RE = re.compile(r"^[!#$%&'*+\-.^_`|~0-9A-Za-z]+$")
XML_TYPES = ('text/xml', 'application/xml', 'application/vnd.ogc.se_xml', 'application/vnd.ogc.gml',
             'application/vnd.ogc.wms_xml', 'application/vnd.google-earth.kml+xml')
PIL_FORMAT = {'image/png': 'PNG', 'image/jpeg': 'JPEG', 'image/jpg': 'JPEG', 'image/gif': 'GIF', 'image/tiff': 'TIFF',
              'image/geotiff': 'TIFF', 'image/x-icon': 'ICO', 'image/vnd.microsoft.icon': 'ICO', 'image/svg+xml': None}
OGC = '{http://www.opengis.net/ogc}'
OWS = '{http://www.opengis.net/ows/1.1}'
XSI_SL = '{http://www.w3.org/2001/XMLSchema-instance}schemaLocation'
XML_LANG = '{http://www.w3.org/XML/1998/namespace}lang'


def own_qs(qs):
    """independent parse of a raw query string: list of (lower-cased key, value) with percent-decoding"""
    out = []
    for part in qs.split('&'):
        if not part:
            continue
        k, _, v = part.partition('=')
        try:
            k = urllib.parse.unquote_plus(k, encoding='utf-8', errors='replace')
            v = urllib.parse.unquote_plus(v, encoding='utf-8', errors='replace')
        except Exception:
            continue
        out.append((k.lower(), v))
    return out


def single(pairs, key):
    vals = [v for k, v in pairs if k == key]
    return vals[0] if len(vals) == 1 else None


def expected_size(item):
    """requested pixel size the statement speaks about, or None when the request does not define one"""
    req = item['req']
    if item['svc'] == 'wms':
        pairs = own_qs(req.get('qs') or '')
        r = single(pairs, 'request')
        if r is None or r.lower() not in ('getmap', 'map'):
            return None
        w, h = single(pairs, 'width'), single(pairs, 'height')
        if w is None or h is None or not re.match(r'^[0-9]{1,6}$', w) or not re.match(r'^[0-9]{1,6}$', h):
            return None
        if int(w) <= 0 or int(h) <= 0:
            return None
        return (int(w), int(h))
    if item['svc'] in ('wmts', 'wmts_rest', 'tms', 'kml'):
        return (TILE, TILE)
    return None


def skeleton(el):
    """element / attribute-name structure with all text removed; comments and PIs are structure"""
    from lxml import etree
    if el.tag is etree.Comment:
        return ('#comment',)
    if el.tag is etree.ProcessingInstruction:
        return ('#pi', el.target)
    if el.tag is etree.Entity:
        return ('#entity',)
    return (el.tag, tuple(sorted(el.attrib.keys())), tuple(skeleton(c) for c in el))


def skel_diff(a, b, path=''):
    if a == b:
        return None
    if a[0] != b[0] or len(a) < 3 or len(b) < 3:
        return '%s: %r vs %r' % (path, a[0], b[0])
    if a[1] != b[1]:
        return '%s/%s attributes %r vs %r' % (path, a[0], a[1], b[1])
    if len(a[2]) != len(b[2]):
        return '%s/%s has %d children %r vs %d %r' % (path, a[0], len(a[2]), [c[0] for c in a[2]][:6], len(b[2]),
                                                     [c[0] for c in b[2]][:6])
    for x, y in zip(a[2], b[2]):
        d = skel_diff(x, y, path + '/' + str(a[0]))
        if d:
            return d
    return 'differs'


def error_shape_problem(root):
    """hand-written shapes of the four error document kinds (from the OGC schemas, not from the templates).
    returns None if the root is not an error document, '' if it conforms, else a description"""
    from lxml import etree
    tag = root.tag

    def only_elements(el):
        return [c for c in el if isinstance(c.tag, str)]

    def strangers(el):
        return [c for c in el if not isinstance(c.tag, str)]

    def walk_strangers(el):
        for d in el.iter():
            if not isinstance(d.tag, str):
                return 'comment / processing instruction inside an error document'
        return ''
    if tag in ('ServiceExceptionReport', OGC + 'ServiceExceptionReport'):
        ns = OGC if tag.startswith('{') else ''
        if not set(root.attrib.keys()) <= {'version', XSI_SL}:
            return 'unexpected attributes on ServiceExceptionReport: %r' % sorted(root.attrib.keys())
        ch = only_elements(root)
        if len(ch) != 1 or ch[0].tag != ns + 'ServiceException':
            return 'children of ServiceExceptionReport: %r' % [c.tag for c in ch]
        if not set(ch[0].attrib.keys()) <= {'code', 'locator'}:
            return 'unexpected attributes on ServiceException: %r' % sorted(ch[0].attrib.keys())
        if len(ch[0]):
            return 'ServiceException has child nodes: %r' % [c.tag for c in ch[0]][:5]
        return walk_strangers(root)
    if tag == 'WMTException':
        if not set(root.attrib.keys()) <= {'version'}:
            return 'unexpected attributes on WMTException: %r' % sorted(root.attrib.keys())
        if len(root):
            return 'WMTException has child nodes: %r' % [c.tag for c in root][:5]
        return ''
    if tag == OWS + 'ExceptionReport':
        if not set(root.attrib.keys()) <= {'version', XML_LANG, XSI_SL}:
            return 'unexpected attributes on ExceptionReport: %r' % sorted(root.attrib.keys())
        ch = only_elements(root)
        if len(ch) != 1 or ch[0].tag != OWS + 'Exception':
            return 'children of ExceptionReport: %r' % [c.tag for c in ch]
        if not set(ch[0].attrib.keys()) <= {'exceptionCode', 'locator'}:
            return 'unexpected attributes on Exception: %r' % sorted(ch[0].attrib.keys())
        tx = only_elements(ch[0])
        if len(tx) != 1 or tx[0].tag != OWS + 'ExceptionText' or len(tx[0]) or tx[0].attrib:
            return 'children of Exception: %r' % [c.tag for c in tx]
        return walk_strangers(root)
    if tag == 'TileMapServerError':
        ch = only_elements(root)
        if root.attrib or len(ch) != 1 or ch[0].tag != 'Message' or len(ch[0]) or ch[0].attrib:
            return 'TileMapServerError shape: attrs %r children %r' % (sorted(root.attrib.keys()), [c.tag for c in ch])
        return walk_strangers(root)
    return None


def parse_xml(body):
    from lxml import etree
    parser = etree.XMLParser(recover=False, resolve_entities=False, no_network=True, load_dtd=False,
                             dtd_validation=False, huge_tree=True, remove_blank_text=False)
    return etree.fromstring(body, parser)


def marker_placement_xml(root, marker, payload):
    """-> (problems, reflected_ok, reflected_transformed).  marker may live in text / tail / attribute values only"""
    import html as htmlmod
    problems = []
    ok = transformed = 0
    low_payload = payload.lower() if payload else None
    mlow = marker.lower()

    def judge_text(t, where):
        nonlocal ok, transformed
        tl = t.lower()
        if mlow not in tl:
            return
        if low_payload and low_payload in tl:
            ok += 1
            return
        dec = htmlmod.unescape(payload).lower() if payload else None
        if dec and dec != low_payload and dec in tl:
            problems.append('entity / character reference of the payload was interpreted in %s: %r' % (where, t[:200]))
            return
        transformed += 1
    info = root.getroottree().docinfo
    for s in (info.doctype or '', info.internalDTD.name if info.internalDTD is not None else ''):
        if s and mlow in s.lower():
            problems.append('marker inside DOCTYPE: %r' % s[:200])
    for el in root.iter():
        if not isinstance(el.tag, str):
            if el.text and mlow in el.text.lower():
                problems.append('marker inside comment / processing instruction: %r' % (el.text or '')[:200])
            if el.tail:
                judge_text(el.tail, 'text')
            continue
        if mlow in el.tag.lower():
            problems.append('marker inside element name %r' % el.tag)
        for k, v in el.attrib.items():
            if mlow in k.lower():
                problems.append('marker inside attribute name %r of <%s>' % (k, el.tag))
            judge_text(v, 'attribute value')
        if el.text:
            judge_text(el.text, 'text')
        if el.tail:
            judge_text(el.tail, 'text')
    return problems, ok, transformed


class HTMLScan(object):
    """structure of an HTML document through the stdlib tokenizer (what a browser would make into elements)"""

    def __init__(self, text):
        from html.parser import HTMLParser
        self.tags = []
        self.script_text = []
        self.comments = []
        self.data = []
        outer = self

        class P(HTMLParser):
            def __init__(self):
                HTMLParser.__init__(self, convert_charrefs=True)
                self.in_script = False

            def handle_starttag(self, tag, attrs):
                outer.tags.append((tag, tuple(k for k, _v in attrs), tuple(v or '' for _k, v in attrs)))
                if tag == 'script':
                    self.in_script = True

            def handle_startendtag(self, tag, attrs):
                outer.tags.append((tag, tuple(k for k, _v in attrs), tuple(v or '' for _k, v in attrs)))

            def handle_endtag(self, tag):
                outer.tags.append(('/' + tag, (), ()))
                if tag == 'script':
                    self.in_script = False

            def handle_data(self, d):
                (outer.script_text if self.in_script else outer.data).append(d)

            def handle_comment(self, d):
                outer.comments.append(d)

            def handle_decl(self, d):
                outer.tags.append(('!decl', (), (d,)))

            def handle_pi(self, d):
                outer.tags.append(('?pi', (), (d,)))

            def unknown_decl(self, d):
                outer.tags.append(('!unknown', (), (d,)))
        p = P()
        p.feed(text)
        p.close()

    def skeleton(self):
        return tuple((t, tuple(sorted(a))) for t, a, _v in self.tags)


def marker_placement_html(scan, marker, payload):
    problems = []
    ok = 0
    mlow = marker.lower()
    for tag, names, values in scan.tags:
        if mlow in tag.lower():
            problems.append('marker inside HTML tag name %r' % tag)
        for n in names:
            if mlow in n.lower():
                problems.append('marker inside attribute name %r of <%s>' % (n, tag))
        if tag in ('!decl', '?pi', '!unknown'):
            for v in values:
                if mlow in v.lower():
                    problems.append('marker inside declaration / processing instruction %r' % v[:100])
        else:
            for n, v in zip(names, values):
                if mlow in v.lower():
                    if n.lower().startswith('on') or (n.lower() in ('href', 'src', 'action') and
                                                      v.strip().lower().startswith('javascript:')):
                        problems.append('marker inside script-valued attribute %s=%r' % (n, v[:100]))
                    else:
                        ok += 1
    for c in scan.comments:
        if mlow in c.lower():
            problems.append('marker inside HTML comment %r' % c[:100])
    for s in scan.script_text:
        sl = s.lower()
        pos = sl.find(mlow)
        while pos >= 0:
            ctx = s[max(0, pos - 80):pos + 80]
            # inside a script the payload is only data if it cannot leave its string literal: none of the
            # characters that could terminate the literal or the element may have survived
            if payload and payload in s and any(ch in payload for ch in ('"', "'", '</')):
                problems.append('payload verbatim inside <script>: %r' % ctx)
                break
            if payload and payload in s and any(ch in payload for ch in ('\n', '\r')):
                # a raw line break inside a JS string literal breaks the script but adds no markup and no code
                problems.append(('dc', 'line_break_inside_js_string_literal_of_demo_page'))
                break
            ok += 1
            pos = sl.find(mlow, pos + 1)
    for d in scan.data:
        if mlow in d.lower():
            ok += 1
    return problems, ok


def classify_type(ctype):
    c = (ctype or '').split(';')[0].strip().lower()
    if c.startswith('image/'):
        return 'image', c
    if c in XML_TYPES or c.endswith('+xml'):
        return 'xml', c
    if c == 'text/html':
        return 'html', c
    return 'other', c


def judge_protocol(run, obs):
    """WSGI protocol + header hygiene; returns (problems[(clause, text)], status, headers, ctype)"""
    probs = []
    if obs['exc']:
        probs.append(('exception_escaped', obs['exc'][-1800:]))
        return probs, None, [], None
    starts = obs['starts']
    if len(starts) != 1:
        probs.append(('start_response_calls', 'start_response called %d times' % len(starts)))
        if not starts:
            return probs, None, [], None
    status, headers, _ = starts[0]
    if obs['chunks'] and obs['started_before_first_chunk'] is False:
        probs.append(('start_response_late', 'first body chunk arrived before start_response'))
    if not isinstance(status, str) or not STATUS_RE.match(status):
        probs.append(('status_line', 'bad status line %r' % (status,)))
    if obs['bad_chunk']:
        probs.append(('body_chunk_type', 'body chunk of type %s' % obs['bad_chunk']))
    ctype = None
    clen = None
    if not isinstance(headers, list):
        probs.append(('headers_type', 'headers object is %r' % type(headers)))
        headers = list(headers or [])
    for h in headers:
        if not (isinstance(h, tuple) and len(h) == 2 and type(h[0]) is str and type(h[1]) is str):
            probs.append(('header_not_str_pair', 'header %r' % (h,)))
            continue
        k, v = h
        run.hit('headers_checked')
        if not TOKEN_RE.match(k):
            probs.append(('header_name', 'header name %r' % k))
        try:
            v.encode('latin-1')
        except UnicodeEncodeError:
            probs.append(('header_not_latin1', 'header %s: %r' % (k, v[:200])))
        if '\r' in v or '\n' in v or '\x00' in v:
            probs.append(('header_injection', 'header %s carries CR/LF/NUL: %r' % (k, v[:300])))
        elif re.search(r'[\x00-\x08\x0a-\x1f\x7f]', v):
            run.dc('header_value_with_other_control_character')
        if k.lower() == 'content-type':
            ctype = v
        if k.lower() == 'content-length':
            clen = v
    if clen is not None:
        if not re.match(r'^[0-9]+$', clen) or int(clen) != len(obs['body']):
            probs.append(('content_length', 'Content-Length %r but body has %d bytes' % (clen, len(obs['body']))))
    code = int(status[:3]) if isinstance(status, str) and status[:3].isdigit() else 0
    if code in (204, 304) and obs['body']:
        probs.append(('body_on_bodyless_status', 'status %s with %d body bytes' % (status, len(obs['body']))))
    return probs, status, headers, ctype


def judge(run, w, item, obs, twin_fetch):
    """all clauses for one response; returns list of (clause, text)"""
    probs, status, headers, ctype = judge_protocol(run, obs)
    if status is None:
        return probs, {'kind': 'none', 'status': None}
    body = obs['body']
    kind, ct = classify_type(ctype)
    code = int(status[:3]) if status[:3].isdigit() else 0
    info = {'kind': kind, 'status': code, 'ctype': ct}
    marker, payload = item.get('marker'), item.get('payload')
    if code >= 500:
        run.count('status_5xx')
    run.count('status_%dxx' % (code // 100))
    # ---- leaks ----
    for pat in w.leaks:
        if pat in body:
            probs.append(('leak', 'body contains %r: ...%r...' % (pat.decode('latin-1'),
                                                                 body[max(0, body.find(pat) - 150):body.find(pat) + 250])))
            break
    for k, v in headers:
        if isinstance(v, str):
            for pat in w.leaks:
                if pat.decode('latin-1') in v:
                    probs.append(('leak', 'header %s contains %r' % (k, v[:200])))
    # ---- images ----
    if kind == 'image' and code == 200 and body:
        from PIL import Image
        try:
            img = Image.open(io.BytesIO(body))
            fmt = img.format
            img.load()
            size = img.size
        except Exception as ex:
            probs.append(('image_undecodable', '%s body (%d bytes, starts %r) does not decode: %s' % (ct, len(body), body[:24], ex)))
        else:
            run.hit('images_decoded')
            want = PIL_FORMAT.get(ct, '?')
            if want == '?':
                probs.append(('image_type_unknown', 'declared type %r, actual %s' % (ctype, fmt)))
            elif want is not None and fmt != want and not (want == 'ICO' and fmt in ('ICO', 'PNG')):
                probs.append(('image_type_mismatch', 'declared %r but the data is %s' % (ctype, fmt)))
            exp = expected_size(item)
            if exp is not None:
                run.hit('image_sizes_judged')
                if tuple(size) != tuple(exp):
                    probs.append(('image_size', 'requested %r, got %r (%s)' % (exp, size, ct)))
            else:
                run.count('image_size_unjudged')
    elif kind == 'image' and code == 200 and not body and item['req'].get('m') != 'HEAD':
        probs.append(('image_empty', '200 %s with empty body' % ct))
    # ---- XML ----
    elif kind == 'xml' and body:
        passthrough = 'featureinfo' in item['op'] and code == 200
        try:
            root = parse_xml(body)
        except Exception as ex:
            root = None
            if passthrough and (not marker or marker.encode() not in body):
                run.dc('featureinfo_document_from_upstream_not_wellformed')
            else:
                probs.append(('xml_not_wellformed', '%s %s: %s ... body %r' % (status, ct, str(ex)[:200], body[:600])))
        if root is not None:
            run.hit('xml_parsed')
            shape = error_shape_problem(root)
            if shape is not None:
                run.hit('error_docs_shape_checked')
                if shape:
                    probs.append(('error_document_shape', '%s ... body %r' % (shape, body[:800])))
            if marker:
                p2, ok, tr = marker_placement_xml(root, marker, payload)
                for t in p2:
                    probs.append(('marker_outside_character_data', t + ' ... body %r' % body[:500]))
                if ok:
                    run.hit('markers_reflected_escaped', ok)
                    info['reflected'] = ok
                if tr:
                    run.count('markers_reflected_transformed', tr)
            if item.get('twin') is not None and not passthrough:
                tobs = twin_fetch()
                tp, tstatus, _th, tctype = judge_protocol(run, tobs)
                if tstatus == status and classify_type(tctype)[1] == ct and tobs['body']:
                    try:
                        troot = parse_xml(tobs['body'])
                    except Exception:
                        troot = None
                    if troot is not None and troot.tag == root.tag:
                        run.hit('skeletons_compared')
                        a, b = skeleton(root), skeleton(troot)
                        if a != b:
                            probs.append(('skeleton_changed', 'markup payload changed the element structure: %s ... body %r'
                                          % (skel_diff(a, b), body[:600])))
                    else:
                        run.count('twin_incomparable')
                else:
                    run.count('twin_incomparable')
    # ---- HTML ----
    elif kind == 'html' and body:
        passthrough = 'featureinfo' in item['op']
        if passthrough and not (marker and marker.encode() in body):
            run.dc('featureinfo_html_from_upstream')
        else:
            try:
                text = body.decode('utf-8')
            except UnicodeDecodeError as ex:
                text = None
                probs.append(('html_not_utf8', str(ex)[:200]))
            if text is not None:
                scan = HTMLScan(text)
                run.hit('html_checked')
                if marker:
                    p2, ok = marker_placement_html(scan, marker, payload)
                    for t in p2:
                        if isinstance(t, tuple):
                            run.dc(t[1])
                        else:
                            probs.append(('marker_outside_character_data', t))
                    if ok:
                        run.hit('markers_reflected_escaped', ok)
                        info['reflected'] = ok
                if item.get('twin') is not None:
                    tobs = twin_fetch()
                    tp, tstatus, _th, tctype = judge_protocol(run, tobs)
                    if tstatus == status and classify_type(tctype)[0] == 'html' and tobs['body']:
                        tscan = HTMLScan(tobs['body'].decode('utf-8', 'replace'))
                        run.hit('skeletons_compared')
                        if scan.skeleton() != tscan.skeleton():
                            a, b = scan.skeleton(), tscan.skeleton()
                            k = next((n for n in range(min(len(a), len(b))) if a[n] != b[n]), min(len(a), len(b)))
                            probs.append(('skeleton_changed', 'markup payload changed the HTML structure at tag #%d: %r vs %r'
                                          % (k, a[k:k + 3], b[k:k + 3])))
                    else:
                        run.count('twin_incomparable')
    else:
        if marker and marker.encode() in body:
            run.count('marker_in_non_markup_body')
    return probs, info


# ---------------------------------------------------------------------------------------------------------------------
# cases
# ---------------------------------------------------------------------------------------------------------------------

_FI_NOHIT = ('SERVICE=WMS&VERSION=1.1.1&REQUEST=GetFeatureInfo&LAYERS=covered&QUERY_LAYERS=covered&STYLES=&SRS=EPSG:4326&'
             'BBOX=10.0,50.0,15.0,55.0&WIDTH=100&HEIGHT=100&FORMAT=image/png&X=50&Y=50&INFO_FORMAT=image/png')
DIRECTED = [
    # empty feature-info answer declared with the client's INFO_FORMAT (open known finding: reproduced in every run)
    {'scn': 'A', 'svc': 'wms', 'op': 'featureinfo-nohit_1.1.1', 'mut': 'type', 'param': 'INFO_FORMAT', 'marker': None,
     'payload': 'image/png', 'req': {'m': 'GET', 'path': '/wms', 'h': {}, 'qs': _FI_NOHIT},
     'twin': {'m': 'GET', 'path': '/wms', 'h': {}, 'qs': _FI_NOHIT}},
    # image/blank exception handlers echo FORMAT as content type (open known finding: reproduced in every run)
    {'scn': 'A', 'svc': 'wms', 'op': 'getmap-error-blank_1.1.1', 'mut': 'markup', 'param': 'FORMAT', 'marker': 'zq900001',
     'payload': ',zq900001',
     'req': {'m': 'GET', 'path': '/service', 'h': {},
             'qs': 'SERVICE=WMS&VERSION=1.1.1&REQUEST=GetMap&LAYERS=nosuchlayer&STYLES=&SRS=EPSG:3857&BBOX=1000000.0,6000000.0,'
                   '1200000.0,6200000.0&WIDTH=120&HEIGHT=80&FORMAT=image/png,zq900001&EXCEPTIONS=application/vnd.ogc.se_blank'},
     'twin': {'m': 'GET', 'path': '/service', 'h': {},
              'qs': 'SERVICE=WMS&VERSION=1.1.1&REQUEST=GetMap&LAYERS=nosuchlayer&STYLES=&SRS=EPSG:3857&BBOX=1000000.0,6000000.0,'
                    '1200000.0,6200000.0&WIDTH=120&HEIGHT=80&FORMAT=image/png,zq900001&EXCEPTIONS=application/vnd.ogc.se_blank'}},
    {'scn': 'A', 'svc': 'wms', 'op': 'getmap-error-in-image_1.3.0', 'mut': 'markup', 'param': 'FORMAT', 'marker': 'zq900002',
     'payload': ',zq900002',
     'req': {'m': 'GET', 'path': '/ows', 'h': {},
             'qs': 'SERVICE=WMS&VERSION=1.3.0&REQUEST=GetMap&LAYERS=cached,nosuchlayer&STYLES=&CRS=EPSG:3857&BBOX=1000000.0,6000000.0,'
                   '1200000.0,6200000.0&WIDTH=333&HEIGHT=17&FORMAT=image/png,zq900002&EXCEPTIONS=INIMAGE'},
     'twin': {'m': 'GET', 'path': '/ows', 'h': {},
              'qs': 'SERVICE=WMS&VERSION=1.3.0&REQUEST=GetMap&LAYERS=cached,nosuchlayer&STYLES=&CRS=EPSG:3857&BBOX=1000000.0,6000000.0,'
                    '1200000.0,6200000.0&WIDTH=333&HEIGHT=17&FORMAT=image/png,zq900002&EXCEPTIONS=INIMAGE'}},
    # a cached png legend answered as image/jpeg (open known finding: reproduced in every run; the warm-up caches the png)
    {'scn': 'A', 'svc': 'wms', 'op': 'legendgraphic_1.1.1', 'mut': 'none', 'param': '-', 'marker': None, 'payload': None,
     'req': {'m': 'GET', 'path': '/service', 'h': {},
             'qs': 'SERVICE=WMS&VERSION=1.1.1&REQUEST=GetLegendGraphic&FORMAT=image/jpeg&LAYER=direct'}},
    # a truncated upstream image is stored and relayed (open known finding: reproduced in every run)
    {'scn': 'A', 'svc': 'tiles', 'op': 'tile', 'mut': 'none', 'param': '-', 'marker': None, 'payload': None,
     'req': {'m': 'GET', 'path': '/tiles/broken/gm/2/1/0.png', 'h': {}, 'qs': ''}},
]


# structural values of the headers that MapProxy builds its own URLs from, on the paths that use them in different ways (the
# welcome page is rendered outside the handler's catch-all): a small exhaustive product, run in every run
SWEEP_HOSTS = ['[::1]:8080', '[::1]', '[2001:db8::17]:80', '[2001:db8::17]:443', 'a:b:c', 'localhost:80', 'localhost:443',
               'localhost:8080', 'h:', ':80', ':', '::', 'h:80:80', '[::1', '::1]', 'h:-1', 'h: 80', ' h', 'h ', '', 'H.EXAMPLE',
               'xn--nxasmq6b.example', '1.2.3.4:65536', 'h' * 300, 'a..b', '.', 'h:80:', 'h::80', 'user@h:80', 'h/p:80', 'h,h2:80']
SWEEP_HEADERS = {'Host': SWEEP_HOSTS, 'X-Forwarded-Host': SWEEP_HOSTS,
                 'X-Forwarded-Proto': ['', 'https', 'http', 'a:b', ':', 'https,http', 'HTTPS ', 'ws', 'javascript:{m}', 'javascript',
                                       'data:text/html,{m}', '{m}'],
                 'X-Script-Name': ['', '/', '//', 'a', '/a:b', '/a/', '/a//b', '/a?b', '/a#b', '/%41', '/a b']}
SWEEP_PATHS = [('app', 'root', '/', ''), ('app', 'empty_path', '', ''),
               ('wms', 'capabilities_1.1.1', '/service', 'SERVICE=WMS&VERSION=1.1.1&REQUEST=GetCapabilities'),
               ('wms', 'capabilities_1.3.0', '/service', 'SERVICE=WMS&VERSION=1.3.0&REQUEST=GetCapabilities'),
               ('wmts', 'capabilities_kvp', '/service', 'SERVICE=WMTS&VERSION=1.0.0&REQUEST=GetCapabilities'),
               ('wmts_rest', 'capabilities', '/wmts/1.0.0/WMTSCapabilities.xml', ''),
               ('tms', 'root', '/tms/1.0.0/', ''), ('demo', 'index', '/demo/', ''), ('demo', 'redirect', '/demo', ''),
               ('kml', 'root_doc', '/kml/cached/EPSG3857/0/0/0.kml', '')]


def sweep_items():
    out = []
    n = 0
    for hname in sorted(SWEEP_HEADERS):
        for v in SWEEP_HEADERS[hname]:
            for svc, op, path, q in SWEEP_PATHS:
                for extra in ({}, {'scheme': 'https', 'port': '443'}):
                    if extra and hname != 'Host':
                        continue
                    n += 1
                    marker = None
                    if '{m}' in v:
                        # a value that carries a marker: where it lands in the document is judged as for every other input
                        marker = 'zq81%04dx' % n
                        v = v.replace('{m}', marker)
                    req = {'m': 'GET', 'path': path, 'h': {hname: v}, 'qs': q}
                    req.update(extra)
                    twin = {'m': 'GET', 'path': path, 'h': {hname: 'h.example' if 'Host' in hname else ('http' if 'Proto' in hname else '/a')},
                            'qs': q}
                    twin.update(extra)
                    out.append({'scn': 'A', 'svc': svc, 'op': op, 'mut': 'header', 'param': hname, 'marker': marker, 'payload': v,
                                'req': req, 'twin': twin})
    return out


# ---------------------------------------------------------------------------------------------------------------------
# overlapping requests: a WSGI server may hold several response iterables of one application at the same time (one per
# connection) and read them in any order; many pass a wsgi.file_wrapper that closes what it was given. No threads involved:
# the interleaving is chosen here, deterministically.
# ---------------------------------------------------------------------------------------------------------------------

OVERLAP_PATHS = [
    ('tiles', '/tiles/covtile/gm/3/0/0.png', ''),        # far from the source coverage: the layer's empty tile
    ('tiles', '/tiles/covtile/gm/3/1/1.png', ''),
    ('tiles', '/tiles/covtile/gm/4/2/3.png', ''),
    ('tms', '/tms/1.0.0/covtile/gm/2/0/0.png', ''),
    ('tiles', '/tiles/covtile/gm/3/4/4.png', ''),        # inside the coverage
    ('tiles', '/tiles/cached/gm/2/1/1.png', ''),
    ('wmts', '/service', 'SERVICE=WMTS&VERSION=1.0.0&REQUEST=GetTile&LAYER=covtile&STYLE=&TILEMATRIXSET=gm&TILEMATRIX=03&TILEROW=7&TILECOL=0&FORMAT=image/png'),
    ('wms', '/service', 'SERVICE=WMS&VERSION=1.1.1&REQUEST=GetMap&LAYERS=covtile&STYLES=&SRS=EPSG:3857&BBOX=-15000000,-9000000,-14000000,-8000000&WIDTH=64&HEIGHT=64&FORMAT=image/png&TRANSPARENT=TRUE'),
    ('wms', '/service', 'SERVICE=WMS&VERSION=1.1.1&REQUEST=GetCapabilities'),
    ('tms', '/tms/1.0.0/', ''),
    ('kml', '/kml/covtile/gm/0/0/0.kml', ''),
]


def run_overlap(run, case):
    rng = run.rng('overlap', case['i'])
    w = world(run, 'A')
    CURRENT[0] = w
    fw = bool(case['i'] % 2)
    k = rng.randint(2, 5)
    picks = [rng.choice(OVERLAP_PATHS[:5]) for _ in range(2)] + [rng.choice(OVERLAP_PATHS) for _ in range(k - 2)]
    rng.shuffle(picks)
    reqs = [{'m': 'GET', 'path': p_, 'qs': q_, 'h': {}, 'fw': fw} for (_, p_, q_) in picks]

    def alone(rq):
        o = call_app(w.app, rq)
        st = o['starts'][0] if o['starts'] else (None, [])
        return (st[0], o['body'], o['exc'])
    ref = [alone(rq) for rq in reqs]
    ref2 = [alone(rq) for rq in reqs]
    if ref != ref2:
        run.dc('overlap_requests_not_repeatable_when_alone')
        return
    if any(r_[2] for r_ in ref):
        run.violation({'clause': 'exception_escaped', 'cause': None, 'source': '-', 'docclass': 'none', 'mode': 'alone_twice', 'file_wrapper': fw},
                      {'i': case['i'], 'kind': 'overlap'}, 'request raised when issued alone: %r' % ([r_[2][-600:] for r_ in ref if r_[2]][:1],))
        return
    # all iterables first, then read them chunk by chunk in a shuffled round-robin, then close
    got = []
    opened = []
    for rq in reqs:
        env = make_environ(rq)
        rec = {'starts': [], 'chunks': [], 'exc': None}

        def start_response(status, headers, exc_info=None, rec=rec):
            rec['starts'].append((status, headers))
            return lambda data: rec['chunks'].append(data)
        try:
            it = w.app(env, start_response)
            opened.append((rec, iter(it), it))
        except Exception as ex:
            rec['exc'] = repr(ex)
            opened.append((rec, None, None))
    live = [o for o in opened if o[1] is not None]
    order = list(range(len(live)))
    while live:
        rng.shuffle(order)
        for idx in list(range(len(live))):
            rec, itr, it = live[idx]
            try:
                chunk = next(itr)
                rec['chunks'].append(chunk if isinstance(chunk, bytes) else repr(chunk).encode())
            except StopIteration:
                rec['done'] = True
            except Exception as ex:
                rec['exc'] = ''.join(traceback.format_exception(type(ex), ex, ex.__traceback__))[-1200:]
                rec['done'] = True
        live = [o for o in live if not o[0].get('done')]
    for rec, itr, it in opened:
        try:
            if it is not None and hasattr(it, 'close'):
                it.close()
        except Exception as ex:
            rec['exc'] = rec['exc'] or ('close(): %r' % ex)
    run.hit('overlap_rounds')
    run.hit('overlapped_requests', len(reqs))
    run.judge(('overlap', fw, tuple(sorted(set(p[0] for p in picks)))), nontrivial=True)
    for i, (rec, _, _) in enumerate(opened):
        st = rec['starts'][0] if rec['starts'] else (None, [])
        body = b''.join(c for c in rec['chunks'] if isinstance(c, bytes))
        clen = None
        for kk, vv in st[1]:
            if kk.lower() == 'content-length':
                clen = vv
        prob = None
        if rec['exc']:
            prob = ('exception_escaped', 'raised %s' % rec['exc'])
        elif st[0] != ref[i][0]:
            prob = ('status_differs_when_overlapped', 'status %r alone, %r overlapped' % (ref[i][0], st[0]))
        elif body != ref[i][1]:
            prob = ('body_differs_when_overlapped', 'body of %d bytes alone, %d bytes overlapped (Content-Length %s)' % (len(ref[i][1]), len(body), clen))
        elif clen is not None and clen.isdigit() and int(clen) != len(body):
            prob = ('content_length', 'Content-Length %s but %d body bytes' % (clen, len(body)))
        if prob:
            run.violation({'clause': prob[0], 'cause': None, 'source': '-', 'docclass': 'none', 'mode': 'overlapped', 'file_wrapper': fw},
                          {'i': case['i'], 'kind': 'overlap'},
                          '%d response iterables held at once (wsgi.file_wrapper %s), read in turns: request %s?%s: %s | all requests: %r' % (
                              len(reqs), 'passed' if fw else 'absent', reqs[i]['path'], reqs[i]['qs'], prob[1], [(r_['path'], r_['qs'][:60]) for r_ in reqs]))
            return


def gen_cases(run):
    yield {'i': -1, 'items': DIRECTED, 'must': True}
    for i in range(run.pick(120, 2000)):
        yield {'i': 500000 + i, 'kind': 'overlap', 'must': True}
    sw = sweep_items()
    for k in range(0, len(sw), 40):
        yield {'i': -2 - k // 40, 'items': sw[k:k + 40], 'must': True}
    n = run.pick(1800, 30000)
    for i in range(n):
        yield {'i': i}


def short_req(req):
    r = dict(req)
    for k in ('qs', 'path', 'body'):
        if isinstance(r.get(k), str) and len(r[k]) > 700:
            r[k] = r[k][:350] + '...[%d chars]...' % len(r[k]) + r[k][-100:]
    if r.get('h'):
        r['h'] = {k: (v if len(v) < 300 else v[:200] + '...[%d]' % len(v)) for k, v in r['h'].items()}
    return r


def run_case(run, case):
    if case.get('kind') == 'overlap':
        return run_overlap(run, case)
    items = case.get('items') or gen_requests(run, case['i'])
    for item in items:
        if run.out_of_time() and not run.replaying and not case.get('must'):
            run.count('requests_cut_by_budget')
            break
        w = world(run, item.get('scn', 'A'))
        CURRENT[0] = w
        run_item(run, w, case, item)


def run_item(run, w, case, item):
    req = item['req']
    obs = call_app(w.app, req)
    run.hit('requests')
    run.hit('requests_' + item['svc'])
    run.count('upstream_calls', 0)
    if obs['watchdog']:
        run.dc('no_answer_within_60s_watchdog')
        run.sample({'watchdog': short_req(req)})
        return
    if obs['stderr']:
        run.count('tracebacks_to_wsgi_errors')
    if item.get('marker'):
        run.hit('markers_sent')
    twin_cache = {}

    def twin_fetch():
        if 'o' not in twin_cache:
            run.count('twin_requests')
            twin_cache['o'] = call_app(w.app, item['twin'])
        return twin_cache['o']
    probs, info = judge(run, w, item, obs, twin_fetch)
    cls = (item['svc'], item['op'], item['param'], item['mut'])
    run.judge(cls, nontrivial=item['mut'] != 'none')
    if item['mut'] == 'none':
        run.hit('base_requests')
        if info.get('status') and info['status'] < 400:
            run.hit('base_requests_answered_ok')
        elif item['svc'] not in ('ows', 'app') and 'broken' not in str(req.get('qs')) + req['path']:
            run.count('base_request_not_ok:%s/%s' % (item['svc'], item['op']))
    seen = set()
    for clause, text in probs:
        if clause in seen:
            continue
        seen.add(clause)
        doc = doc_kind(info.get('kind'), obs['body'])
        src = where_of(item)
        if clause not in ('xml_not_wellformed', 'marker_outside_character_data', 'skeleton_changed', 'error_document_shape',
                          'header_injection', 'header_not_latin1', 'header_name'):
            src = '-'          # the mutation is not what makes these fail
        mech = {'clause': clause, 'cause': cause_of(clause, item, obs, text),
                'source': src if src.startswith('header:') or clause == 'header_injection' else src.split(':')[0],
                'docclass': 'response_headers' if clause.startswith('header_') else DOCCLASS.get(
                    doc.split(':')[-1] if doc else doc, doc if doc in ('html', 'image', 'other', 'none') else 'other_xml')}
        detail = ('%s\nrequest: %s\nscenario %s, %s/%s, mutation: %s of %s payload=%r\nresponse: %s %s (document: %s)\n%s' % (
            clause, short_req(req), item.get('scn'), item['svc'], item['op'], item['mut'], item['param'],
            (item.get('payload') or '')[:120], info.get('status'), info.get('ctype'), doc, text))
        run.violation(mech, {'i': case.get('i'), 'items': [item]}, detail)
    if not probs and len(run.samples) < 3 and info.get('reflected'):
        pos = obs['body'].find(item['marker'].encode())
        run.sample({'request': short_req(req), 'mutation': [item['mut'], item['param'], item['payload'][:80]],
                    'answer': [info.get('status'), info.get('ctype')],
                    'judged': 'well-formed, marker only in character data / attribute value, skeleton equal to the twin',
                    'body_around_marker': obs['body'][max(0, pos - 160):pos + 120].decode('latin-1')})


DOCCLASS = {'WMT_MS_Capabilities': 'capabilities', 'WMS_Capabilities': 'capabilities', 'Capabilities': 'capabilities',
            'TileMapService': 'capabilities', 'Services': 'capabilities', 'TileMap': 'capabilities',
            'ServiceExceptionReport': 'error_document', 'WMTException': 'error_document',
            'ExceptionReport': 'error_document', 'TileMapServerError': 'error_document', 'kml': 'kml'}
XML_FORBIDDEN = re.compile('[\x00-\x08\x0b\x0c\x0e-\x1f\ufffe\uffff]')
ROOT_RE = re.compile(rb'<\s*((?:[A-Za-z_][\w.-]*:)?[A-Za-z_][\w.-]*)')


def doc_kind(kind, body):
    if kind not in ('xml', 'html'):
        return kind
    if kind == 'html':
        return 'html'
    head = re.sub(rb'<\?.*?\?>|<!DOCTYPE[^\[>]*(\[.*?\])?\s*>|<!--.*?-->', b'', body[:1500], flags=re.S)
    m = ROOT_RE.search(head)
    return m.group(1).decode('latin-1') if m else 'xml'


def cause_of(clause, item, obs, text=''):
    broken = 'broken' in (item['req'].get('qs') or '') + item['req']['path']
    if clause == 'xml_not_wellformed':
        try:
            text = obs['body'].decode('utf-8')
        except UnicodeDecodeError:
            return 'body_not_utf8'
        return 'character_forbidden_in_xml' if XML_FORBIDDEN.search(text) else 'markup'
    if clause.startswith('header_') or clause.startswith('image_'):
        # is the declared content type a verbatim copy of a request parameter?
        ctype = None
        for k, v in (obs['starts'][0][1] if obs['starts'] else []):
            if isinstance(k, str) and k.lower() == 'content-type' and isinstance(v, str):
                ctype = v[:-len('; charset=utf-8')] if v.endswith('; charset=utf-8') else v
        known = set(PIL_FORMAT) | set(XML_TYPES) | {'text/plain', 'text/html', 'application/json'}
        if ctype and ctype.lower() not in known:
            for k, v in own_qs(item['req'].get('qs') or ''):
                # (MapProxy strips control and non-ASCII characters from the header value)
                if v and (v == ctype or ''.join(c for c in v if ' ' <= c <= '~') == ctype):
                    return 'parameter_%s_echoed_as_content_type' % k.upper()
    if clause == 'image_empty' and 'featureinfo' in item['op']:
        return 'empty_featureinfo_answer_declared_as_image'
    if clause.startswith('image_'):
        if 'legendgraphic' in item['op']:
            return 'legendgraphic_answer'
        return 'layer_with_faulting_upstream' if broken else 'healthy_upstream'
    if clause == 'header_injection':
        m = re.match(r'header (\S+) carries', text)
        return 'response_header:' + (m.group(1) if m else '?')
    return None


def where_of(item):
    p = item['param']
    last = item['mut'].split('+')[-1]
    if item['mut'].startswith('combo'):
        return 'combination'
    if last == 'none':
        return '-'
    if last == 'header':
        return 'header:' + p
    if p.startswith('seg') or p.startswith('path'):
        return 'path'
    if last in ('method', 'environ', 'querystring'):
        return last
    if last == 'markup_name':
        return 'param_name'
    return 'param:' + p


def teardown_shard(run):
    for w in WORLDS.values():
        run.count('demo_loopback_calls', w.loop_calls)
        run.count('demo_loopback_refused', w.loop_refused)
    if WORLDS:
        run.count('upstream_calls', list(WORLDS.values())[0].up.n)


def evidence_extra(total):
    return {'exhaustive': False, 'operations_in_catalogue': len(OPS),
            'mutator_classes': sorted(set(f.__name__[2:] for f, _w in SINGLE)) + ['combo'],
            'payloads': {'markup': len(PAYLOADS), 'type_confusion': len(TYPECONF) + len(BBOXCONF), 'header': len(HDR_VALUES),
                         'crlf': len(CRLF_VALUES)},
            'note': '5xx answers are counted (status_5xx) but are not violations; base_request_not_ok:* counts valid base '
                    'requests that were not answered 2xx/3xx (broken-upstream layers excluded); see dont_care for the '
                    'tolerance classes'}


if __name__ == '__main__':
    core.main(sys.modules[__name__])
