"""C16 - invalid or oversized requests are refused before they cost anything.

Scenarios (several grids x caches x layers, all tile services + WMS) are loaded through the real configuration
loader.  From the scenario's OWN capability documents (TMS root + TileMap, WMTS capabilities with
MatrixWidth/MatrixHeight, KML super-overlay documents, WMS-C TileSets) the harness derives, per matrix, the last valid
and the first invalid column/row/level and requests both sides of every boundary, astronomically large and
non-numeric addresses, formats and dimension values that are not offered, and WMS GetMap requests just below / at /
above `max_tile_limit` and `max_output_pixels` and mostly / entirely outside the grid.

Observed per request: status/body, the upstream call log (NOISE WMS / NOISE tile servers), a recording proxy around
every TileManager.cache (store_tile / store_tiles), an interpreter audit hook (file creation / rename / mkdir / ...
below the cache directory) and a before/after snapshot of the cache directory.
"""
import math
import os
import re
import shutil
import sys
import traceback
import urllib.parse
import xml.etree.ElementTree as ET

import numpy as np

from vlib import core, upstream, scenario
from vlib.gridmodel import GridModel

PID = 'C16'
LEVEL = 'exploration'
BUDGET_S = {'quick': 40, 'thorough': 600}
FLOORS = {'quick': {'scenarios': 50, 'valid_boundary_tiles': 3500, 'invalid_addresses': 17000, 'invalid_levels': 3300,
                    'invalid_formats': 1000, 'invalid_dimensions': 100, 'valid_dimension_tiles': 150,
                    'limit_requests_above': 700, 'limit_requests_at_or_below': 450, 'store_coords_checked': 3500,
                    'upstream_tile_coords_checked': 1300, 'upstream_getmap_checked': 900, 'costless_confirmed': 22000,
                    'cache_dir_snapshot_deep': 2000, 'tile_content_exact': 2400, 'tile_content_lossy': 1200,
                    'wms_outside_requests': 250, 'wms_partially_outside': 200,
                    'svc_tms': 5000, 'svc_tiles': 5000, 'svc_kml': 4500, 'svc_wmts_kvp': 3200, 'svc_wmts_rest': 3100,
                    'svc_wmsc': 4000, 'svc_wms': 1700},
          'thorough': {'scenarios': 850, 'valid_boundary_tiles': 75000, 'invalid_addresses': 340000, 'invalid_levels': 48000,
                       'invalid_formats': 16000, 'invalid_dimensions': 1900, 'valid_dimension_tiles': 2800,
                       'limit_requests_above': 11000, 'limit_requests_at_or_below': 7500, 'store_coords_checked': 69000,
                       'upstream_tile_coords_checked': 22000, 'upstream_getmap_checked': 18000,
                       'costless_confirmed': 430000, 'cache_dir_snapshot_deep': 43000, 'tile_content_exact': 54000,
                       'tile_content_lossy': 27000, 'wms_outside_requests': 4300, 'wms_partially_outside': 3300,
                       'svc_tms': 100000, 'svc_tiles': 100000, 'svc_kml': 89000, 'svc_wmts_kvp': 64000,
                       'svc_wmts_rest': 64000, 'svc_wmsc': 79000, 'svc_wms': 28000}}
RULE = ("case = one scenario (2-3 grids drawn from: global mercator / global geodetic profiles, global and local sqrt2 "
        "ladders, local grids whose bbox is not a multiple of the tile span, ll and ul origins, square and non-square "
        "tiles, factor-2 / free-factor / explicit resolution lists; png and jpeg caches on file/sqlite backends, WMS and "
        "tile sources; or 1-2 grids with `dimensions` layers on file caches) and the request plan derived from its own "
        "capabilities. evaluations = judged requests (valid boundary address => 200 + NOISE content of the addressed "
        "tile; invalid address/level/format/dimension => error or empty tile and zero upstream calls, zero store calls, "
        "no file-system mutation below the cache dir; GetMap above max_tile_limit / max_output_pixels => error and zero "
        "cost; below => image) + one per store coordinate / upstream tile coordinate / upstream GetMap rectangle checked "
        "against the independent grid model. distinct = (service, grid class, address class, what is invalid); "
        "non-trivial = everything except 'partially outside' GetMaps; GetMaps partially or entirely outside the grid are "
        "judged by the global invariant only (nothing outside the grid fetched or stored)")
ASSUMPTIONS = [
    "grid bbox / resolutions / tile size / origin are read as data from the loaded grid; matrix sizes are recomputed from "
    "them with exact rationals (vlib.gridmodel) and compared with what each capabilities document advertises; a matrix on "
    "which the two disagree is not judged (don't-care, C02/C03's subject)",
    "an error answer is any status >= 400 or an OGC ServiceException document; 5xx answers to malformed identifiers are "
    "counted separately but accepted as 'an error' (well-formedness is C18's subject)",
    "an empty tile is an image whose pixels are all equal or all fully transparent",
    "valid boundary tiles on png caches are compared pixel-exactly with NOISE (within one pixel when an upstream request "
    "was off the level's pixel lattice); jpeg caches by mean absolute error",
    "a GetMap with exactly max_tile_limit tiles is a don't-care: the statement speaks about requests exceeding the limit, "
    "the code refuses num_tiles >= limit",
    "WMS-C requests at grid levels that the WMS-C TileSet does not list (hidden level 0 of global profiles, odd sqrt2 "
    "levels) are not sent: they are in-grid but unadvertised, the statement does not decide them",
    "lock files below lock_dir / tile_lock_dir are not cache writes",
    "GetMap requests whose bbox lies partly or entirely outside the grid are judged by the invariant only (no tile address "
    "outside the grid is fetched or stored, every upstream GetMap rectangle overlaps the grid); how they are answered is "
    "not decided by the statement",
    "WMS-C (GetMap&TILED=true) is treated as a tile service: its TileSet capabilities and the WMS layer's <Dimension> "
    "element (nearestValue=0) say what is offered",
    "file-system observation: audit hook (open for writing, mkdir, rename, remove, link, symlink, utime, chmod, "
    "sqlite3.connect) on every request that must be free + directory snapshot to depth 4 on each and of the whole tree "
    "on a 10% sample (writes by C libraries into existing deep files would only show in the sampled full snapshots)",
]

MERC = 20037508.342789244
BIG = [2 ** 31, 2 ** 63, 10 ** 30]
NONNUM = ['a', '1.5', '0x1', '1e2', 'NaN', '']


# ---------------------------------------------------------------------------------------------------------------------
# file-system audit (installed once per process, gated by a global flag)

AUD = {'on': False, 'root': None, 'events': [], 'installed': False}
_WFLAGS = os.O_WRONLY | os.O_RDWR | os.O_CREAT | os.O_TRUNC | os.O_APPEND
_ONE = ('os.mkdir', 'os.remove', 'os.rmdir', 'os.truncate', 'os.utime', 'os.chmod', 'os.chown', 'sqlite3.connect',
        'shutil.rmtree')
_TWO = ('os.rename', 'os.link', 'os.symlink', 'shutil.copyfile', 'shutil.move', 'shutil.copytree')


def _audit(event, args):
    if not AUD['on']:
        return
    try:
        paths = ()
        if event == 'open':
            path, mode, flags = args
            if not isinstance(path, (str, bytes)) or not isinstance(flags, int) or not (flags & _WFLAGS):
                return
            paths = (path,)
        elif event in _ONE:
            paths = (args[0],)
        elif event in _TWO:
            paths = (args[0], args[1])
        else:
            return
        root = AUD['root']
        for p in paths:
            if not isinstance(p, (str, bytes)):
                continue
            p = os.path.abspath(os.fsdecode(p))
            if p.startswith(root):
                AUD['events'].append((event, p[len(root):]))
    except Exception:   # never disturb the code under test
        pass


def install_audit():
    if not AUD['installed']:
        sys.addaudithook(_audit)
        AUD['installed'] = True


def snapshot(root, depth=None):
    """{relative path: (size, mtime_ns) | None for directories}; depth=None: the whole tree, else only entries at most
    `depth` directory levels below root (cache dir / dimension dirs / level dirs or level databases)"""
    out = {}
    stack = [(root, 0)]
    while stack:
        dp, k = stack.pop()
        try:
            it = list(os.scandir(dp))
        except OSError:
            continue
        for e in it:
            rel = e.path[len(root):]
            try:
                if e.is_dir(follow_symlinks=False):
                    out[rel + '/'] = None
                    if depth is None or k + 1 < depth:
                        stack.append((e.path, k + 1))
                else:
                    st = e.stat(follow_symlinks=False)
                    out[rel] = (st.st_size, st.st_mtime_ns)
            except OSError:
                out[rel] = None
    return out


def snap_diff(a, b):
    ch = [k for k in b if k not in a] + [k for k in a if k not in b] + [k for k in a if k in b and a[k] != b[k]]
    return sorted(ch)


# ---------------------------------------------------------------------------------------------------------------------
# scenario generation

def gen_grid(rng, cls):
    g = {'origin': rng.choice(['ll', 'ul'])}
    sq = rng.choice([[64, 64], [64, 64], [64, 64], [128, 128], [256, 256]])
    ladder = 'f2'
    if cls == 'merc':
        g['srs'] = rng.choice(['EPSG:3857', 'EPSG:900913'])
        g['tile_size'] = sq
        g['num_levels'] = rng.choice([3, 4, 5, 6, 7, 9, 20])
    elif cls == 'geod':
        g['srs'] = 'EPSG:4326'
        g['tile_size'] = sq
        g['num_levels'] = rng.choice([3, 4, 5, 6, 8, 20])
    elif cls == 'sqrt2g':
        g['srs'] = rng.choice(['EPSG:3857', 'EPSG:4326'])
        g['tile_size'] = sq
        g['res_factor'] = 'sqrt2'
        g['num_levels'] = rng.choice([4, 5, 7, 8, 11, 12])
        ladder = 'sqrt2'
    else:
        srs = rng.choice(['EPSG:25832', 'EPSG:3857', 'EPSG:4326'])
        if srs == 'EPSG:3857':
            world = (-MERC, -MERC, MERC, MERC)
        elif srs == 'EPSG:4326':
            world = (-180.0, -90.0, 180.0, 90.0)
        else:
            world = (200000.0, 5200000.0, 900000.0, 6100000.0)
        W, H = world[2] - world[0], world[3] - world[1]
        bclass = rng.choice(['regional', 'integer', 'irrational'])
        if bclass == 'regional':
            x0 = world[0] + rng.random() * W * 0.6
            y0 = world[1] + rng.random() * H * 0.6
            bbox = (x0, y0, x0 + W * rng.uniform(0.05, 0.3), y0 + H * rng.uniform(0.05, 0.3))
        elif bclass == 'integer':
            x0 = float(int(world[0] + rng.random() * W * 0.5))
            y0 = float(int(world[1] + rng.random() * H * 0.5))
            if srs == 'EPSG:4326':
                bbox = (x0, y0, min(x0 + rng.choice([4, 10, 33]), 180.0), min(y0 + rng.choice([3, 7, 20]), 90.0))
            else:
                bbox = (x0, y0, x0 + rng.choice([1000, 12345, 70001]), y0 + rng.choice([777, 20000, 33333]))
        else:
            x0 = world[0] + math.pi * rng.uniform(0, W / 8)
            y0 = world[1] + math.e * rng.uniform(0, H / 8)
            bbox = (x0, y0, x0 + math.sqrt(2) * rng.uniform(W / 50, W / 4), y0 + math.sqrt(3) * rng.uniform(H / 50, H / 4))
        w_, h_ = bbox[2] - bbox[0], bbox[3] - bbox[1]
        if w_ > 4 * h_:
            bbox = (bbox[0], bbox[1], bbox[0] + 4 * h_, bbox[3])
        elif h_ > 4 * w_:
            bbox = (bbox[0], bbox[1], bbox[2], bbox[1] + 4 * w_)
        g['srs'] = srs
        g['bbox'] = list(bbox)
        g['tile_size'] = rng.choice([sq, sq, [96, 64], [32, 48], [64, 96], [128, 64]])
        if cls == 'sqrt2l':
            g['res_factor'] = 'sqrt2'
            g['num_levels'] = rng.randint(4, 10)
            ladder = 'sqrt2'
        else:
            ladder = rng.choice(['f2', 'f2', 'free', 'list'])
            if ladder == 'f2':
                g['num_levels'] = rng.randint(2, 8)
            elif ladder == 'free':
                g['res_factor'] = round(rng.uniform(1.3, 3.0), 3)
                g['num_levels'] = rng.randint(3, 6)
            else:
                ts = g['tile_size']
                r = max((bbox[2] - bbox[0]) / ts[0], (bbox[3] - bbox[1]) / ts[1]) * rng.uniform(0.4, 1.0)
                rs = []
                for _ in range(rng.randint(2, 6)):
                    rs.append(r)
                    r = r / rng.choice([2.0, 1.5, 3.0, 1.25, 5.0])
                g['res'] = rs
    ts = g['tile_size']
    gclass = '%s/%s/%s/%s' % (cls, g['origin'], 'sq' if ts[0] == ts[1] else 'nonsq', ladder)
    return g, gclass


def gen_spec(rng):
    kind = 'dims' if rng.random() < 0.3 else 'plain'
    spec = {'kind': kind, 'grids': {}, 'gclass': {}, 'caches': {}, 'src': {}}
    if kind == 'plain':
        classes = [rng.choice(['merc', 'geod', 'sqrt2g', 'sqrt2l', 'local', 'local', 'local']) for _ in range(rng.choice([2, 3]))]
    else:
        classes = [rng.choice(['local', 'local', 'merc', 'sqrt2l']) for _ in range(rng.choice([1, 2]))]
    need_px = 0
    for k, cls in enumerate(classes):
        gn = 'g%d' % k
        g, gc = gen_grid(rng, cls)
        spec['grids'][gn] = g
        spec['gclass'][gn] = gc
        fmt = rng.choice(['png', 'png', 'jpeg'])
        src = rng.choice(['wms', 'tile'])
        limit = rng.choice([4, 6, 9, 12])
        c = {'format': 'image/' + fmt, 'request_format': 'image/' + fmt, 'max_tile_limit': limit, 'meta_buffer': 0,
             'meta_size': rng.choice([[1, 1], [2, 2], [3, 2], [2, 1]])}
        if kind == 'dims':
            c['cache'] = {'type': 'file', 'directory_layout': rng.choice(['tc', 'tms'])}
        else:
            be = rng.choice(['file', 'file', 'file', 'file', 'sqlite'])
            c['cache'] = {'type': 'sqlite'} if be == 'sqlite' else {'type': 'file', 'directory_layout': rng.choice(['tc', 'tms', 'mp'])}
        spec['caches'][gn] = c
        spec['src'][gn] = src
        need_px = max(need_px, (limit + 4) * g['tile_size'][0] * g['tile_size'][1])
    if rng.random() < 0.4:
        # the documented place of the option is globals.cache.max_tile_limit; per-cache it is accepted with a warning
        spec['limit_global'] = rng.choice([4, 6, 9, 12])
        need_px = 0
        for gn in spec['caches']:
            spec['caches'][gn]['max_tile_limit'] = spec['limit_global']
            ts_ = spec['grids'][gn]['tile_size']
            need_px = max(need_px, (spec['limit_global'] + 4) * ts_[0] * ts_[1])
    for cand in ([300, 300], [200, 450], [400, 400], [800, 700], [1200, 1000], [2100, 2100]):
        if cand[0] * cand[1] >= need_px:
            break
    spec['max_output_pixels'] = cand if rng.random() < 0.8 else cand[0] * cand[1]
    spec['bbox_srs'] = rng.random() < 0.3
    spec['tms'] = {'use_grid_names': rng.random() < 0.6}
    if rng.random() < 0.3:
        spec['tms']['origin'] = 'nw'
    spec['kml'] = {'use_grid_names': rng.random() < 0.6}
    if kind == 'dims':
        dims = {'time': {'values': rng.choice([['2020', '2021', '2022'], ['2012-11-12T00:00:00', '2012-11-13T00:00:00'], ['a', 'b']])}}
        if rng.random() < 0.5:
            dims['time']['default'] = dims['time']['values'][0]
        tmpl = '/{Layer}/{TileMatrixSet}/{Time}'
        if rng.random() < 0.6:
            dims['elevation'] = {'values': rng.choice([[0, 100, 500], [1, 2]])}
            tmpl += '/{Elevation}'
        spec['dimensions'] = dims
        spec['wmts'] = {'restful': True, 'kvp': True, 'restful_template': tmpl + '/{TileMatrix}/{TileCol}/{TileRow}.{Format}'}
    else:
        spec['wmts'] = {'restful': True, 'kvp': True}
    return spec


def build_conf(spec):
    conf = scenario.base_conf()
    srs_all = []
    for gn, g in spec['grids'].items():
        conf['grids'][gn] = dict(g)
        if g['srs'] not in srs_all:
            srs_all.append(g['srs'])
        c = dict(spec['caches'][gn])
        if spec.get('limit_global'):
            c.pop('max_tile_limit')
            conf['globals']['cache']['max_tile_limit'] = spec['limit_global']
        ext = c['format'].split('/')[1]
        if spec['src'][gn] == 'wms':
            s = {'type': 'wms', 'req': {'url': 'http://w-%s/service?' % gn, 'layers': 'a'}, 'supported_srs': [g['srs']]}
            if spec['kind'] == 'dims':
                s['forward_req_params'] = ['time', 'elevation']
        else:
            s = {'type': 'tile', 'url': 'http://t-%s/t/%%(z)s/%%(x)s/%%(y)s.%s' % (gn, ext), 'grid': gn}
            c['meta_size'] = [1, 1]
        conf['sources']['s_' + gn] = s
        c['grids'] = [gn]
        c['sources'] = ['s_' + gn]
        conf['caches']['c_' + gn] = c
        ly = {'name': 'l_' + gn, 'title': 'layer ' + gn, 'sources': ['c_' + gn]}
        if spec['kind'] == 'dims':
            ly['dimensions'] = spec['dimensions']
        conf['layers'].append(ly)
        if spec['src'][gn] == 'wms':
            # the same upstream as a cascaded layer (no cache): the pixel limit is the only guard of such a layer
            conf['layers'].append({'name': 'd_' + gn, 'title': 'direct ' + gn, 'sources': ['s_' + gn]})
    gnames = sorted(spec['grids'])
    if len(gnames) >= 2 and spec['grids'][gnames[0]]['srs'] != spec['grids'][gnames[1]]['srs'] and spec['src'][gnames[0]] == 'wms' \
            and spec['kind'] != 'dims':
        # one cache on both grids (two SRS): the layer MapProxy builds for it dispatches on the request SRS; the tile limit of
        # the cache must hold behind that dispatcher too. Requests go to the first grid only.
        c = dict(spec['caches'][gnames[0]])
        if spec.get('limit_global'):
            c.pop('max_tile_limit', None)
        c['grids'] = [gnames[0], gnames[1]]
        c['sources'] = ['s_' + gnames[0]]
        conf['sources']['s_' + gnames[0]]['supported_srs'] = [spec['grids'][gnames[0]]['srs'], spec['grids'][gnames[1]]['srs']]
        conf['caches']['c_multi'] = c
        conf['layers'].append({'name': 'l_multi', 'title': 'cache on two grids', 'sources': ['c_multi']})
        if spec.get('stacked', True):
            # the same cache is also the source of another cache (cache on cache): the loader builds the objects of c_multi once
            # and hands them to both users; what the stacked cache needs must not change what the layer above enforces
            conf['caches']['c_stack'] = {'grids': [gnames[1]], 'sources': ['c_multi'], 'format': c.get('format', 'image/png'),
                                         'disable_storage': True}
            conf['layers'].append({'name': 'l_stack', 'title': 'cache on the cache on two grids', 'sources': ['c_stack']})
    conf['services'] = {'tms': dict(spec['tms']), 'kml': dict(spec['kml']), 'wmts': dict(spec['wmts']),
                        'wms': {'srs': srs_all, 'max_output_pixels': spec['max_output_pixels'],
                                'image_formats': ['image/png', 'image/jpeg'], 'md': {'title': 'c16'}}}
    if spec.get('bbox_srs'):
        # explicit extent per SRS (the union of the grids in that SRS): requests overhanging it are rendered as a smaller sub-query
        ext = {}
        for gn, g in spec['grids'].items():
            b = ext.get(g['srs'])
            gb = g['bbox']
            ext[g['srs']] = list(gb) if b is None else [min(b[0], gb[0]), min(b[1], gb[1]), max(b[2], gb[2]), max(b[3], gb[3])]
        conf['services']['wms']['bbox_srs'] = [{'srs': k, 'bbox': v} for k, v in sorted(ext.items())]
    return conf


# ---------------------------------------------------------------------------------------------------------------------
# recording proxy around TileManager.cache

class Recorder(object):
    def __init__(self, cache, name, ctx):
        self._c = cache
        self._name = name
        self._ctx = ctx
        self.tile_off = {}

    def _note(self, how, tiles, dimensions):
        ctx = self._ctx
        coords = [t.coord for t in tiles]
        off = max([c.extra.get('offgrid', 0.0) for c in ctx.up.log[ctx.log_i0:]] + [0.0])
        for c in coords:
            if c is not None:
                self.tile_off[tuple(c)] = off
        ctx.stores.append({'cache': self._name, 'how': how, 'coords': coords,
                           'dims': dict(dimensions) if dimensions else None})

    def store_tile(self, tile, dimensions=None):
        self._note('store_tile', [tile], dimensions)
        return self._c.store_tile(tile, dimensions=dimensions)

    def store_tiles(self, tiles, dimensions=None):
        tiles = list(tiles)
        self._note('store_tiles', tiles, dimensions)
        return self._c.store_tiles(tiles, dimensions=dimensions)

    def __getattr__(self, k):
        return getattr(self._c, k)


# ---------------------------------------------------------------------------------------------------------------------
# NOISE expectation (approach of checks/c04.judge_tile, generalised to any rectangle on a level's lattice)

def tile_rect(lat, x, y, z):
    r = lat.res[z]
    tw, th = lat.tile_size
    x0 = lat.bbox[0] + x * r * tw
    if lat.ul:
        y1 = lat.bbox[3] - y * r * th
        y0 = y1 - r * th
    else:
        y0 = lat.bbox[1] + y * r * th
        y1 = y0 + r * th
    return (x0, y0, x0 + r * tw, y1)


def judge_image(lat, z, rect, img, want_size, mode):
    """mode: 'exact' | 'near' (within one lattice pixel) | 'lossy' (jpeg; mean abs error).
    returns (ok, detail, judged pixels, how)"""
    arr = np.asarray(img.convert('RGB'))
    h, w = arr.shape[:2]
    if (w, h) != tuple(want_size):
        return False, 'image size %r != %r' % ((w, h), tuple(want_size)), 0, mode
    r = lat.res[z]
    gx, gy = lat.cells(z, rect, (w, h))
    exp = upstream.noise_rgb(z, gx, gy, 0)
    rx = (rect[2] - rect[0]) / w
    ry = (rect[3] - rect[1]) / h
    xc = rect[0] + (np.arange(w) + 0.5) * rx
    yc = rect[3] - (np.arange(h) + 0.5) * ry
    mx = (xc > lat.bbox[0] + r) & (xc < lat.bbox[2] - r)
    my = (yc > lat.bbox[1] + r) & (yc < lat.bbox[3] - r)
    mask = my[:, None] & mx[None, :]
    n = int(mask.sum())
    if n == 0:
        return True, 'no pixel inside', 0, mode
    if mode == 'lossy':
        if n < 64:
            return True, 'too few pixels for a lossy comparison', 0, mode
        lum = np.array([0.299, 0.587, 0.114])
        err = float(np.abs((arr[mask] * lum).sum(axis=1) - (exp[mask] * lum).sum(axis=1)).mean())
        if err < LOSSY_T:
            return True, '', n, mode
        return False, 'jpeg content: mean abs luminance error %.1f against NOISE of the addressed tile (same tile ~4, unrelated or shifted tiles ~56, threshold %d)' % (err, LOSSY_T), n, mode
    eq = (arr == exp).all(axis=2)
    if eq[mask].all():
        return True, '', n, 'exact'
    if mode == 'exact':
        bad = np.argwhere(mask & ~eq)
        return False, 'pixel mismatch at %d of %d judged pixels, first (row,col)=%r got %r expected %r' % (
            len(bad), n, tuple(bad[0]), tuple(arr[tuple(bad[0])]), tuple(exp[tuple(bad[0])])), n, mode
    ok = eq.copy()
    for dx in (-1, 0, 1):
        for dy in (-1, 0, 1):
            if dx or dy:
                ok |= (arr == upstream.noise_rgb(z, gx + dx, gy + dy, 0)).all(axis=2)
    if ok[mask].all():
        return True, '', n, 'near'
    bad = np.argwhere(mask & ~ok)
    return False, 'pixel not within one pixel of its content at %d of %d judged pixels, first (row,col)=%r got %r' % (
        len(bad), n, tuple(bad[0]), tuple(arr[tuple(bad[0])])), n, mode


LOSSY_T = 20


def is_empty_image(img):
    a = np.asarray(img.convert('RGBA')).astype(np.int32)
    if (a[..., 3] == 0).all():
        return True
    return bool((np.abs(a - a[0, 0]).max() <= 3))


# ---------------------------------------------------------------------------------------------------------------------
# capabilities parsers (independent of mapproxy)

WNS = {'w': 'http://www.opengis.net/wmts/1.0', 'ows': 'http://www.opengis.net/ows/1.1'}


def parse_tms_root(body):
    return re.findall(r'href="http://localhost(/tms/1\.0\.0/[^"]+)"', body.decode('utf-8', 'replace'))


def parse_tilemap(body):
    root = ET.fromstring(body)
    bb = root.find('BoundingBox')
    org = root.find('Origin')
    tf = root.find('TileFormat')
    ts = root.find('TileSets')
    return {'srs': root.findtext('SRS'),
            'bbox': tuple(float(bb.get(k)) for k in ('minx', 'miny', 'maxx', 'maxy')),
            'origin': (float(org.get('x')), float(org.get('y'))),
            'tile_size': (int(tf.get('width')), int(tf.get('height'))),
            'mime': tf.get('mime-type'), 'ext': tf.get('extension'), 'profile': ts.get('profile'),
            'sets': [(int(e.get('order')), float(e.get('units-per-pixel')), e.get('href')) for e in ts.findall('TileSet')]}


def parse_wmts(body):
    root = ET.fromstring(body)
    layers = {}
    for ly in root.findall('w:Contents/w:Layer', WNS):
        ident = ly.findtext('ows:Identifier', namespaces=WNS)
        dims = {}
        for dm in ly.findall('w:Dimension', WNS):
            dims[dm.findtext('ows:Identifier', namespaces=WNS)] = {
                'default': dm.findtext('w:Default', namespaces=WNS),
                'values': [v.text for v in dm.findall('w:Value', WNS)]}
        layers[ident] = {
            'formats': [e.text for e in ly.findall('w:Format', WNS)],
            'dims': dims,
            'sets': [e.findtext('w:TileMatrixSet', namespaces=WNS) for e in ly.findall('w:TileMatrixSetLink', WNS)],
            'templates': [e.get('template') for e in ly.findall('w:ResourceURL', WNS) if e.get('resourceType') == 'tile']}
    sets = {}
    for ms in root.findall('w:Contents/w:TileMatrixSet', WNS):
        ident = ms.findtext('ows:Identifier', namespaces=WNS)
        mats = []
        for tm in ms.findall('w:TileMatrix', WNS):
            mats.append({'id': tm.findtext('ows:Identifier', namespaces=WNS),
                         'scale': float(tm.findtext('w:ScaleDenominator', namespaces=WNS)),
                         'tw': int(tm.findtext('w:TileWidth', namespaces=WNS)),
                         'th': int(tm.findtext('w:TileHeight', namespaces=WNS)),
                         'mw': int(tm.findtext('w:MatrixWidth', namespaces=WNS)),
                         'mh': int(tm.findtext('w:MatrixHeight', namespaces=WNS))})
        sets[ident] = {'crs': ms.findtext('ows:SupportedCRS', namespaces=WNS), 'matrices': mats}
    return {'layers': layers, 'sets': sets}


def parse_wmsc(body):
    txt = body.decode('utf-8', 'replace')
    out = {}
    for m in re.finditer(r'<TileSet>(.*?)</TileSet>', txt, re.S):
        t = m.group(1)
        bb = re.search(r'<BoundingBox[^>]*minx="([^"]+)"\s+miny="([^"]+)"\s+maxx="([^"]+)"\s+maxy="([^"]+)"', t)
        out[re.search(r'<Layers>(.*?)</Layers>', t).group(1).strip()] = {
            'srs': re.search(r'<SRS>(.*?)</SRS>', t).group(1).strip(),
            'bbox': tuple(float(v) for v in bb.groups()),
            'res': [float(v) for v in re.search(r'<Resolutions>(.*?)</Resolutions>', t, re.S).group(1).split()],
            'size': (int(re.search(r'<Width>(\d+)</Width>', t).group(1)), int(re.search(r'<Height>(\d+)</Height>', t).group(1))),
            'format': re.search(r'<Format>(.*?)</Format>', t).group(1).strip()}
    return out


def parse_kml_hrefs(body):
    """[(z, x, y, ext)] of every href of a KML document"""
    out = []
    for m in re.finditer(r'<href>http://localhost/kml/[^<]*?/(-?\d+)/(-?\d+)/(-?\d+)\.(\w+)</href>', body.decode('utf-8', 'replace')):
        out.append((int(m.group(1)), int(m.group(2)), int(m.group(3)), m.group(4)))
    return out


# ---------------------------------------------------------------------------------------------------------------------

class Ctx(object):
    pass


def level_index(res_list, upp):
    for k, r in enumerate(res_list):
        if r == upp:
            return k
    for k, r in enumerate(res_list):
        if abs(r - upp) <= 1e-12 * abs(r):
            return k
    return None


def build(run, spec, d):
    conf = build_conf(spec)
    sc = scenario.Scenario(d, conf)
    ctx = Ctx()
    ctx.sc = sc
    ctx.spec = spec
    ctx.up = upstream.install()
    ctx.up.reset_log()
    ctx.log_i0 = 0
    ctx.stores = []
    ctx.cache_root = os.path.join(os.path.abspath(d), 'cache_data') + os.sep
    os.makedirs(ctx.cache_root, exist_ok=True)
    ctx.grids = {}
    ctx.hosts = {}
    ctx.layer_names = [l_['name'] for l_ in conf['layers']]
    for gn, g in spec['grids'].items():
        grid = sc.grid(gn)
        lat = upstream.Lattice.from_grid(grid)
        model = GridModel(grid.bbox, [grid.resolution(z) for z in range(grid.levels)], grid.tile_size, grid.origin)
        sizes = [model.grid_size(z) for z in range(grid.levels)]
        codes = [g['srs']] + (['EPSG:900913', 'EPSG:3857'] if g['srs'] in ('EPSG:3857', 'EPSG:900913') else [])
        ctx.up.register('w-' + gn, upstream.NoiseWMS(lat, codes))
        ctx.up.register('t-' + gn, upstream.NoiseTiles(lat, sizes))
        ctx.hosts['w-' + gn] = gn
        ctx.hosts['t-' + gn] = gn
        tm = sc.tile_manager('c_' + gn)
        rec = Recorder(tm.cache, 'c_' + gn, ctx)
        tm.cache = rec
        ctx.grids[gn] = {'lat': lat, 'model': model, 'sizes': sizes, 'levels': grid.levels, 'ul': lat.ul,
                         'res': lat.res, 'bbox': lat.bbox, 'ts': tuple(grid.tile_size), 'rec': rec, 'tm': tm,
                         'fmt': spec['caches'][gn]['format'].split('/')[1], 'src': spec['src'][gn],
                         'gclass': spec['gclass'][gn], 'srs': g['srs'], 'limit': spec['caches'][gn]['max_tile_limit']}
    return ctx


# ---------------------------------------------------------------------------------------------------------------------
# plan: capabilities -> request descriptors

def corner_addresses(rng, nx, ny):
    """valid boundary addresses and invalid ones around them: [(x, y, expectation, what, address class)]"""
    out = []
    seen = set()
    for x, y, ac in ((0, 0, 'first/first'), (nx - 1, 0, 'last/first'), (0, ny - 1, 'first/last'), (nx - 1, ny - 1, 'last/last')):
        if (x, y) not in seen:
            seen.add((x, y))
            out.append((x, y, 'valid', 'none', ac))
    yv = rng.choice([0, ny - 1])
    xv = rng.choice([0, nx - 1])
    out += [(-1, yv, 'invalid', 'col', 'minus1'), (nx, yv, 'invalid', 'col', 'max_plus1'),
            (xv, -1, 'invalid', 'row', 'minus1'), (xv, ny, 'invalid', 'row', 'max_plus1'),
            (nx, ny, 'invalid', 'col+row', 'max_plus1'), (-1, -1, 'invalid', 'col+row', 'minus1')]
    names = {2 ** 31: '2^31', 2 ** 63: '2^63', 10 ** 30: '10^30'}
    for b in BIG:
        if rng.random() < 0.7:
            out.append((b, yv, 'invalid', 'col', names[b]))
        if rng.random() < 0.7:
            out.append((xv, b, 'invalid', 'row', names[b]))
    if rng.random() < 0.5:
        out.append((-(2 ** 63), yv, 'invalid', 'col', '-2^63'))
    for s in rng.sample(NONNUM, 2):
        out.append((s, yv, 'invalid', 'col', 'nonnumeric'))
    for s in rng.sample(NONNUM, 2):
        out.append((xv, s, 'invalid', 'row', 'nonnumeric'))
    return out


def pick_levels(rng, n, k):
    if n <= k:
        return list(range(n))
    mid = rng.sample(range(1, n - 1), k - 2) if n > 2 and k > 2 else []
    return sorted(set([0, n - 1] + mid))


def invalid_level_ids(nlev, fmtr):
    return [('-1', 'minus1'), (fmtr(nlev), 'max_plus1'), (str(nlev), 'max_plus1'), (fmtr(nlev + 7), 'far'), ('99', 'far'),
            ('4294967296', '2^32'), ('a', 'nonnumeric'), ('1.5', 'nonnumeric'), ('0x1', 'nonnumeric')]


def other_formats(ext):
    return [e for e in ('png', 'jpeg', 'gif', 'tiff', 'webp', 'xyz') if e != ext]


def flip_if(g, y, L, req_origin):
    """internal row for a public row addressed with req_origin ('sw' | 'nw' | None = grid's own)"""
    ny = g['sizes'][L][1]
    if req_origin is None:
        return y
    if (req_origin == 'nw') == g['ul']:
        return y
    return ny - 1 - y


def make_plan(run, ctx, rng):
    sc = ctx.sc
    spec = ctx.spec
    plan = []
    K = run.pick(3, 5)
    dims_off = spec.get('dimensions')

    def add(svc, gn, url, exp, what, addr, **kw):
        d = {'svc': svc, 'g': gn, 'url': url, 'exp': exp, 'what': what, 'addr': addr}
        d.update(kw)
        plan.append(d)

    # ---- TMS -----------------------------------------------------------------------------------------------------
    r = sc.get('/tms/1.0.0/')
    tms_paths = parse_tms_root(r.body) if r.code == 200 else []
    if not tms_paths:
        run.count('tms_root_without_layers')
    ctx.tms = {}
    for p in tms_paths:
        lname = p[len('/tms/1.0.0/'):]
        if not re.match(r'l_(g\d+)', lname):
            continue        # the layer on two grids is probed through WMS only
        gn = re.match(r'l_(g\d+)', lname).group(1)
        g = ctx.grids[gn]
        try:
            tm = parse_tilemap(sc.get(p).body)
        except Exception:
            run.count('tms_tilemap_not_parsable')
            continue
        Ls = [level_index(g['res'], s[1]) for s in tm['sets']]
        if None in Ls or not Ls:
            run.dc('tms_units_per_pixel_not_a_grid_level')
            continue
        stride = (Ls[1] - Ls[0]) if len(Ls) > 1 else (2 if '/sqrt2' in g['gclass'] else 1)
        ctx.tms[gn] = {'path': lname, 'Ls': Ls, 'stride': stride, 'ext': tm['ext'], 'tm': tm}
        if tm['ext'] != g['fmt'] or tm['tile_size'] != g['ts']:
            run.dc('tms_tilemap_format_or_size_differs_from_cache')
            continue
        adv = GridModel(tm['bbox'], [s[1] for s in tm['sets']], tm['tile_size'], 'll')
        base = '/tms/1.0.0/' + lname
        for k in pick_levels(rng, len(Ls), K):
            L = Ls[k]
            nx, ny = adv.grid_size(k)
            if (nx, ny) != g['sizes'][L]:
                run.dc('caps_vs_model_matrix_size:tms')
                continue
            for x, y, exp, what, ac in corner_addresses(rng, nx, ny):
                kw = {}
                if exp == 'valid':
                    kw['coord'] = [x, flip_if(g, y, L, 'sw'), L]
                add('tms', gn, '%s/%d/%s/%s.%s' % (base, tm['sets'][k][0], x, y, tm['ext']), exp, what, ac, **kw)
        for zid, ac in invalid_level_ids(len(Ls), str):
            add('tms', gn, '%s/%s/0/0.%s' % (base, zid, tm['ext']), 'invalid', 'level', ac)
        for e in rng.sample(other_formats(tm['ext']), 3):
            k = rng.randrange(len(Ls))
            add('tms', gn, '%s/%d/0/0.%s' % (base, tm['sets'][k][0], e), 'invalid', 'format', e)
        # ---- /tiles: same layers without the profile offset, optional ?origin= ---------------------------------
        tbase = '/tiles/' + lname
        nlev = len([z for z in range(g['levels']) if z * stride < g['levels']])
        default_origin = spec['tms'].get('origin')
        for z in pick_levels(rng, nlev, K):
            L = z * stride
            nx, ny = g['sizes'][L]
            for x, y, exp, what, ac in corner_addresses(rng, nx, ny):
                o = rng.choice([None, 'sw', 'nw'])
                kw = {}
                if exp == 'valid':
                    eff = o or default_origin
                    kw['coord'] = [x, flip_if(g, y, L, eff), L]
                    if eff is None:
                        # documented default is 'sw', implemented default is the grid's own origin: accept both
                        kw['alt'] = [x, flip_if(g, y, L, 'sw'), L]
                add('tiles', gn, '%s/%d/%s/%s.%s%s' % (tbase, z, x, y, tm['ext'], '?origin=' + o if o else ''), exp, what, ac, **kw)
        for zid, ac in invalid_level_ids(nlev, str):
            add('tiles', gn, '%s/%s/0/0.%s%s' % (tbase, zid, tm['ext'], rng.choice(['', '?origin=nw'])), 'invalid', 'level', ac)
        for e in rng.sample(other_formats(tm['ext']), 2):
            add('tiles', gn, '%s/%d/0/0.%s' % (tbase, rng.randrange(nlev), e), 'invalid', 'format', e)

    # ---- KML: walk the super-overlay documents along the far corner ----------------------------------------------
    for gn, g in ctx.grids.items():
        stride = ctx.tms[gn]['stride'] if gn in ctx.tms else (2 if g['gclass'].endswith('/sqrt2') else 1)
        lpath = ('l_%s/%s' % (gn, gn)) if spec['kml'].get('use_grid_names') else ('l_%s/%s' % (gn, g['srs'].replace(':', '').upper()))
        if not spec['kml'].get('use_grid_names') and g['srs'] == 'EPSG:3857':
            lpath = 'l_%s/EPSG3857' % gn
        kbase = '/kml/' + lpath
        adv = {}
        ext = g['fmt']
        frontier = [(0, 0, 0)]
        first = True
        ndocs = 0
        while frontier and ndocs < run.pick(24, 60):
            nxt = {}
            for (z, x, y) in frontier:
                rr = sc.get(kbase if first else '%s/%d/%d/%d.kml' % (kbase, z, x, y))
                first = False
                ndocs += 1
                if rr.code != 200:
                    # observed: the document of every tile of the last level fails with a TypeError (500)
                    run.count('kml_document_of_last_level_not_200' if (z + 1) * stride >= g['levels'] else 'kml_document_not_200')
                    continue
                for (cz, cx, cy, ce) in parse_kml_hrefs(rr.body):
                    if ce == 'kml':
                        nxt[(cz, cx, cy)] = 1
                    else:
                        ext = ce
                        adv.setdefault(cz, set()).add((cx, cy))
            cand = sorted(nxt)
            frontier = []
            if cand:
                for key in (lambda c: (c[1], c[2]), lambda c: (c[2], c[1]), lambda c: (c[1] + c[2],)):
                    m = max(cand, key=key)
                    if m not in frontier:
                        frontier.append(m)
        ctx.kml_adv = adv
        if ext != g['fmt']:
            run.dc('kml_format_differs_from_cache')
            continue
        zs = sorted(adv)
        for z in [zs[i] for i in pick_levels(rng, len(zs), K)] if zs else []:
            L = z * stride
            if L >= g['levels']:
                run.dc('kml_links_beyond_last_level')
                continue
            nx = 1 + max(c[0] for c in adv[z])
            ny = 1 + max(c[1] for c in adv[z])
            if (nx, ny) != g['sizes'][L]:
                run.dc('caps_vs_model_matrix_size:kml')
                continue
            for x, y, exp, what, ac in corner_addresses(rng, nx, ny):
                kw = {}
                if exp == 'valid':
                    kw['coord'] = [x, flip_if(g, y, L, 'sw'), L]
                add('kml', gn, '%s/%d/%s/%s.%s' % (kbase, z, x, y, ext), exp, what, ac, **kw)
                if exp == 'invalid' and rng.random() < 0.3:
                    add('kml', gn, '%s/%d/%s/%s.kml' % (kbase, z, x, y), exp, what + ':doc', ac)
        nlev = (max(zs) + 1) if zs else 1
        if nlev != len([z for z in range(g['levels']) if z * stride < g['levels']]):
            # the documents do not link down to the last level of the grid (e.g. no sub tile qualifies on ul grids whose
            # tiles hang below the bbox): what KML advertises is then not the grid's level range - not judged
            run.dc('kml_documents_do_not_reach_the_last_grid_level')
        else:
            for zid, ac in invalid_level_ids(nlev, str):
                add('kml', gn, '%s/%s/0/0.%s' % (kbase, zid, ext), 'invalid', 'level', ac)
        for e in rng.sample(other_formats(ext), 2):
            add('kml', gn, '%s/%d/0/0.%s' % (kbase, rng.choice(zs) if zs else 0, e), 'invalid', 'format', e)

    # ---- WMTS (REST capabilities are the reference; KVP capabilities must agree where they can be rendered) ------
    r = sc.get('/wmts/1.0.0/WMTSCapabilities.xml')
    try:
        wm = parse_wmts(r.body) if r.code == 200 else None
    except Exception:
        wm = None
    rk = sc.get('/service?SERVICE=WMTS&REQUEST=GetCapabilities&VERSION=1.0.0')
    if rk.code != 200:
        # observed: the KVP capabilities template fails (NameError dimension_keys) for layers with dimensions
        run.count('wmts_kvp_capabilities_not_200')
    elif wm is not None:
        try:
            if parse_wmts(rk.body)['sets'] != wm['sets']:
                run.count('wmts_kvp_and_rest_capabilities_differ')
        except Exception:
            run.count('wmts_kvp_capabilities_not_parsable')
    if wm is None:
        run.count('wmts_rest_capabilities_not_200')
    else:
        for lname, ly in wm['layers'].items():
            if not re.match(r'l_(g\d+)', lname):
                continue
            gn = re.match(r'l_(g\d+)', lname).group(1)
            g = ctx.grids[gn]
            fm = ly['formats'][0]
            ext = fm.split('/')[1]
            if ext != g['fmt'] or not ly['templates']:
                run.dc('wmts_format_differs_from_cache')
                continue
            tmpl = ly['templates'][0].replace('http://localhost', '')
            dvals = {}
            for dn, dd in ly['dims'].items():
                dvals[dn] = dd
            for sn in ly['sets']:
                ms = wm['sets'][sn]
                mats = ms['matrices']

                def rest(mid, col, row, e=ext, dv=None):
                    u = tmpl.replace('{TileMatrixSet}', sn).replace('{TileMatrix}', str(mid)).replace('{TileCol}', str(col)).replace('{TileRow}', str(row))
                    for dn in dvals:
                        u = u.replace('{%s}' % dn, str((dv or {}).get(dn, 'default')))
                    if e != ext:
                        u = u[:-len(ext)] + e
                    return u

                def kvp(mid, col, row, e=ext, dv=None, fmt=True):
                    u = '/service?SERVICE=WMTS&VERSION=1.0.0&REQUEST=GetTile&LAYER=%s&STYLE=&TILEMATRIXSET=%s&TILEMATRIX=%s&TILECOL=%s&TILEROW=%s' % (
                        lname, sn, mid, col, row)
                    if fmt:
                        u += '&FORMAT=image/' + e
                    for dn, v in (dv or {}).items():
                        u += '&%s=%s' % (dn, v)
                    return u
                idx = pick_levels(rng, len(mats), K)
                for k in idx:
                    m = mats[k]
                    L = k
                    if (m['mw'], m['mh']) != g['sizes'][L] or (m['tw'], m['th']) != g['ts']:
                        run.dc('caps_vs_model_matrix_size:wmts')
                        continue
                    for x, y, exp, what, ac in corner_addresses(rng, m['mw'], m['mh']):
                        kw = {}
                        if exp == 'valid':
                            kw['coord'] = [x, flip_if(g, y, L, 'nw'), L]
                            if dvals:
                                kw['dv'] = {dn: dd['default'] for dn, dd in dvals.items()}
                        add('wmts_rest', gn, rest(m['id'], x, y), exp, what, ac, **kw)
                        add('wmts_kvp', gn, kvp(m['id'], x, y), exp, what, ac, **kw)
                nlev = len(mats)
                for zid, ac in invalid_level_ids(nlev, lambda v: '%02d' % v):
                    add('wmts_rest', gn, rest(zid, 0, 0), 'invalid', 'level', ac)
                    add('wmts_kvp', gn, kvp(zid, 0, 0), 'invalid', 'level', ac)
                for e in rng.sample(other_formats(ext), 3):
                    k = rng.randrange(nlev)
                    add('wmts_rest', gn, rest(mats[k]['id'], 0, 0, e=e), 'invalid', 'format', e)
                    add('wmts_kvp', gn, kvp(mats[k]['id'], 0, 0, e=e), 'invalid', 'format', e)
                add('wmts_kvp', gn, kvp(mats[0]['id'], 0, 0, fmt=False), 'invalid', 'format', 'missing')
                # ---- dimensions ---------------------------------------------------------------------------------
                if dvals:
                    names = sorted(dvals)
                    for _ in range(run.pick(6, 12)):
                        k = rng.randrange(nlev)
                        m = mats[k]
                        if (m['mw'], m['mh']) != g['sizes'][k]:
                            continue
                        x, y = rng.randrange(m['mw']), rng.randrange(m['mh'])
                        dv = {dn: rng.choice(dvals[dn]['values'] + ['default']) for dn in names}
                        eff = {dn: (dvals[dn]['default'] if v == 'default' else v) for dn, v in dv.items()}
                        add('wmts_rest', gn, rest(m['id'], x, y, dv=dv), 'valid', 'none', 'offered_dimension',
                            coord=[x, flip_if(g, y, k, 'nw'), k], dv=eff)
                        x, y = rng.randrange(m['mw']), rng.randrange(m['mh'])
                        sub = {dn: dv[dn] for dn in names if rng.random() < 0.6}
                        eff = {dn: (dvals[dn]['default'] if sub.get(dn, 'default') == 'default' else sub[dn]) for dn in names}
                        add('wmts_kvp', gn, kvp(m['id'], x, y, dv=sub), 'valid', 'none', 'offered_dimension',
                            coord=[x, flip_if(g, y, k, 'nw'), k], dv=eff)
                    for _ in range(run.pick(8, 16)):
                        k = rng.randrange(nlev)
                        m = mats[k]
                        x, y = rng.randrange(m['mw']), rng.randrange(m['mh'])
                        bad_dim = rng.choice(names)
                        offered = [str(v) for v in dvals[bad_dim]['values']]
                        badv = rng.choice([v for v in ('1999', '2023', 'x', '2020x', '20', '-1', '7', 'none', 'c', '2012-11-14T00:00:00',
                                                       '0.0', '00', 'A', offered[0] + '0', offered[-1][:-1] or 'q', offered[0].upper() + '_')
                                           if v not in offered and v != 'default' and v != ''])
                        dv = {dn: rng.choice(dvals[dn]['values'] + ['default']) for dn in names}
                        dv[bad_dim] = badv
                        if rng.random() < 0.5:
                            add('wmts_rest', gn, rest(m['id'], x, y, dv=dv), 'invalid', 'dimension', bad_dim)
                        else:
                            add('wmts_kvp', gn, kvp(m['id'], x, y, dv=dv), 'invalid', 'dimension', bad_dim)

    # ---- WMS-C and plain WMS -----------------------------------------------------------------------------------------
    r = sc.get('/service?SERVICE=WMS&VERSION=1.1.1&REQUEST=GetCapabilities&TILED=true')
    try:
        wc = parse_wmsc(r.body) if r.code == 200 else {}
    except Exception:
        wc = {}
        run.count('wmsc_capabilities_not_parsable')
    mop = spec['max_output_pixels']
    mop = mop[0] * mop[1] if isinstance(mop, list) else mop
    mopw = spec['max_output_pixels'][0] if isinstance(spec['max_output_pixels'], list) else int(math.sqrt(mop))
    for gn, g in ctx.grids.items():
        lname = 'l_' + gn
        lat = g['lat']
        tw, th = g['ts']
        W0 = '/service?SERVICE=WMS&VERSION=1.1.1&REQUEST=GetMap&LAYERS=%s&STYLES=&SRS=%s' % (lname, g['srs'])

        def getmap(bbox, size, fmt, extra='', layers=None):
            w0 = W0 if layers is None else W0.replace('LAYERS=%s&' % lname, 'LAYERS=%s&' % layers)
            return '%s&BBOX=%s&WIDTH=%d&HEIGHT=%d&FORMAT=image/%s%s' % (w0, ','.join(repr(float(v)) for v in bbox), size[0], size[1], fmt, extra)

        def rect_any(x, y, L):
            return tile_rect(lat, x, y, L)
        ts = wc.get(lname)
        if ts is None:
            run.dc('wmsc_tileset_missing')
        elif ts['size'] != g['ts'] or ts['format'] != 'image/' + g['fmt']:
            run.dc('wmsc_tileset_differs_from_cache')
        else:
            Ls = [level_index(g['res'], v) for v in ts['res']]
            Ls = [L for L in Ls if L is not None]
            advm = GridModel(ts['bbox'], ts['res'], ts['size'], 'll')
            for k in pick_levels(rng, len(Ls), K):
                L = Ls[k]
                nx, ny = g['sizes'][L]
                if advm.grid_size(k) != (nx, ny):
                    run.dc('caps_vs_model_matrix_size:wmsc')
                    continue
                for x, y, exp, what, ac in corner_addresses(rng, nx, ny):
                    if not isinstance(x, int) or not isinstance(y, int):
                        continue
                    kw = {'coord': [x, y, L]} if exp == 'valid' else {}
                    add('wmsc', gn, getmap(rect_any(x, y, L), (tw, th), g['fmt'], '&TILED=true'), exp, what, ac, **kw)
            # resolutions that are not levels of the grid at all
            r_last, r0 = g['res'][-1], g['res'][0]
            bx = g['bbox']
            for rr, ac in ((r_last / 2.0, 'finer_than_last'), (r_last / 3.7, 'finer_than_last'), (r0 * 2.0, 'coarser_than_first'), (r0 * 5.0, 'coarser_than_first')):
                b = (bx[0], bx[3] - th * rr, bx[0] + tw * rr, bx[3]) if g['ul'] else (bx[0], bx[1], bx[0] + tw * rr, bx[1] + th * rr)
                add('wmsc', gn, getmap(b, (tw, th), g['fmt'], '&TILED=true'), 'invalid', 'level', ac)
            L = rng.choice(Ls)
            for e in ('png', 'jpeg', 'gif'):
                if e != g['fmt']:
                    add('wmsc', gn, getmap(rect_any(0, 0, L), (tw, th), e, '&TILED=true'), 'invalid', 'format', e)
            add('wmsc', gn, getmap(rect_any(0, 0, L), (tw + 1, th), g['fmt'], '&TILED=true'), 'invalid', 'tile_size', 'plus1')
            add('wmsc', gn, getmap(rect_any(0, 0, L), (tw * 2, th * 2), g['fmt'], '&TILED=true'), 'invalid', 'tile_size', 'double')
            if dims_off:
                names = sorted(dims_off)
                for _ in range(run.pick(3, 6)):
                    L = rng.choice(Ls)
                    nx, ny = g['sizes'][L]
                    x, y = rng.randrange(nx), rng.randrange(ny)
                    dn = rng.choice(names)
                    offered = [str(v) for v in dims_off[dn]['values']]
                    add('wmsc', gn, getmap(rect_any(x, y, L), (tw, th), g['fmt'], '&TILED=true&%s=%s' % (dn.upper(), rng.choice(offered))),
                        'valid', 'none', 'offered_dimension', coord=[x, y, L], dv_any=True)
                    x, y = rng.randrange(nx), rng.randrange(ny)
                    badv = rng.choice([v for v in ('1999', 'x', '7', '2023', 'zz') if v not in offered])
                    add('wmsc', gn, getmap(rect_any(x, y, L), (tw, th), g['fmt'], '&TILED=true&%s=%s' % (dn.upper(), badv)),
                        'invalid', 'dimension', dn)
        if spec['kind'] != 'plain':
            continue
        # ---- tile-count limit: aligned n x m tile rectangles at native resolution ------------------------------------
        limit = g['limit']
        cands = [L for L in range(g['levels']) if g['sizes'][L][0] * g['sizes'][L][1] > limit]

        def shapes(pred, nx, ny):
            return [(n, m) for n in range(1, min(nx, 14) + 1) for m in range(1, min(ny, 14) + 1) if pred(n * m)]
        for L in (rng.sample(cands, min(len(cands), 2)) if cands else []):
            nx, ny = g['sizes'][L]
            todo = []
            below = shapes(lambda t: t < limit, nx, ny)
            if below:
                best = max(t[0] * t[1] for t in below)
                todo.append(('below', rng.choice([t for t in below if t[0] * t[1] == best]), 'limit_minus'))
                todo.append(('below', rng.choice(below), 'small'))
            at = shapes(lambda t: t == limit, nx, ny)
            if at:
                todo.append(('at_tiles', rng.choice(at), 'at_limit'))
            above = shapes(lambda t: t > limit, nx, ny)
            if above:
                least = min(t[0] * t[1] for t in above)
                todo.append(('above', rng.choice([t for t in above if t[0] * t[1] == least]), 'limit_plus'))
                todo.append(('above', rng.choice(above), 'more'))
            for exp, (n, m), ac in todo:
                x0 = rng.randrange(nx - n + 1)
                y0 = rng.randrange(ny - m + 1)
                a = rect_any(x0, y0, L)
                b = rect_any(x0 + n - 1, y0 + m - 1, L)
                bbox = (min(a[0], b[0]), min(a[1], b[1]), max(a[2], b[2]), max(a[3], b[3]))
                size = (n * tw, m * th)
                if size[0] * size[1] > mop:
                    run.dc('tile_limit_request_would_exceed_pixel_limit')
                    continue
                add('wms', gn, getmap(bbox, size, 'png'), exp, 'max_tile_limit', ac, rect=list(bbox), size=list(size), L=L, ntiles=n * m)
                if exp == 'above' and 'l_multi' in ctx.layer_names and gn == sorted(ctx.grids)[0]:
                    add('wms', gn, getmap(bbox, size, 'png', layers='l_multi'), exp, 'max_tile_limit', ac + ':cache_on_two_grids',
                        size=list(size), L=L, ntiles=n * m)
        # a whole row of the deepest level through a thin strip with few pixels: far above the tile limit
        L = g['levels'] - 1
        nx, ny = g['sizes'][L]
        if nx > limit:
            a = rect_any(0, 0, L)           # row 0 touches the grid's own origin edge, so it overlaps the grid bbox
            lo, hi = max(a[1], g['bbox'][1]), min(a[3], g['bbox'][3])
            hpx = int((hi - lo) * 0.5 / g['res'][L])
            if hpx >= 4:
                mid = (lo + hi) / 2.0
                bbox = (g['bbox'][0], mid - hpx * g['res'][L] / 2.0, g['bbox'][2], mid + hpx * g['res'][L] / 2.0)
                add('wms', gn, getmap(bbox, (40, hpx), 'png'), 'above', 'max_tile_limit', 'whole_row_thin_strip', ntiles=nx)
        # ---- pixel limit: a small region inside one tile of the last level, scaled up --------------------------------
        x0, y0 = rng.randrange(nx), rng.randrange(ny)
        a = rect_any(x0, y0, L)
        inner = (a[0] + (a[2] - a[0]) * 0.2, a[1] + (a[3] - a[1]) * 0.2, a[0] + (a[2] - a[0]) * 0.7, a[1] + (a[3] - a[1]) * 0.7)
        inside = inner[0] > g['bbox'][0] and inner[1] > g['bbox'][1] and inner[2] < g['bbox'][2] and inner[3] < g['bbox'][3]
        if not inside:
            x0, y0 = 0, 0
            a = rect_any(0, 0, L)
            inner = (max(a[0], g['bbox'][0]), max(a[1], g['bbox'][1]), min(a[2], g['bbox'][2]), min(a[3], g['bbox'][3]))
            inner = (inner[0] + (inner[2] - inner[0]) * 0.2, inner[1] + (inner[3] - inner[1]) * 0.2,
                     inner[0] + (inner[2] - inner[0]) * 0.7, inner[1] + (inner[3] - inner[1]) * 0.7)
        mw = mopw
        mh = mop // mw
        px = [('below', (mw - 1, mh), 'limit_minus'), ('below', (max(mw // 2, 1), max(mh // 2, 1)), 'small'),
              ('above', (mw + 1, mh), 'limit_plus'), ('above', (mw, mh + 1), 'limit_plus'), ('above', (1, mop + 1), 'limit_plus_thin'),
              ('above', (mop + 1, 1), 'limit_plus_thin'), ('above', (mw * 3, mh * 2), 'more'), ('above', (100000, 100000), 'huge'),
              ('above', (2 ** 31, 2), 'huge')]
        if mw * mh == mop:
            px.append(('below', (mw, mh), 'at_limit'))
            px.append(('below', (mh, mw), 'at_limit'))
        for exp, size, ac in px:
            if exp == 'below' and (size[0] > 20 * size[1] or size[1] > 20 * size[0]):
                continue
            add('wms', gn, getmap(inner, size, rng.choice(['png', 'jpeg'])), exp, 'max_output_pixels', ac, size=list(size))
            if exp == 'above' and ac in ('limit_plus', 'more', 'huge'):
                # the same oversized picture for a bbox that lies mostly / wholly outside the grid (and outside the SRS extent
                # when one is configured): the size asked for decides, not what is left after clipping
                gb = g['bbox']
                gw_, gh_ = gb[2] - gb[0], gb[3] - gb[1]
                for nm, bb in (('mostly_outside', (gb[0] - 9 * gw_, gb[1] - 9 * gh_, gb[0] + 0.2 * gw_, gb[1] + 0.2 * gh_)),
                               ('wholly_outside', (gb[2] + 0.5 * gw_, gb[1], gb[2] + 1.5 * gw_, gb[3]))):
                    if g['srs'] == 'EPSG:4326' and not (-180 <= bb[0] and bb[2] <= 180 and -90 <= bb[1] and bb[3] <= 90):
                        continue
                    add('wms', gn, getmap(bb, size, 'png'), exp, 'max_output_pixels', ac + ':' + nm, size=list(size))
            if g['src'] == 'wms' and (exp == 'above' or ac == 'small'):
                # the limit must not depend on the kind of layer or on vendor parameters: cascaded layer, mixed lists,
                # WMS-C flag in several spellings, unknown vendor parameters
                for _ in range(2):
                    lay = rng.choice(['d_' + gn, 'd_' + gn, 'd_%s,l_%s' % (gn, gn), 'l_%s,d_%s' % (gn, gn), lname])
                    vend = rng.choice(['', '&TILED=true', '&tiled=TRUE', '&Tiled=True', '&TILED=false', '&TILED=1', '&EXCEPTIONS=application/vnd.ogc.se_inimage',
                                       '&TRANSPARENT=TRUE', '&DPI=300&MAP_RESOLUTION=300', '&TILED=true&EXCEPTIONS=application/vnd.ogc.se_blank'])
                    if lay == lname and vend == '':
                        continue
                    if exp != 'above' and 'TILED=true' in vend.upper().replace('TRUE', 'true') and 'l_' in lay:
                        continue    # a cached layer answers a TILED request of another size with an error: not this clause
                    add('wms', gn, getmap(inner, size, rng.choice(['png', 'jpeg']), vend, layers=lay), exp, 'max_output_pixels',
                        ac + ':' + ('direct' if lay.startswith('d_') and ',' not in lay else ('mixed' if ',' in lay else 'cached')) +
                        (':vendor' if vend else ''), size=list(size))
        # ---- bboxes entirely / mostly outside the grid ------------------------------------------------------------------
        bx = g['bbox']
        gw, gh = bx[2] - bx[0], bx[3] - bx[1]
        rr = g['res'][rng.randrange(g['levels'])]
        sw, sh = 100, 80
        for name, (ox, oy) in (('left', (bx[0] - 3 * sw * rr, bx[1])), ('right', (bx[2] + 2 * sw * rr, bx[1])),
                               ('below', (bx[0], bx[1] - 4 * sh * rr)), ('above', (bx[0], bx[3] + 2 * sh * rr)),
                               ('far', (bx[0] + 1000 * gw, bx[1] + 1000 * gh))):
            if g['srs'] == 'EPSG:4326' and not (-360 < ox < 360 and -180 < oy < 180):
                continue
            add('wms', gn, getmap((ox, oy, ox + sw * rr, oy + sh * rr), (sw, sh), 'png'), 'outside', 'bbox', name)
        for name, (ox, oy) in (('corner_ll', (bx[0] - 0.9 * sw * rr, bx[1] - 0.9 * sh * rr)), ('corner_ur', (bx[2] - 0.1 * sw * rr, bx[3] - 0.1 * sh * rr)),
                               ('edge_left', (bx[0] - 0.95 * sw * rr, bx[1] + 0.3 * gh))):
            add('wms', gn, getmap((ox, oy, ox + sw * rr, oy + sh * rr), (sw, sh), 'png'), 'partial', 'bbox', name)
    rng.shuffle(plan)
    return plan


# ---------------------------------------------------------------------------------------------------------------------
# execution and judgement

COSTLESS = ('invalid', 'above')


def in_grid(g, c):
    x, y, z = c
    if not all(isinstance(v, int) for v in (x, y, z)):
        return False
    if z < 0 or z >= g['levels']:
        return False
    nx, ny = g['sizes'][z]
    return 0 <= x < nx and 0 <= y < ny


def execute(run, ctx, d, fail):
    up = ctx.up
    g = ctx.grids[d['g']]
    i0 = len(up.log)
    ctx.log_i0 = i0
    s0 = len(ctx.stores)
    costless = d['exp'] in COSTLESS
    # shallow snapshot (new cache / dimension / level directories, level databases) around every request that must be
    # free; the whole tree around a sample of them (file creation deep in the tree is the audit hook's job)
    deep = costless and (run.replaying or ctx.deep_rng.random() < 0.1)
    snap0 = snapshot(ctx.cache_root, None if deep else 4) if costless else None
    AUD['events'] = []
    AUD['root'] = ctx.cache_root
    AUD['on'] = True
    exc = None
    r = None
    try:
        r = ctx.sc.get(d['url'])
    except Exception as ex:
        exc = ex
        tb = traceback.format_exc()[-1500:]
    finally:
        AUD['on'] = False
    calls = up.log[i0:]
    stores = ctx.stores[s0:]
    fsev = list(AUD['events'])
    svc = d['svc']
    run.hit('svc_' + svc)
    cls = (svc, g['gclass'], d['addr'], d['what'], d['exp'])
    mech0 = {'service': svc, 'expect': d['exp'], 'what': d['what'], 'addr': d['addr'], 'source': g['src'],
             'origin': 'ul' if g['ul'] else 'll', 'kind': ctx.spec['kind'], 'ladder': g['gclass'].split('/')[3],
             'grid': g['gclass'].split('/')[0]}

    def bad(clause, detail):
        m = dict(mech0)
        m['clause'] = clause
        fail(m, 'case %s: %s request %s (expectation %s: %s/%s, grid %s %s sizes %s) -> %s | %s' % (
            ctx.case_i, svc, d['url'], d['exp'], d['what'], d['addr'], d['g'], g['gclass'],
            g['sizes'][:6], ('%d %s %r' % (r.code, r.content_type, r.body[:700])) if r is not None else 'exception', detail))

    if exc is not None:
        bad('exception_escaped_wsgi_app', '%r\n%s' % (exc, tb))
        return
    # ---- the global invariant: nothing outside the grid is ever fetched or stored ---------------------------------
    for s in stores:
        gs = ctx.grids[s['cache'][2:]]
        for c in s['coords']:
            if c is None:
                continue
            run.hit('store_coords_checked')
            run.judge(None)
            if not in_grid(gs, tuple(c)):
                bad('store_outside_grid', '%s(%r) on %s: coordinate is outside the grid (level sizes %r)' % (s['how'], c, s['cache'], gs['sizes']))
                return
        if ctx.spec['kind'] == 'dims' and s['dims']:
            for dn, v in s['dims'].items():
                off = ctx.spec['dimensions'].get(dn.lower())
                if off is None or dn.startswith('_'):
                    continue
                run.hit('store_dimensions_checked')
                if str(v) not in [str(o) for o in off['values']]:
                    bad('store_unoffered_dimension', '%s on %s with dimensions %r: %s=%r is not an offered value %r' % (
                        s['how'], s['cache'], s['dims'], dn, v, off['values']))
                    return
    for c in calls:
        gs = ctx.grids.get(ctx.hosts.get(c.host))
        if gs is None:
            bad('upstream_unknown_host', 'upstream call %s' % c.url[:300])
            return
        if c.host.startswith('t-'):
            t = c.extra.get('tile')
            run.hit('upstream_tile_coords_checked')
            run.judge(None)
            if t is None or c.extra.get('outside') or not in_grid(gs, tuple(t)):
                bad('upstream_tile_outside_grid', 'upstream tile URL %s addresses %r, outside the grid (level sizes %r)' % (c.url, t, gs['sizes']))
                return
        else:
            q = c.extra.get('q')
            run.hit('upstream_getmap_checked')
            run.judge(None)
            if q is None:
                bad('upstream_getmap_unparsable', 'upstream call %s' % c.url[:300])
                return
            b = q['bbox']
            gb = gs['bbox']
            if not (min(b[2], gb[2]) - max(b[0], gb[0]) > 0 and min(b[3], gb[3]) - max(b[1], gb[1]) > 0):
                bad('upstream_getmap_outside_grid', 'upstream GetMap bbox %r does not overlap the grid bbox %r' % (b, gb))
                return
    if svc == 'wmsc' and ctx.spec.get('bbox_srs'):
        # a WMS-C request is also an ordinary GetMap. When its bbox overhangs the extent configured for the SRS (bbox_srs),
        # MapProxy renders the part inside the extent as an ordinary map request and the TILED flag plays no part: neither
        # the WMS-C refusals nor the exact-tile content apply (the invariants above still do)
        q_ = urllib.parse.parse_qs(urllib.parse.urlsplit(d['url']).query)
        try:
            bb_ = [float(v) for v in q_['BBOX'][0].split(',')]
            srs_ = q_['SRS'][0]
            ext_ = None
            for gg in ctx.spec['grids'].values():
                if gg['srs'] == srs_:
                    gb_ = gg['bbox']
                    ext_ = list(gb_) if ext_ is None else [min(ext_[0], gb_[0]), min(ext_[1], gb_[1]), max(ext_[2], gb_[2]), max(ext_[3], gb_[3])]
            if ext_ is not None and not (bb_[0] >= ext_[0] and bb_[1] >= ext_[1] and bb_[2] <= ext_[2] and bb_[3] <= ext_[3]):
                run.dc('wmsc_request_overhanging_the_srs_extent_is_served_as_plain_getmap')
                return
        except (KeyError, ValueError):
            pass
    # ---- what this request had to look like -------------------------------------------------------------------------
    is_img = r.content_type.startswith('image/')
    is_err = r.code >= 400 or (b'ServiceException' in r.body[:600] and not is_img)
    exp = d['exp']
    if exp in ('partial', 'outside'):
        # judged by the invariant above only: the statement does not say how a map request next to / overlapping the
        # grid edge is answered, only that nothing outside the grid may be fetched or stored for it
        run.judge(cls, nontrivial=(exp == 'outside'))
        run.hit('wms_partially_outside' if exp == 'partial' else 'wms_outside_requests')
        if exp == 'outside':
            run.count('outside_getmap_without_upstream_call' if not calls else 'outside_getmap_with_upstream_call')
        return
    if costless:
        run.judge(cls)
        mon = {'invalid': {'level': 'invalid_levels', 'format': 'invalid_formats', 'dimension': 'invalid_dimensions'}.get(
            d['what'].split(':')[0], 'invalid_addresses'), 'above': 'limit_requests_above'}[exp]
        if d['what'] == 'tile_size':
            mon = 'invalid_tile_sizes'
        run.hit(mon)
        if not is_err:
            if r.code == 200 and is_img:
                try:
                    empty = is_empty_image(r.image())
                except Exception as ex:
                    bad('undecodable_image', repr(ex))
                    return
                if exp == 'above':
                    bad('over_limit_request_answered_with_an_image', 'the request exceeds %s' % d['what'])
                    return
                if not empty:
                    bad('invalid_request_answered_with_content', 'a 200 image that is not an empty tile')
                    return
                run.hit('answered_with_empty_tile')
            else:
                bad('invalid_request_not_answered_with_error', 'status %d, content type %s' % (r.code, r.content_type))
                return
        else:
            run.hit('answered_with_error')
            if r.code >= 500 and exp == 'invalid':
                run.count('invalid_answered_with_5xx:' + svc)
        if calls:
            bad('upstream_call', '%d upstream call(s): %s' % (len(calls), [c.url[:200] for c in calls[:3]]))
            return
        if stores:
            bad('cache_store', 'store calls: %r' % ([(s['how'], s['coords'][:4], s['dims']) for s in stores[:3]],))
            return
        if fsev:
            bad('cache_dir_mutation', 'audit events below the cache directory: %r' % (fsev[:6],))
            return
        diff = snap_diff(snap0, snapshot(ctx.cache_root, None if deep else 4))
        if diff:
            bad('cache_dir_mutation', 'cache directory changed: %r' % (diff[:6],))
            return
        run.hit('cache_dir_snapshot_deep' if deep else 'cache_dir_snapshot_shallow')
        run.hit('costless_confirmed')
        return
    if exp == 'at_tiles':
        run.dc('getmap_with_exactly_max_tile_limit_tiles')
        run.count('at_tile_limit_refused' if is_err else 'at_tile_limit_served')
        return
    # ---- requests that must be served -------------------------------------------------------------------------------
    run.judge(cls)
    if exp == 'below':
        run.hit('limit_requests_at_or_below')
        if (r.code != 200 or not is_img) and d.get('rect') and b'max_tile_limit' in r.body and not (
                d['rect'][0] >= g['bbox'][0] - 1e-9 and d['rect'][1] >= g['bbox'][1] - 1e-9 and
                d['rect'][2] <= g['bbox'][2] + 1e-9 and d['rect'][3] <= g['bbox'][3] + 1e-9):
            # the tile rectangle overhangs the grid bbox (border tiles): MapProxy clips the request to the extent first,
            # a strip of one or two pixels is left whose resolution selects another level with more tiles. The statement
            # binds requests ABOVE the limit; how many tiles a clipped request needs is not ours to say
            run.dc('below_tile_limit_request_overhanging_the_grid_refused')
            return
        if r.code != 200 or not is_img:
            bad('request_within_limits_refused', 'expected a normal image (%s, %s)' % (d['what'], d['addr']))
            return
        try:
            img = r.image()
        except Exception as ex:
            bad('undecodable_image', repr(ex))
            return
        if list(img.size) != list(d['size']):
            bad('request_within_limits_wrong_size', 'image size %r, requested %r' % (img.size, d['size']))
            return
        if d.get('rect') and not (
                d['rect'][0] >= g['bbox'][0] - 1e-9 and d['rect'][1] >= g['bbox'][1] - 1e-9 and
                d['rect'][2] <= g['bbox'][2] + 1e-9 and d['rect'][3] <= g['bbox'][3] + 1e-9):
            # rendered as a sub-query of the part inside the extent (of the SRS, if configured, else of the layer = the grid
            # bbox) and pasted into the answer: where the content lands is C01's subject (sub-image placement, a recorded
            # finding there), not judged here
            run.dc('getmap_overhanging_the_srs_extent_content_not_judged')
            return
        if d.get('rect') and g['fmt'] == 'png':
            # the picture itself is C01's subject; here it only has to be the addressed part of the pyramid
            ok, detail, n, how = judge_image(g['lat'], d['L'], d['rect'], img, d['size'], 'near')
            run.hit('getmap_content_' + how)
            if not ok:
                bad('content', detail)
        return
    # exp == 'valid'
    mon = 'valid_boundary_tiles' if d['addr'] != 'offered_dimension' else 'valid_dimension_tiles'
    run.hit(mon)
    if r.code != 200 or not is_img:
        bad('valid_address_refused', 'the address is inside the advertised matrix')
        return
    try:
        img = r.image()
    except Exception as ex:
        bad('undecodable_image', repr(ex))
        return
    coord = tuple(d['coord'])
    off = max([c.extra.get('offgrid', 0.0) for c in calls] + [g['rec'].tile_off.get(coord, 0.0)])
    mode = 'lossy' if g['fmt'] != 'png' else ('exact' if off < 1e-9 else 'near')
    ok, detail, n, how = judge_image(g['lat'], coord[2], tile_rect(g['lat'], *coord), img, g['ts'], mode)
    if not ok and d.get('alt'):
        alt = tuple(d['alt'])
        ok2, detail2, n2, how2 = judge_image(g['lat'], alt[2], tile_rect(g['lat'], *alt), img, g['ts'], mode)
        if ok2:
            ok, n, how = True, n2, how2
            run.dc('tiles_without_origin_on_ul_grid_served_as_sw')
    if n == 0 and ok:
        run.dc('tile_without_judgeable_pixel')
    run.hit('tile_content_' + how)
    if not ok:
        bad('content', 'expected NOISE of internal tile %r: %s' % (coord, detail))
        return
    if ctx.spec['kind'] == 'dims' and d.get('dv') and stores:
        for s in stores:
            got = {k.lower(): str(v) for k, v in (s['dims'] or {}).items() if not k.startswith('_')}
            want = {k.lower(): str(v) for k, v in d['dv'].items()}
            # not this property's subject (observed: the single-tile creation path stores without dimensions)
            run.count('store_dimensions_equal_request' if got == want else 'store_dimensions_differ_from_request')


def gen_cases(run):
    for i in range(run.pick(128, 2400)):
        yield {'i': i}


def setup_shard(run):
    install_audit()
    upstream.install()


def run_case(run, case):
    rng = run.rng('conf', case['i'])
    spec = case.get('spec') or gen_spec(rng)
    d = run.subdir('c16')
    try:
        _run(run, case, spec, rng, d)
    finally:
        AUD['on'] = False
        shutil.rmtree(d, ignore_errors=True)


def _run(run, case, spec, rng, d):
    install_audit()
    try:
        ctx = build(run, spec, d)
    except Exception as ex:
        run.dc('config_rejected_by_loader:' + type(ex).__name__)
        if run.replaying:
            traceback.print_exc()
        return
    ctx.case_i = case['i']
    ctx.deep_rng = run.rng('deep', case['i'])
    if case.get('requests'):
        plan = case['requests']
    else:
        plan = make_plan(run, ctx, rng)
    done = []
    nviol = [0]

    def fail(mech, detail):
        if run.violation(mech, {'i': case['i'], 'spec': spec, 'requests': list(done)}, detail) != 'known':
            nviol[0] += 1

    for dsc in plan:
        done.append(dsc)
        execute(run, ctx, dsc, fail)
        if nviol[0] >= 4:
            break
    for g in ctx.grids.values():
        try:
            g['tm'].cleanup()
        except Exception:
            pass
    run.hit('scenarios')
    run.count('requests', len(done))
    run.count('upstream_calls', len(ctx.up.log))
    if case['i'] < 6 and not nviol[0]:
        ex = {}
        for dsc in done:
            ex.setdefault((dsc['svc'], dsc['exp'], dsc['what']), dsc['url'])
        run.sample({'spec': {k: spec[k] for k in ('kind', 'grids', 'src', 'max_output_pixels')},
                    'level_sizes': {gn: g['sizes'][:8] for gn, g in ctx.grids.items()},
                    'requests': len(done), 'upstream_calls': len(ctx.up.log),
                    'examples': [{'svc': k[0], 'expect': k[1], 'what': k[2], 'url': v[:260]} for k, v in sorted(ex.items())[:40]]})


if __name__ == '__main__':
    core.main(sys.modules[__name__])
